//! Helpers on the library side: comparing library primitives with the producer's values, small resolvers.
use crate::pdfgen::val::Val;
use datasize::DataSize;
use pdf::enc::StreamFilter;
use pdf::error::{PdfError, Result};
use pdf::object::{Object, ParseOptions, PlainRef, RcRef, Ref, Resolve};
use pdf::parser::ParseFlags;
use pdf::primitive::Primitive;
use std::ops::Range;
use std::sync::Arc;

/// Resolver over a plain buffer: no objects, but stream data can be read by range.
pub struct BufResolve<'a> {
    pub buf: &'a [u8],
    pub opts: ParseOptions,
}
impl<'a> BufResolve<'a> {
    pub fn new(buf: &'a [u8]) -> Self {
        BufResolve { buf, opts: ParseOptions::strict() }
    }
}
impl<'a> Resolve for BufResolve<'a> {
    fn resolve_flags(&self, _: PlainRef, _: ParseFlags, _: usize) -> Result<Primitive> {
        Err(PdfError::Reference)
    }
    fn get<T: Object + DataSize>(&self, _r: Ref<T>) -> Result<RcRef<T>> {
        Err(PdfError::Reference)
    }
    fn options(&self) -> &ParseOptions {
        &self.opts
    }
    fn get_data_or_decode(&self, _: PlainRef, range: Range<usize>, filters: &[StreamFilter]) -> Result<Arc<[u8]>> {
        let mut data: Vec<u8> = self.buf.get(range).ok_or(PdfError::EOF)?.to_vec();
        for f in filters {
            data = pdf::enc::decode(&data, f)?;
        }
        Ok(data.into())
    }
    fn stream_data(&self, _id: PlainRef, range: Range<usize>) -> Result<Arc<[u8]>> {
        Ok(self.buf.get(range).ok_or(PdfError::EOF)?.to_vec().into())
    }
}

pub fn real_value(text: &str) -> f32 {
    text.parse::<f32>().expect("producer real text")
}

/// Compare a library primitive with the producer's value. `ident`: integers and reals of equal numeric value
/// are identified. Streams compare dictionary (minus /Length) and raw bytes through `resolve`.
pub fn cmp_prim(p: &Primitive, v: &Val, ident: bool, resolve: &impl Resolve) -> std::result::Result<(), String> {
    let mismatch = || Err(format!("expected {} got {}", show_val(v), show_prim(p)));
    match (p, v) {
        (Primitive::Null, Val::Null) => Ok(()),
        (Primitive::Boolean(a), Val::Bool(b)) if a == b => Ok(()),
        (Primitive::Integer(a), Val::Int(b)) if *a as i64 == *b => Ok(()),
        (Primitive::Number(a), Val::Real(t)) if *a == real_value(t) => Ok(()),
        (Primitive::Number(a), Val::Int(b)) if ident && *a == *b as f32 => Ok(()),
        (Primitive::Integer(a), Val::Real(t)) if ident && *a as f32 == real_value(t) => Ok(()),
        (Primitive::String(s), Val::Str(b)) if s.as_bytes() == &b[..] => Ok(()),
        (Primitive::Name(n), Val::Name(b)) if n.as_bytes() == &b[..] => Ok(()),
        (Primitive::Reference(r), Val::Ref(n, g)) if r.id == *n && r.gen == *g as u64 => Ok(()),
        (Primitive::Array(a), Val::Array(b)) => {
            if a.len() != b.len() {
                return mismatch();
            }
            for (x, y) in a.iter().zip(b) {
                cmp_prim(x, y, ident, resolve)?;
            }
            Ok(())
        }
        (Primitive::Dictionary(d), Val::Dict(e)) => cmp_dict(d, e, ident, resolve, false).or_else(|m| Err(format!("{} (in {})", m, show_val(v)))),
        (Primitive::Stream(s), Val::Stream(e, data)) => {
            cmp_dict(&s.info, e, ident, resolve, true)?;
            match s.raw_data(resolve) {
                Ok(d) if &d[..] == &data[..] => Ok(()),
                Ok(d) => Err(format!("stream data differs: expected {} got {}", crate::core::show_bytes(data), crate::core::show_bytes(&d))),
                Err(e) => Err(format!("stream data unreadable: {}", crate::core::err_variant(&e))),
            }
        }
        _ => mismatch(),
    }
}
fn cmp_dict(d: &pdf::primitive::Dictionary, e: &[(Vec<u8>, Val)], ident: bool, resolve: &impl Resolve, ignore_length: bool) -> std::result::Result<(), String> {
    // the producer's dictionaries have unique keys
    let mut n = 0;
    for (k, v) in e {
        if ignore_length && k == b"Length" {
            continue;
        }
        n += 1;
        let ks = match std::str::from_utf8(k) {
            Ok(s) => s,
            Err(_) => return Err("non-utf8 key in producer value".into()),
        };
        match d.get(ks) {
            Some(p) => cmp_prim(p, v, ident, resolve)?,
            None => return Err(format!("key /{} missing; got {}", ks, show_dict(d))),
        }
    }
    let dn = d.iter().filter(|(k, _)| !(ignore_length && k.as_str() == "Length")).count();
    if dn != n {
        return Err(format!("dictionary has {} entries, expected {}: {}", dn, n, show_dict(d)));
    }
    Ok(())
}
pub fn show_dict(d: &pdf::primitive::Dictionary) -> String {
    let mut s = String::from("<<");
    for (k, v) in d.iter() {
        s.push_str(&format!(" /{} {}", k.as_str(), show_prim(v)));
    }
    s.push_str(" >>");
    s
}
pub fn show_prim(p: &Primitive) -> String {
    let s = match p {
        Primitive::Null => "null".to_string(),
        Primitive::Integer(i) => format!("int {}", i),
        Primitive::Number(n) => format!("real {:?}", n),
        Primitive::Boolean(b) => format!("{}", b),
        Primitive::String(s) => format!("string({})", crate::core::show_bytes(s.as_bytes())),
        Primitive::Stream(s) => format!("stream{}", show_dict(&s.info)),
        Primitive::Dictionary(d) => show_dict(d),
        Primitive::Array(a) => format!("[{}]", a.iter().map(show_prim).collect::<Vec<_>>().join(" ")),
        Primitive::Reference(r) => format!("ref {} {}", r.id, r.gen),
        Primitive::Name(n) => format!("name({})", crate::core::show_bytes(n.as_bytes())),
    };
    crate::core::truncate(&s, 300)
}
pub fn show_val(v: &Val) -> String {
    let s = match v {
        Val::Null => "null".to_string(),
        Val::Int(i) => format!("int {}", i),
        Val::Real(t) => format!("real {:?}", real_value(t)),
        Val::Bool(b) => format!("{}", b),
        Val::Str(s) => format!("string({})", crate::core::show_bytes(s)),
        Val::Name(n) => format!("name({})", crate::core::show_bytes(n)),
        Val::Array(a) => format!("[{}]", a.iter().map(show_val).collect::<Vec<_>>().join(" ")),
        Val::Dict(d) => format!("<<{} >>", d.iter().map(|(k, v)| format!(" /{} {}", crate::core::show_bytes(k), show_val(v))).collect::<String>()),
        Val::Ref(n, g) => format!("ref {} {}", n, g),
        Val::Stream(d, data) => format!("stream<<{} >>[{} bytes]", d.iter().map(|(k, v)| format!(" /{} {}", crate::core::show_bytes(k), show_val(v))).collect::<String>(), data.len()),
    };
    crate::core::truncate(&s, 300)
}

/// Producer value of a library primitive (for differential comparisons); streams need a resolver for the data.
pub fn prim_to_val(p: &Primitive, resolve: &impl Resolve) -> Val {
    match p {
        Primitive::Null => Val::Null,
        Primitive::Integer(i) => Val::Int(*i as i64),
        Primitive::Number(n) => Val::Real(format!("{:?}", n)),
        Primitive::Boolean(b) => Val::Bool(*b),
        Primitive::String(s) => Val::Str(s.as_bytes().to_vec()),
        Primitive::Name(n) => Val::Name(n.as_bytes().to_vec()),
        Primitive::Array(a) => Val::Array(a.iter().map(|x| prim_to_val(x, resolve)).collect()),
        Primitive::Dictionary(d) => Val::Dict(d.iter().map(|(k, v)| (k.as_bytes().to_vec(), prim_to_val(v, resolve))).collect()),
        Primitive::Reference(r) => Val::Ref(r.id, r.gen as u16),
        Primitive::Stream(s) => {
            let data = s.raw_data(resolve).map(|d| d.to_vec()).unwrap_or_else(|e| format!("<unreadable: {}>", crate::core::err_variant(&e)).into_bytes());
            Val::Stream(s.info.iter().map(|(k, v)| (k.as_bytes().to_vec(), prim_to_val(v, resolve))).collect(), data)
        }
    }
}
