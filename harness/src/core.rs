//! Shared bookkeeping: tallies, failure signatures, known findings, evidence files, replay files.
use serde_json::{json, Value};
use std::collections::{BTreeMap, HashSet};
use std::time::Instant;

pub const VERIF_DIR_DEFAULT: &str = "/verif";

pub fn verif_dir() -> String {
    std::env::var("VERIF_DIR").unwrap_or_else(|_| VERIF_DIR_DEFAULT.to_string())
}
pub fn repo_dir() -> String {
    std::env::var("VERIF_REPO").unwrap_or_else(|_| "/repo".to_string())
}

#[derive(Clone, Copy, PartialEq, Eq, Debug)]
pub enum Tier {
    Quick,
    Thorough,
}
impl Tier {
    pub fn name(self) -> &'static str {
        match self {
            Tier::Quick => "quick",
            Tier::Thorough => "thorough",
        }
    }
    pub fn thorough(self) -> bool {
        self == Tier::Thorough
    }
}

/// FNV-1a, used for "distinct artefact" counting.
pub fn fnv(data: &[u8]) -> u64 {
    let mut h: u64 = 0xcbf29ce484222325;
    for &b in data {
        h ^= b as u64;
        h = h.wrapping_mul(0x100000001b3);
    }
    h
}
pub fn fnv_mix(h: u64, x: u64) -> u64 {
    let mut h = h ^ x.wrapping_mul(0x9E3779B97F4A7C15);
    h = h.wrapping_mul(0x100000001b3);
    h ^ (h >> 29)
}

/// One failing case (before minimisation across cases).
#[derive(Clone, Debug)]
pub struct Failure {
    /// sub-engine that produced the case (also selects the replay driver)
    pub engine: String,
    /// failure kind: wrong-value, error:<variant>, panic@file:line, abort, timeout, deadlock ...
    pub kind: String,
    /// sorted non-default choices ("label=alt") of the case
    pub devs: Vec<String>,
    /// human readable detail (expected vs observed) of the first case with this (kind, devs)
    pub detail: String,
    /// replay descriptor (JSON) of the first case
    pub replay: Value,
    /// how many cases were attributed to this entry (itself + subsumed supersets)
    pub count: u64,
}

impl Failure {
    pub fn signature(&self) -> String {
        format!("{}|{}|{}", self.engine, self.kind, self.devs.join(";"))
    }
}

fn is_subset(a: &[String], b: &[String]) -> bool {
    // both sorted
    let mut j = 0;
    for x in a {
        loop {
            if j >= b.len() {
                return false;
            }
            if &b[j] == x {
                j += 1;
                break;
            }
            if b[j] > *x {
                return false;
            }
            j += 1;
        }
    }
    true
}

/// Thread-local tally, merged into the global report.
#[derive(Default)]
pub struct Tally {
    pub evaluations: u64,
    pub states: u64,
    pub transitions: u64,
    pub validated: u64,
    /// hashes of distinct non-trivial artefacts
    pub distinct: HashSet<u64>,
    /// distinct-by-construction cases (exhaustive numeric sweeps)
    pub distinct_bulk: u64,
    pub outcomes: BTreeMap<String, u64>,
    /// (engine, kind) -> minimal failures
    pub failures: BTreeMap<(String, String), Vec<Failure>>,
    pub samples: Vec<Value>,
    pub notes: Vec<String>,
    pub caps_hit: Vec<String>,
}

pub const MAX_ENTRIES_PER_KIND: usize = 4000;

impl Tally {
    pub fn new() -> Self {
        Default::default()
    }
    pub fn outcome(&mut self, class: &str) {
        if let Some(c) = self.outcomes.get_mut(class) {
            *c += 1;
        } else {
            self.outcomes.insert(class.to_string(), 1);
        }
    }
    pub fn sample(&mut self, v: Value) {
        if self.samples.len() < 6 {
            self.samples.push(v);
        }
    }
    pub fn fail(&mut self, engine: &str, kind: &str, mut devs: Vec<String>, detail: String, replay: Value) {
        devs.sort();
        devs.dedup();
        self.add_failure(Failure { engine: engine.to_string(), kind: kind.to_string(), devs, detail, replay, count: 1 });
    }
    pub fn add_failure(&mut self, f: Failure) {
        let list = self.failures.entry((f.engine.clone(), f.kind.clone())).or_default();
        // subsumed by an existing smaller-or-equal entry?
        for e in list.iter_mut() {
            if is_subset(&e.devs, &f.devs) {
                e.count += f.count;
                return;
            }
        }
        // the new one may subsume existing larger entries
        let mut count = f.count;
        list.retain(|e| {
            if is_subset(&f.devs, &e.devs) {
                count += e.count;
                false
            } else {
                true
            }
        });
        if list.len() >= MAX_ENTRIES_PER_KIND {
            // never silently drop: fold into an overflow entry which can never be a known finding
            let key = "OVERFLOW(too many distinct failing cases)".to_string();
            if let Some(e) = list.iter_mut().find(|e| e.devs.len() == 1 && e.devs[0] == key) {
                e.count += count;
            } else {
                let mut g = f.clone();
                g.devs = vec![key];
                g.count = count;
                list.push(g);
            }
            return;
        }
        let mut f = f;
        f.count = count;
        list.push(f);
    }
    pub fn merge(&mut self, o: Tally) {
        self.evaluations += o.evaluations;
        self.states += o.states;
        self.transitions += o.transitions;
        self.validated += o.validated;
        self.distinct_bulk += o.distinct_bulk;
        if self.distinct.is_empty() {
            self.distinct = o.distinct;
        } else {
            self.distinct.extend(o.distinct);
        }
        for (k, v) in o.outcomes {
            *self.outcomes.entry(k).or_insert(0) += v;
        }
        for (_, l) in o.failures {
            for f in l {
                self.add_failure(f);
            }
        }
        for s in o.samples {
            self.sample(s);
        }
        self.notes.extend(o.notes);
        for c in o.caps_hit {
            if !self.caps_hit.contains(&c) {
                self.caps_hit.push(c);
            }
        }
    }
    pub fn all_failures(&self) -> Vec<&Failure> {
        self.failures.values().flat_map(|l| l.iter()).collect()
    }
}

pub struct Known {
    pub signature: String,
    pub what: String,
    pub status: String,
}

pub fn load_known(prop: &str) -> Vec<Known> {
    let path = format!("{}/known_findings.jsonl", verif_dir());
    let mut out = vec![];
    let text = match std::fs::read_to_string(&path) {
        Ok(t) => t,
        Err(_) => return out,
    };
    for (ln, line) in text.lines().enumerate() {
        let line = line.trim();
        if line.is_empty() || line.starts_with('#') {
            continue;
        }
        if let Some(rest) = line.strip_prefix("fixed:") {
            // fixed: property=<id> <commit> <what failed> [|| sig: <signature>]
            let rest = rest.trim();
            let mut it = rest.splitn(3, ' ');
            let p = it.next().unwrap_or("");
            let _commit = it.next().unwrap_or("");
            let tail = it.next().unwrap_or("");
            if p != format!("property={}", prop) {
                continue;
            }
            let (what, sig) = match tail.find("|| sig: ") {
                Some(i) => (tail[..i].trim().to_string(), tail[i + 8..].trim().to_string()),
                None => (tail.to_string(), String::new()),
            };
            out.push(Known { signature: sig, what, status: "fixed".into() });
            continue;
        }
        let v: Value = match serde_json::from_str(line) {
            Ok(v) => v,
            Err(e) => {
                eprintln!("MACHINERY: known_findings.jsonl line {} unparsable: {}", ln + 1, e);
                std::process::exit(2);
            }
        };
        if v["property"].as_str() != Some(prop) {
            continue;
        }
        out.push(Known {
            signature: v["signature"].as_str().unwrap_or("").to_string(),
            what: v["what"].as_str().unwrap_or("").to_string(),
            status: v["status"].as_str().unwrap_or("known").to_string(),
        });
    }
    out
}

pub struct CheckMeta {
    pub prop: &'static str,
    pub level: &'static str,
    pub rule: String,
    pub assumptions: Vec<String>,
    pub exhaustive: bool,
    pub bounds: Value,
}

/// Finish a check: classify failures against the known-findings file, write replay files and the
/// evidence file, print KNOWN-FINDING / VIOLATION lines, return the process exit code.
pub fn finish(meta: CheckMeta, tier: Tier, seed: u64, tally: Tally, started: Instant) -> i32 {
    let known = load_known(meta.prop);
    let vdir = verif_dir();
    let mut violations = 0u64;
    let mut known_hits: Vec<(String, String, u64)> = vec![];
    let mut viol_list: Vec<Value> = vec![];
    let mut failures: Vec<&Failure> = tally.all_failures();
    failures.sort_by_key(|f| (f.devs.len(), f.signature()));
    let mut printed_known: HashSet<String> = HashSet::new();
    for f in failures {
        let sig = f.signature();
        if let Some(k) = known.iter().find(|k| k.status == "known" && k.signature == sig) {
            if printed_known.insert(sig.clone()) {
                println!("KNOWN-FINDING: property={} {} [{}] ({} cases)", meta.prop, k.what, sig, f.count);
            }
            known_hits.push((sig, k.what.clone(), f.count));
            continue;
        }
        violations += 1;
        let dir = format!("{}/replays/{}", vdir, meta.prop);
        let _ = std::fs::create_dir_all(&dir);
        let name = format!("{:016x}.json", fnv(sig.as_bytes()));
        let path = format!("{}/{}", dir, name);
        let was_fixed = known.iter().any(|k| k.status == "fixed" && k.signature == sig);
        let doc = json!({
            "property": meta.prop,
            "engine": f.engine,
            "signature": sig,
            "kind": f.kind,
            "deviations": f.devs,
            "detail": f.detail,
            "cases_attributed": f.count,
            "regression_of_fixed_finding": was_fixed,
            "case": f.replay,
        });
        let _ = std::fs::write(&path, serde_json::to_string_pretty(&doc).unwrap());
        if violations <= 40 {
            println!("VIOLATION property={} replay={}", meta.prop, path);
            println!("  signature: {}", sig);
            println!("  detail: {}", truncate(&f.detail, 600));
        }
        if viol_list.len() < 20 {
            viol_list.push(json!({"signature": sig, "detail": truncate(&f.detail, 300), "replay": path}));
        }
    }
    if violations > 40 {
        println!("... {} further violations not printed (all have replay files)", violations - 40);
    }
    let wall = started.elapsed().as_secs_f64();
    let distinct = tally.distinct.len() as u64 + tally.distinct_bulk;
    let exhaustive = meta.exhaustive && tally.caps_hit.is_empty();
    let mut samples = tally.samples.clone();
    if samples.is_empty() {
        samples.push(json!("(no sample recorded)"));
    }
    let coverage = json!({
        "evaluations": tally.evaluations,
        "distinct_nontrivial": distinct,
        "rule": meta.rule,
        "samples": samples,
        "states": tally.states.max(1),
        "transitions": tally.transitions.max(1),
        "traces_validated_against_impl": tally.validated,
        "exhaustive": exhaustive,
        "caps_hit": tally.caps_hit,
        "bounds": meta.bounds,
        "distinct_outcomes": tally.outcomes.len(),
        "outcome_histogram": tally.outcomes,
        "known_findings_observed": known_hits.iter().map(|(s, w, c)| json!({"signature": s, "what": w, "cases": c})).collect::<Vec<_>>(),
        "violations_found": viol_list,
        "notes": tally.notes,
    });
    let ev = json!({
        "property_id": meta.prop,
        "tier": tier.name(),
        "seed": seed,
        "level": meta.level,
        "coverage": coverage,
        "assumptions": meta.assumptions,
        "wall_s": (wall * 1000.0).round() / 1000.0,
        "violations": violations,
    });
    let evdir = format!("{}/evidence", vdir);
    let _ = std::fs::create_dir_all(&evdir);
    let evpath = format!("{}/{}.json", evdir, meta.prop);
    if let Err(e) = std::fs::write(&evpath, serde_json::to_string_pretty(&ev).unwrap()) {
        eprintln!("MACHINERY: cannot write evidence {}: {}", evpath, e);
        return 2;
    }
    println!(
        "{} {}: evaluations={} distinct={} states={} transitions={} outcomes={} known={} violations={} wall={:.1}s{}",
        meta.prop,
        tier.name(),
        tally.evaluations,
        distinct,
        tally.states,
        tally.transitions,
        ev["coverage"]["distinct_outcomes"],
        known_hits.len(),
        violations,
        wall,
        if exhaustive { "" } else { " (NOT exhaustive: cap hit or sampled part)" }
    );
    if violations > 0 {
        1
    } else {
        0
    }
}

pub fn truncate(s: &str, n: usize) -> String {
    if s.len() <= n {
        s.to_string()
    } else {
        let mut end = n;
        while !s.is_char_boundary(end) {
            end -= 1;
        }
        format!("{}…", &s[..end])
    }
}

/// Printable form of bytes for details and samples.
pub fn show_bytes(b: &[u8]) -> String {
    let mut s = String::new();
    for &c in b.iter().take(400) {
        match c {
            b'\\' => s.push_str("\\\\"),
            0x20..=0x7e => s.push(c as char),
            b'\n' => s.push_str("\\n"),
            b'\r' => s.push_str("\\r"),
            b'\t' => s.push_str("\\t"),
            _ => s.push_str(&format!("\\x{:02x}", c)),
        }
    }
    if b.len() > 400 {
        s.push_str(&format!("…(+{} bytes)", b.len() - 400));
    }
    s
}

// ---------------------------------------------------------------------------------------------
// panic capture

use std::cell::RefCell;
thread_local! {
    static LAST_PANIC: RefCell<Option<String>> = RefCell::new(None);
    pub static QUIET: RefCell<bool> = RefCell::new(false);
}

pub fn install_panic_hook() {
    std::panic::set_hook(Box::new(|info| {
        let loc = info
            .location()
            .map(|l| {
                let f = l.file();
                // normalise to a repo-relative path
                let f = match f.find("pdf/src/") {
                    Some(i) => &f[i..],
                    None => match f.find("pdf_derive/src/") {
                        Some(i) => &f[i..],
                        None => f,
                    },
                };
                format!("{}:{}", f, l.line())
            })
            .unwrap_or_else(|| "?".into());
        let msg = if let Some(s) = info.payload().downcast_ref::<&str>() {
            s.to_string()
        } else if let Some(s) = info.payload().downcast_ref::<String>() {
            s.clone()
        } else {
            "<non-string payload>".to_string()
        };
        LAST_PANIC.with(|p| {
            let mut p = p.borrow_mut();
            if p.is_none() {
                *p = Some(format!("{} :: {}", loc, truncate(&msg, 200)));
            }
        });
        let quiet = QUIET.with(|q| *q.borrow());
        if !quiet {
            eprintln!("panic at {}: {}", loc, truncate(&msg, 300));
        }
    }));
}

/// Run `f`, catching a panic. Err(("file:line", message)).
pub fn catch<T>(f: impl FnOnce() -> T) -> Result<T, (String, String)> {
    LAST_PANIC.with(|p| *p.borrow_mut() = None);
    QUIET.with(|q| *q.borrow_mut() = true);
    let r = std::panic::catch_unwind(std::panic::AssertUnwindSafe(f));
    QUIET.with(|q| *q.borrow_mut() = false);
    match r {
        Ok(v) => Ok(v),
        Err(_) => {
            let s = LAST_PANIC.with(|p| p.borrow_mut().take()).unwrap_or_else(|| "? :: ?".into());
            let mut it = s.splitn(2, " :: ");
            let loc = it.next().unwrap_or("?").to_string();
            let msg = it.next().unwrap_or("").to_string();
            Err((loc, msg))
        }
    }
}

/// Strip the line number from a panic location when the panic is in harness code (should not happen).
pub fn panic_kind(loc: &str) -> String {
    format!("panic@{}", loc)
}

/// Root-cause variant name of a PdfError after peeling Try/Shared wrappers.
pub fn err_variant(e: &pdf::error::PdfError) -> String {
    use pdf::error::PdfError as E;
    match e {
        E::Try { source, .. } => err_variant(source),
        E::Shared { source } => err_variant(source),
        other => {
            let d = format!("{:?}", other);
            let end = d.find(|c: char| !(c.is_alphanumeric() || c == '_')).unwrap_or(d.len());
            d[..end].to_string()
        }
    }
}
/// Like err_variant but keeps FromPrimitive as-is (so a caller can look at the field).
pub fn err_root<'a>(e: &'a pdf::error::PdfError) -> &'a pdf::error::PdfError {
    use pdf::error::PdfError as E;
    match e {
        E::Try { source, .. } => err_root(source),
        E::Shared { source } => err_root(source),
        other => other,
    }
}
