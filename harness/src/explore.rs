//! §3.1 bounded-cost choice-tree search: the model checker shared by all properties.
//!
//! A driver is a function `Fn(&mut Chooser, &mut Tally)`, re-executed from scratch for every node
//! of the choice tree. A node is a prefix of forced picks; beyond the prefix every choice point
//! answers 0 (the canonical alternative). Children of a node are the prefixes obtained by changing
//! one later choice point to a non-default alternative, as long as the accumulated cost stays
//! within the bound.
use crate::core::Tally;
use rayon::prelude::*;
use serde_json::{json, Value};
use std::time::{Duration, Instant};

#[derive(Clone, Debug)]
pub struct Pick {
    pub label: &'static str,
    pub picked: u32,
    pub n: u32,
    /// cost of every non-default alternative at this point (0 = free dimension, full product)
    pub alt_cost: u32,
    /// optional names of the alternatives
    pub names: Option<&'static [&'static str]>,
}

pub struct Chooser {
    forced: Vec<u32>,
    pub trace: Vec<Pick>,
    /// set when a forced pick was out of range (machinery error, not a verdict)
    pub diverged: Option<String>,
    /// driver-settable: ask the driver to produce a sample/pretty form
    pub want_sample: bool,
}

impl Chooser {
    pub fn new(forced: Vec<u32>) -> Self {
        Chooser { forced, trace: Vec::with_capacity(32), diverged: None, want_sample: false }
    }
    fn next(&mut self, label: &'static str, n: usize, alt_cost: u32, names: Option<&'static [&'static str]>) -> usize {
        debug_assert!(n >= 1);
        let i = self.trace.len();
        let mut picked = if i < self.forced.len() { self.forced[i] } else { 0 };
        if picked as usize >= n {
            if self.diverged.is_none() {
                self.diverged = Some(format!("forced pick {} out of range {} at point {} ({})", picked, n, i, label));
            }
            picked = 0;
        }
        self.trace.push(Pick { label, picked, n: n as u32, alt_cost, names });
        picked as usize
    }
    /// a deviation point: alternative 0 is canonical, every other alternative costs 1
    pub fn pick(&mut self, label: &'static str, n: usize) -> usize {
        self.next(label, n, 1, None)
    }
    pub fn pick_named(&mut self, label: &'static str, names: &'static [&'static str]) -> usize {
        self.next(label, names.len(), 1, Some(names))
    }
    /// a free dimension: all alternatives cost 0 (full product)
    pub fn pick_free(&mut self, label: &'static str, n: usize) -> usize {
        self.next(label, n, 0, None)
    }
    pub fn pick_free_named(&mut self, label: &'static str, names: &'static [&'static str]) -> usize {
        self.next(label, names.len(), 0, Some(names))
    }
    pub fn pick_cost(&mut self, label: &'static str, n: usize, cost: u32) -> usize {
        self.next(label, n, cost, None)
    }
    pub fn flag(&mut self, label: &'static str) -> bool {
        self.pick(label, 2) == 1
    }
    pub fn picks(&self) -> Vec<u32> {
        self.trace.iter().map(|p| p.picked).collect()
    }
    pub fn cost(&self) -> u32 {
        self.trace.iter().map(|p| if p.picked != 0 { p.alt_cost } else { 0 }).sum()
    }
    /// the non-default choices as "label#k=alt" strings (k = occurrence index of the label in this run)
    pub fn deviations(&self) -> Vec<String> {
        deviations_of(&self.trace)
    }
    pub fn n_deviations(&self) -> usize {
        self.trace.iter().filter(|p| p.picked != 0).count()
    }
    pub fn replay_value(&self, engine: &str) -> Value {
        json!({"engine": engine, "picks": self.picks(), "deviations": self.deviations()})
    }
}

pub fn deviations_of(trace: &[Pick]) -> Vec<String> {
    // position-free: "label=alternative"; repeated identical deviations collapse
    let mut out = vec![];
    for p in trace {
        if p.picked != 0 {
            let alt = match p.names {
                Some(n) => n[p.picked as usize].to_string(),
                None => p.picked.to_string(),
            };
            out.push(format!("{}={}", p.label.trim_end_matches('#'), alt));
        }
    }
    out.sort();
    out.dedup();
    out
}

#[derive(Clone)]
pub struct Limits {
    pub bound: u32,
    pub max_cases: u64,
    pub max_wall: Duration,
}
impl Limits {
    pub fn new(bound: u32) -> Self {
        Limits { bound, max_cases: u64::MAX, max_wall: Duration::from_secs(3600 * 6) }
    }
    pub fn cases(mut self, n: u64) -> Self {
        self.max_cases = n;
        self
    }
    pub fn wall(mut self, s: u64) -> Self {
        self.max_wall = Duration::from_secs(s);
        self
    }
}

fn children(trace: &[Pick], from: usize, bound: u32) -> Vec<Vec<u32>> {
    let mut out = vec![];
    let mut cost: u32 = trace[..from.min(trace.len())].iter().map(|p| if p.picked != 0 { p.alt_cost } else { 0 }).sum();
    for i in from..trace.len() {
        let p = &trace[i];
        // by construction picks beyond the prefix are 0
        if cost + p.alt_cost <= bound {
            for alt in 1..p.n {
                let mut v: Vec<u32> = trace[..i].iter().map(|q| q.picked).collect();
                v.push(alt);
                out.push(v);
            }
        }
        if p.picked != 0 {
            cost += p.alt_cost;
        }
    }
    out
}

/// Sequential DFS below `root` (inclusive). Returns false if a cap was hit.
fn dfs<F>(root: Vec<u32>, limits: &Limits, started: Instant, budget: &std::sync::atomic::AtomicU64, tally: &mut Tally, f: &F) -> bool
where
    F: Fn(&mut Chooser, &mut Tally),
{
    let mut stack = vec![root];
    while let Some(prefix) = stack.pop() {
        if budget.fetch_add(1, std::sync::atomic::Ordering::Relaxed) >= limits.max_cases {
            return false;
        }
        if tally.states % 256 == 0 && started.elapsed() > limits.max_wall {
            return false;
        }
        let plen = prefix.len();
        let mut ch = Chooser::new(prefix);
        f(&mut ch, tally);
        if let Some(d) = ch.diverged {
            eprintln!("MACHINERY: replay divergence in explorer: {}", d);
            std::process::exit(2);
        }
        tally.states += 1;
        let kids = children(&ch.trace, plen, limits.bound);
        tally.transitions += kids.len() as u64;
        stack.extend(kids.into_iter().rev());
    }
    true
}

/// Explore the whole tree up to `limits.bound`. The tree is expanded level by level (each level in
/// parallel) until the frontier is wide enough, then every frontier node's subtree is searched
/// depth-first on the thread pool.
pub fn explore<F>(name: &str, limits: Limits, tally: &mut Tally, f: F)
where
    F: Fn(&mut Chooser, &mut Tally) + Sync,
{
    let started = Instant::now();
    let budget = std::sync::atomic::AtomicU64::new(0);
    let mut frontier: Vec<Vec<u32>> = vec![vec![]];
    let mut capped = false;
    while !frontier.is_empty() && frontier.len() < 4096 {
        let results: Vec<(Tally, Vec<Vec<u32>>, bool)> = frontier
            .par_iter()
            .map(|prefix| {
                let mut t = Tally::new();
                if budget.fetch_add(1, std::sync::atomic::Ordering::Relaxed) >= limits.max_cases || started.elapsed() > limits.max_wall {
                    return (t, vec![], false);
                }
                let plen = prefix.len();
                let mut ch = Chooser::new(prefix.clone());
                f(&mut ch, &mut t);
                if let Some(d) = ch.diverged {
                    eprintln!("MACHINERY: replay divergence in explorer: {}", d);
                    std::process::exit(2);
                }
                t.states += 1;
                let kids = children(&ch.trace, plen, limits.bound);
                t.transitions += kids.len() as u64;
                (t, kids, true)
            })
            .collect();
        let mut next = vec![];
        for (t, kids, ok) in results {
            tally.merge(t);
            next.extend(kids);
            capped |= !ok;
        }
        frontier = next;
    }
    let results: Vec<(Tally, bool)> = frontier
        .into_par_iter()
        .map(|k| {
            let mut t = Tally::new();
            let ok = dfs(k, &limits, started, &budget, &mut t, &f);
            (t, ok)
        })
        .collect();
    for (t, ok) in results {
        tally.merge(t);
        capped |= !ok;
    }
    if capped {
        tally.caps_hit.push(format!("{}: case/wall cap hit at bound {}", name, limits.bound));
    }
}

/// Sequential variant (for drivers that are not Sync, e.g. ones that talk to one worker process).
pub fn explore_seq<F>(name: &str, limits: Limits, tally: &mut Tally, f: F)
where
    F: Fn(&mut Chooser, &mut Tally),
{
    let started = Instant::now();
    let budget = std::sync::atomic::AtomicU64::new(0);
    if !dfs(vec![], &limits, started, &budget, tally, &f) {
        tally.caps_hit.push(format!("{}: case/wall cap hit at bound {}", name, limits.bound));
    }
}

/// Run one case by its picks (replay).
pub fn run_one<F>(picks: &[u32], tally: &mut Tally, f: F) -> Chooser
where
    F: Fn(&mut Chooser, &mut Tally),
{
    let mut ch = Chooser::new(picks.to_vec());
    ch.want_sample = true;
    f(&mut ch, tally);
    ch
}
