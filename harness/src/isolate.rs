//! §3.4 child-process workers for the walker: crashes (stack overflow, abort, allocation failure) and hangs cannot
//! be caught in-process, so each case is walked in a worker subprocess with a deadline, an address-space limit and
//! a 16 MiB stack. A crash is attributed to the one case that was being walked; the worker is then restarted.
use crate::core::*;
use crate::walker::*;
use std::cell::RefCell;
use std::io::{BufRead, BufReader, Read, Write};
#[allow(unused_imports)]
use std::io::Seek;
use std::process::{Child, ChildStdin, ChildStdout, Command, Stdio};

#[derive(Clone, Debug, PartialEq)]
pub enum Verdict {
    /// every call returned; `load` is "ok" or the error variant of the failed open
    Returned { load: String, calls: u64, decoded: u64 },
    Panic { loc: String, msg: String },
    Died { how: String },
    Timeout,
}
impl Verdict {
    pub fn failure(&self) -> Option<(String, String)> {
        match self {
            Verdict::Returned { .. } => None,
            Verdict::Panic { loc, msg } => Some((panic_kind(loc), msg.clone())),
            Verdict::Died { how } => Some((format!("process-death:{}", how.split(' ').next().unwrap_or("")), how.clone())),
            Verdict::Timeout => Some(("timeout".into(), "a call did not return within the deadline".into())),
        }
    }
    pub fn class(&self) -> String {
        match self {
            Verdict::Returned { load, .. } => format!("returned(load={})", load),
            other => other.failure().unwrap().0,
        }
    }
}

/// worker main loop: requests are `cfg(1 byte: bit0 tolerant, bit1 cached, bit2 scan, bit3 font codes) pwlen(u32 LE) pw len(u32 LE) bytes`
pub fn walk_worker_main() {
    // address space limit: a hostile file must not take the machine down
    unsafe {
        let lim = libc::rlimit { rlim_cur: 3 << 30, rlim_max: 3 << 30 };
        libc::setrlimit(libc::RLIMIT_AS, &lim);
    }
    let h = std::thread::Builder::new()
        .stack_size(16 << 20)
        .spawn(|| {
            let mut stdin = std::io::stdin().lock();
            let mut out = std::io::stdout();
            loop {
                let mut head = [0u8; 5];
                if stdin.read_exact(&mut head).is_err() {
                    break;
                }
                let cfgb = head[0];
                let pwlen = u32::from_le_bytes([head[1], head[2], head[3], head[4]]) as usize;
                let mut pw = vec![0u8; pwlen];
                if stdin.read_exact(&mut pw).is_err() {
                    break;
                }
                let mut l = [0u8; 4];
                if stdin.read_exact(&mut l).is_err() {
                    break;
                }
                let len = u32::from_le_bytes(l) as usize;
                let mut bytes = vec![0u8; len];
                if stdin.read_exact(&mut bytes).is_err() {
                    break;
                }
                let cfg = Config { tolerant: cfgb & 1 != 0, cached: cfgb & 2 != 0 };
                let w = WalkOpts { scan: cfgb & 4 != 0, font_codes: cfgb & 8 != 0, max_objects: 300 };
                let before = pdf::verif::decoded_bytes();
                let mut o = Obs::new(false);
                let r = catch(|| open_and_walk(&bytes, &pw, cfg, &w, &mut o));
                let decoded = pdf::verif::decoded_bytes() - before;
                let line = match r {
                    Ok(Ok(())) => format!("R ok {} {}", o.calls, decoded),
                    Ok(Err(v)) => format!("R {} {} {}", v, o.calls, decoded),
                    Err((loc, msg)) => format!("P {} :: {}", loc, msg.replace('\n', " ")),
                };
                if writeln!(out, "{}", line).is_err() || out.flush().is_err() {
                    break;
                }
            }
        })
        .expect("spawn");
    let _ = h.join();
}

pub struct WalkWorker {
    child: Child,
    stdin: ChildStdin,
    stdout: BufReader<ChildStdout>,
    /// the worker's stderr goes to a file (a pipe nobody drains would block the worker once it is full:
    /// the library prints with dbg! on some paths)
    errlog: std::path::PathBuf,
    /// cases served so far: a worker is replaced after RECYCLE_AFTER cases, so that whatever a long-lived process accumulates
    /// (allocator fragmentation under the address-space limit, logs) cannot be mistaken for the behaviour of one case
    served: u64,
}
const RECYCLE_AFTER: u64 = 4000;
static WORKER_SEQ: std::sync::atomic::AtomicU64 = std::sync::atomic::AtomicU64::new(0);
impl WalkWorker {
    pub fn spawn() -> WalkWorker {
        let exe = std::env::current_exe().expect("exe");
        let dir = exe.parent().map(|p| p.join("worker-logs")).unwrap_or_else(std::env::temp_dir);
        let _ = std::fs::create_dir_all(&dir);
        let errlog = dir.join(format!("{}-{}.stderr", std::process::id(), WORKER_SEQ.fetch_add(1, std::sync::atomic::Ordering::Relaxed)));
        let errfile = std::fs::File::create(&errlog).expect("worker stderr file");
        let mut child = Command::new(exe).arg("worker").arg("walk").env("RUST_BACKTRACE", "0").stdin(Stdio::piped()).stdout(Stdio::piped()).stderr(Stdio::from(errfile)).spawn().expect("spawn worker");
        let stdin = child.stdin.take().unwrap();
        let stdout = BufReader::new(child.stdout.take().unwrap());
        WalkWorker { child, stdin, stdout, errlog, served: 0 }
    }
    fn death(&mut self) -> Verdict {
        use std::os::unix::process::ExitStatusExt;
        let _ = self.child.kill();
        let status = self.child.wait().ok();
        let mut tail = String::new();
        if let Ok(buf) = std::fs::read(&self.errlog) {
            let from = buf.len().saturating_sub(4000);
            let s = String::from_utf8_lossy(&buf[from..]);
            let lines: Vec<&str> = s.lines().filter(|l| !l.trim().is_empty()).collect();
            tail = lines.iter().rev().take(3).rev().cloned().collect::<Vec<_>>().join(" / ");
        }
        let how = match status.and_then(|s| s.signal()) {
            Some(11) | Some(7) => "stack-overflow-or-segv (signal 11)".to_string(),
            Some(6) => {
                if tail.contains("memory allocation") {
                    "out-of-memory abort (signal 6)".to_string()
                } else if tail.contains("stack overflow") {
                    "stack-overflow abort (signal 6)".to_string()
                } else {
                    "abort (signal 6)".to_string()
                }
            }
            Some(9) => "killed (signal 9)".to_string(),
            Some(s) => format!("signal {}", s),
            None => format!("exit {:?}", status.and_then(|s| s.code())),
        };
        Verdict::Died { how: format!("{} stderr: {}", how, truncate(&tail, 300)) }
    }
    pub fn walk(&mut self, bytes: &[u8], pw: &[u8], cfg: Config, scan: bool, font_codes: bool, deadline_ms: i32) -> Verdict {
        let cfgb = (cfg.tolerant as u8) | (cfg.cached as u8) << 1 | (scan as u8) << 2 | (font_codes as u8) << 3;
        let mut req = Vec::with_capacity(bytes.len() + pw.len() + 9);
        req.push(cfgb);
        req.extend_from_slice(&(pw.len() as u32).to_le_bytes());
        req.extend_from_slice(pw);
        req.extend_from_slice(&(bytes.len() as u32).to_le_bytes());
        req.extend_from_slice(bytes);
        if self.stdin.write_all(&req).is_err() || self.stdin.flush().is_err() {
            return self.death();
        }
        use std::os::unix::io::AsRawFd;
        let fd = self.stdout.get_ref().as_raw_fd();
        let mut pfd = libc::pollfd { fd, events: libc::POLLIN, revents: 0 };
        let rc = unsafe { libc::poll(&mut pfd, 1, deadline_ms) };
        if rc == 0 {
            let _ = self.child.kill();
            let _ = self.child.wait();
            return Verdict::Timeout;
        }
        let mut line = String::new();
        match self.stdout.read_line(&mut line) {
            Ok(n) if n > 0 => {
                let line = line.trim_end();
                if let Some(rest) = line.strip_prefix("R ") {
                    let mut it = rest.split(' ');
                    let load = it.next().unwrap_or("?").to_string();
                    let calls = it.next().and_then(|s| s.parse().ok()).unwrap_or(0);
                    let decoded = it.next().and_then(|s| s.parse().ok()).unwrap_or(0);
                    Verdict::Returned { load, calls, decoded }
                } else if let Some(rest) = line.strip_prefix("P ") {
                    let mut it = rest.splitn(2, " :: ");
                    Verdict::Panic { loc: it.next().unwrap_or("?").to_string(), msg: it.next().unwrap_or("").to_string() }
                } else {
                    Verdict::Died { how: format!("garbled response `{}`", truncate(line, 80)) }
                }
            }
            _ => self.death(),
        }
    }
}
impl Drop for WalkWorker {
    fn drop(&mut self) {
        let _ = self.child.kill();
        let _ = self.child.wait();
        let _ = std::fs::remove_file(&self.errlog);
    }
}

thread_local! {
    static WORKER: RefCell<Option<WalkWorker>> = RefCell::new(None);
}

/// Walk `bytes` in this thread's worker process (spawned on demand, restarted after a crash).
pub fn walk_isolated(bytes: &[u8], pw: &[u8], cfg: Config, scan: bool, font_codes: bool) -> Verdict {
    WORKER.with(|w| {
        let mut w = w.borrow_mut();
        if w.as_ref().map(|x| x.served >= RECYCLE_AFTER).unwrap_or(false) {
            *w = None;
        }
        if w.is_none() {
            *w = Some(WalkWorker::spawn());
        }
        let worker = w.as_mut().unwrap();
        worker.served += 1;
        let v = worker.walk(bytes, pw, cfg, scan, font_codes, 10_000);
        if matches!(v, Verdict::Returned { .. } | Verdict::Panic { .. }) {
            return v;
        }
        // a crash or a missed deadline is only attributed to this input if it happens again in a fresh process that
        // serves nothing else (the same case must fail every time: a loaded machine or a worker that has served
        // thousands of cases must not produce a verdict)
        *w = None;
        let mut fresh = WalkWorker::spawn();
        let again = fresh.walk(bytes, pw, cfg, scan, font_codes, 20_000);
        match again {
            Verdict::Returned { .. } | Verdict::Panic { .. } => {
                TRANSIENT.fetch_add(1, std::sync::atomic::Ordering::Relaxed);
                again
            }
            _ => v,
        }
    })
}
/// crashes / timeouts that did not reproduce in a fresh worker (reported in the evidence notes)
pub static TRANSIENT: std::sync::atomic::AtomicU64 = std::sync::atomic::AtomicU64::new(0);
