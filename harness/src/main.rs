mod common;
mod core;
mod explore;
mod isolate;
mod pdfgen;
mod props;
mod refread;
mod sched;
mod walker;

use crate::core::{CheckMeta, Tally, Tier};
use serde_json::Value;
use std::time::Instant;

type RunFn = fn(Tier, u64, &mut Tally) -> CheckMeta;
type ReplayFn = fn(&Value, &mut Tally);

fn registry() -> Vec<(&'static str, RunFn, ReplayFn)> {
    vec![
        ("C01", props::c01::run, props::c01::replay),
        ("C02", props::c02::run, props::c02::replay),
        ("C03", props::c03::run, props::c03::replay),
        ("C04", props::c04::run, props::c04::replay),
        ("C05", props::c05::run, props::c05::replay),
        ("C06", props::c06::run, props::c06::replay),
        ("C07", props::c07::run, props::c07::replay),
        ("C08", props::c08::run, props::c08::replay),
        ("C09", props::c09::run, props::c09::replay),
        ("C10", props::c10::run, props::c10::replay),
        ("C11", props::c11::run, props::c11::replay),
        ("C12", props::c12::run, props::c12::replay),
        ("C13", props::c13::run, props::c13::replay),
        ("C14", props::c14::run, props::c14::replay),
        ("C15", props::c15::run, props::c15::replay),
        ("C16", props::c16::run, props::c16::replay),
        ("C17", props::c17::run, props::c17::replay),
        ("C18", props::c18::run, props::c18::replay),
        ("C19", props::c19::run, props::c19::replay),
        ("C20", props::c20::run, props::c20::replay),
    ]
}

fn selfcheck() -> i32 {
    if let Err(e) = pdfgen::filters::selftest() {
        eprintln!("MACHINERY: pdfgen filter self-test failed: {}", e);
        return 2;
    }
    match pdfgen::crypt::selftest_fixtures() {
        Ok(n) if n >= 5 => {}
        Ok(n) => {
            eprintln!("MACHINERY: only {} encrypted fixtures found under {}/files", n, core::repo_dir());
            return 2;
        }
        Err(e) => {
            eprintln!("MACHINERY: encryptor self-test against fixtures failed: {}", e);
            return 2;
        }
    }
    if let Err(e) = sched::check_upstream() {
        eprintln!("MACHINERY: {}", e);
        return 2;
    }
    0
}

fn main() {
    let args: Vec<String> = std::env::args().collect();
    core::install_panic_hook();
    let seed: u64 = std::env::var("VERIF_SEED").ok().and_then(|s| s.parse().ok()).unwrap_or(0);
    match args.get(1).map(|s| s.as_str()) {
        Some("selfcheck") => {
            let rc = selfcheck();
            if rc == 0 {
                println!("selfcheck ok");
            }
            std::process::exit(rc);
        }
        Some("run") => {
            let id = args.get(2).expect("property id");
            let tier = match args.get(3).map(|s| s.as_str()) {
                Some("thorough") => Tier::Thorough,
                _ => Tier::Quick,
            };
            let rc = selfcheck();
            if rc != 0 {
                std::process::exit(rc);
            }
            let reg = registry();
            let Some((_, run, _)) = reg.iter().find(|(n, _, _)| n == id) else {
                eprintln!("MACHINERY: unknown property {}", id);
                std::process::exit(2);
            };
            let started = Instant::now();
            let mut tally = Tally::new();
            let meta = run(tier, seed, &mut tally);
            let rc = core::finish(meta, tier, seed, tally, started);
            std::process::exit(rc);
        }
        Some("replay") => {
            let path = args.get(2).expect("replay file");
            let text = std::fs::read_to_string(path).unwrap_or_else(|e| {
                eprintln!("MACHINERY: cannot read {}: {}", path, e);
                std::process::exit(2)
            });
            let v: Value = serde_json::from_str(&text).expect("replay json");
            let id = v["property"].as_str().expect("property").to_string();
            let reg = registry();
            let Some((_, _, replay)) = reg.iter().find(|(n, _, _)| *n == id) else {
                eprintln!("MACHINERY: unknown property {}", id);
                std::process::exit(2);
            };
            println!("replaying {} signature {}", id, v["signature"]);
            let mut rc = 0;
            // run twice: the same case must give the same observation
            let mut sigs: Vec<Vec<String>> = vec![];
            for round in 0..2 {
                let mut tally = Tally::new();
                replay(&v["case"], &mut tally);
                let mut s: Vec<String> = tally.all_failures().iter().map(|f| format!("{} :: {}", f.signature(), f.detail)).collect();
                s.sort();
                if round == 0 {
                    if s.is_empty() {
                        println!("replay: case PASSES on this tree");
                    }
                    for l in &s {
                        println!("replay: FAILS: {}", l);
                        rc = 1;
                    }
                }
                sigs.push(s);
            }
            if sigs[0] != sigs[1] {
                eprintln!("MACHINERY: replay is not deterministic");
                std::process::exit(2);
            }
            std::process::exit(rc);
        }
        Some("worker") => match args.get(2).map(|s| s.as_str()) {
            Some("c13") => props::c13::worker_main(),
            Some("walk") => isolate::walk_worker_main(),
            Some("c20") => props::c20::worker_main(),
            other => {
                eprintln!("unknown worker {:?}", other);
                std::process::exit(2);
            }
        },
        Some("walk") => {
            // debugging aid: harness walk <file.pdf|gen:NAME> [password]
            let what = args.get(2).expect("file");
            let bytes = match what.as_str() {
                "gen:rich" => pdfgen::docs::rich_doc(b"", pdfgen::docs::DocOpts::CLASSIC),
                "gen:rich-stream" => pdfgen::docs::rich_doc(b"", pdfgen::docs::DocOpts::STREAM),
                "gen:rich-chain" => pdfgen::docs::rich_doc(b"", pdfgen::docs::DocOpts::CHAIN),
                "gen:rich-chain-stream" => pdfgen::docs::rich_doc(b"", pdfgen::docs::DocOpts::CHAIN_STREAM),
                "gen:small" => pdfgen::docs::small_doc(b""),
                "gen:hostile" => pdfgen::docs::rich_doc_with(b"", pdfgen::docs::DocOpts::CLASSIC, &pdfgen::docs::hostile_objects()),
                w if w.starts_with("special:") => props::c14::special_cases().into_iter().find(|(n, _)| n == &w[8..]).expect("no such special").1,
                path => std::fs::read(path).expect("read"),
            };
            if let Some(out) = args.get(4) {
                std::fs::write(out, &bytes).unwrap();
            }
            let pw = args.get(3).map(|s| s.as_bytes().to_vec()).unwrap_or_default();
            for cfg in walker::CONFIGS {
                let mut o = walker::Obs::new(true);
                let started = std::time::Instant::now();
                let r = core::catch(|| walker::open_and_walk(&bytes, &pw, cfg, &walker::WalkOpts::default(), &mut o));
                println!("== {} -> {:?} ({} calls, {:.2} s)", cfg.name(), r, o.calls, started.elapsed().as_secs_f64());
                if cfg.name() == "strict-uncached" {
                    for (k, v) in &o.lines {
                        println!("{} = {}", k, core::truncate(v, if std::env::var("VERIF_FULL").is_ok() { 1_000_000 } else { 200 }));
                    }
                }
            }
        }
        _ => {
            eprintln!("usage: harness run <ID> <quick|thorough> | replay <file> | selfcheck");
            std::process::exit(2);
        }
    }
}
