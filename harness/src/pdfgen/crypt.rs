//! Standard security handler *encryptor* written from ISO 32000-1 7.6 / ISO 32000-2 (Algorithms 1, 1.A, 2, 2.A, 2.B, 3-10).
//! Primitives: own RC4; md5 / sha2 / aes / cbc crates.
use super::val::Val;
use aes::cipher::block_padding::{NoPadding, Pkcs7};
use aes::cipher::{BlockEncryptMut, KeyIvInit, KeyInit};
use sha2::{Digest, Sha256, Sha384, Sha512};

pub const PAD: [u8; 32] = [
    0x28, 0xBF, 0x4E, 0x5E, 0x4E, 0x75, 0x8A, 0x41, 0x64, 0x00, 0x4E, 0x56, 0xFF, 0xFA, 0x01, 0x08, 0x2E, 0x2E, 0x00, 0xB6, 0xD0, 0x68, 0x3E, 0x80, 0x2F, 0x0C, 0xA9, 0xFE, 0x64, 0x53, 0x69, 0x7A,
];

pub fn rc4(key: &[u8], data: &[u8]) -> Vec<u8> {
    let mut s: [u8; 256] = [0; 256];
    for (i, x) in s.iter_mut().enumerate() {
        *x = i as u8;
    }
    let mut j = 0u8;
    for i in 0..256 {
        j = j.wrapping_add(s[i]).wrapping_add(key[i % key.len()]);
        s.swap(i, j as usize);
    }
    let (mut i, mut j) = (0u8, 0u8);
    data.iter()
        .map(|&b| {
            i = i.wrapping_add(1);
            j = j.wrapping_add(s[i as usize]);
            s.swap(i as usize, j as usize);
            b ^ s[(s[i as usize].wrapping_add(s[j as usize])) as usize]
        })
        .collect()
}

fn md5(data: &[u8]) -> [u8; 16] {
    md5::compute(data).0
}
fn pad_pw(pw: &[u8]) -> [u8; 32] {
    let mut out = [0u8; 32];
    let n = pw.len().min(32);
    out[..n].copy_from_slice(&pw[..n]);
    out[n..].copy_from_slice(&PAD[..32 - n]);
    out
}

#[derive(Clone, Copy, Debug, PartialEq)]
pub enum Variant {
    /// R2, V1, RC4 40 bit
    R2,
    /// R3, V2, RC4 with key length in bytes (5..=16)
    R3(usize),
    /// R4, V4, crypt filter /V2 (RC4-128)
    R4Rc4,
    /// R4, V4, crypt filter /AESV2
    R4Aes,
    /// R5, V5, /AESV3 (deprecated Adobe extension)
    R5,
    /// R6, V5, /AESV3
    R6,
}
impl Variant {
    pub fn r(&self) -> u32 {
        match self {
            Variant::R2 => 2,
            Variant::R3(_) => 3,
            Variant::R4Rc4 | Variant::R4Aes => 4,
            Variant::R5 => 5,
            Variant::R6 => 6,
        }
    }
    pub fn key_len(&self) -> usize {
        match self {
            Variant::R2 => 5,
            Variant::R3(n) => *n,
            Variant::R4Rc4 | Variant::R4Aes => 16,
            _ => 32,
        }
    }
    pub fn aes(&self) -> bool {
        matches!(self, Variant::R4Aes | Variant::R5 | Variant::R6)
    }
}

#[derive(Clone, Debug)]
pub struct Security {
    pub variant: Variant,
    pub user_pw: Vec<u8>,
    pub owner_pw: Vec<u8>,
    pub p: i32,
    pub id0: Vec<u8>,
    pub encrypt_metadata: bool,
    /// derived
    pub o: Vec<u8>,
    pub u: Vec<u8>,
    pub oe: Vec<u8>,
    pub ue: Vec<u8>,
    pub perms: Vec<u8>,
    pub file_key: Vec<u8>,
}

/// Algorithm 2: file key from the (padded) user password
pub fn alg2_key(variant: Variant, user_pw: &[u8], o: &[u8], p: i32, id0: &[u8], encrypt_metadata: bool) -> Vec<u8> {
    let n = variant.key_len();
    let mut h = vec![];
    h.extend_from_slice(&pad_pw(user_pw));
    h.extend_from_slice(o);
    h.extend_from_slice(&(p as u32).to_le_bytes());
    h.extend_from_slice(id0);
    if variant.r() >= 4 && !encrypt_metadata {
        h.extend_from_slice(&[0xff; 4]);
    }
    let mut d = md5(&h);
    if variant.r() >= 3 {
        for _ in 0..50 {
            d = md5(&d[..n]);
        }
    }
    d[..n].to_vec()
}
/// Algorithm 3: the /O value
pub fn alg3_o(variant: Variant, user_pw: &[u8], owner_pw: &[u8]) -> Vec<u8> {
    let n = variant.key_len();
    let opw = if owner_pw.is_empty() { user_pw } else { owner_pw };
    let mut d = md5(&pad_pw(opw));
    if variant.r() >= 3 {
        for _ in 0..50 {
            d = md5(&d);
        }
    }
    let key = &d[..n];
    let mut data = rc4(key, &pad_pw(user_pw));
    if variant.r() >= 3 {
        for i in 1..=19u8 {
            let k: Vec<u8> = key.iter().map(|b| b ^ i).collect();
            data = rc4(&k, &data);
        }
    }
    data
}
/// Algorithms 4 / 5: the /U value
pub fn alg45_u(variant: Variant, key: &[u8], id0: &[u8]) -> Vec<u8> {
    if variant.r() == 2 {
        rc4(key, &PAD)
    } else {
        let mut h = PAD.to_vec();
        h.extend_from_slice(id0);
        let mut data = rc4(key, &md5(&h));
        for i in 1..=19u8 {
            let k: Vec<u8> = key.iter().map(|b| b ^ i).collect();
            data = rc4(&k, &data);
        }
        // 16 bytes of arbitrary padding
        data.extend_from_slice(&[0xA5; 16]);
        data
    }
}

/// Algorithm 2.B (revision 6 hash)
pub fn alg2b(pw: &[u8], salt: &[u8], udata: &[u8]) -> [u8; 32] {
    let mut k: Vec<u8> = Sha256::new().chain_update(pw).chain_update(salt).chain_update(udata).finalize().to_vec();
    let mut round = 0usize;
    loop {
        let mut k1 = vec![];
        for _ in 0..64 {
            k1.extend_from_slice(pw);
            k1.extend_from_slice(&k);
            k1.extend_from_slice(udata);
        }
        let len = k1.len();
        let enc = cbc::Encryptor::<aes::Aes128>::new_from_slices(&k[..16], &k[16..32]).unwrap();
        let e = enc.encrypt_padded_mut::<NoPadding>(&mut k1, len).unwrap().to_vec();
        let m: u32 = e[..16].iter().map(|&b| b as u32).sum::<u32>() % 3;
        k = match m {
            0 => Sha256::digest(&e).to_vec(),
            1 => Sha384::digest(&e).to_vec(),
            _ => Sha512::digest(&e).to_vec(),
        };
        round += 1;
        if round >= 64 && (*e.last().unwrap() as usize) + 32 <= round {
            break;
        }
    }
    let mut out = [0u8; 32];
    out.copy_from_slice(&k[..32]);
    out
}

fn hash56(r: u32, pw: &[u8], salt: &[u8], udata: &[u8]) -> [u8; 32] {
    if r == 5 {
        let mut out = [0u8; 32];
        out.copy_from_slice(&Sha256::new().chain_update(pw).chain_update(salt).chain_update(udata).finalize());
        out
    } else {
        alg2b(pw, salt, udata)
    }
}
fn aes256_cbc_nopad_zero_iv(key: &[u8], data: &[u8]) -> Vec<u8> {
    let mut buf = data.to_vec();
    let len = buf.len();
    let enc = cbc::Encryptor::<aes::Aes256>::new_from_slices(key, &[0u8; 16]).unwrap();
    enc.encrypt_padded_mut::<NoPadding>(&mut buf, len).unwrap().to_vec()
}

impl Security {
    pub fn new(variant: Variant, user_pw: &[u8], owner_pw: &[u8], p: i32, id0: &[u8], encrypt_metadata: bool) -> Security {
        let mut s = Security { variant, user_pw: user_pw.to_vec(), owner_pw: owner_pw.to_vec(), p, id0: id0.to_vec(), encrypt_metadata, o: vec![], u: vec![], oe: vec![], ue: vec![], perms: vec![], file_key: vec![] };
        if variant.r() <= 4 {
            s.o = alg3_o(variant, user_pw, owner_pw);
            s.file_key = alg2_key(variant, user_pw, &s.o, p, id0, encrypt_metadata);
            s.u = alg45_u(variant, &s.file_key, id0);
        } else {
            // Algorithms 8, 9, 10 with fixed "random" values
            let r = variant.r();
            let upw = &user_pw[..user_pw.len().min(127)];
            let opw = &owner_pw[..owner_pw.len().min(127)];
            s.file_key = (0..32u8).map(|i| i.wrapping_mul(37).wrapping_add(11)).collect();
            let (uvs, uks) = (*b"uvsalt01", *b"uksalt02");
            let (ovs, oks) = (*b"ovsalt03", *b"oksalt04");
            let mut u = hash56(r, upw, &uvs, b"").to_vec();
            u.extend_from_slice(&uvs);
            u.extend_from_slice(&uks);
            s.u = u.clone();
            s.ue = aes256_cbc_nopad_zero_iv(&hash56(r, upw, &uks, b""), &s.file_key);
            let mut o = hash56(r, opw, &ovs, &u).to_vec();
            o.extend_from_slice(&ovs);
            o.extend_from_slice(&oks);
            s.o = o;
            s.oe = aes256_cbc_nopad_zero_iv(&hash56(r, opw, &oks, &u), &s.file_key);
            // Algorithm 10: /Perms
            let mut perms = [0u8; 16];
            perms[..4].copy_from_slice(&(p as u32).to_le_bytes());
            perms[4..8].copy_from_slice(&[0xff; 4]);
            perms[8] = if encrypt_metadata { b'T' } else { b'F' };
            perms[9..12].copy_from_slice(b"adb");
            perms[12..].copy_from_slice(b"rand");
            let mut block = aes::cipher::generic_array::GenericArray::clone_from_slice(&perms);
            use aes::cipher::BlockEncrypt;
            aes::Aes256::new_from_slice(&s.file_key).unwrap().encrypt_block(&mut block);
            s.perms = block.to_vec();
        }
        s
    }

    /// Algorithm 1 / 1.A: encrypt `data` as part of object (nr, gen). The AES IV is derived from the
    /// object number so that output is deterministic.
    pub fn encrypt(&self, nr: u64, gen: u16, data: &[u8]) -> Vec<u8> {
        let aes = self.variant.aes();
        let key: Vec<u8> = if self.variant.r() >= 5 {
            self.file_key.clone()
        } else {
            let mut k = self.file_key.clone();
            k.extend_from_slice(&(nr as u32).to_le_bytes()[..3]);
            k.extend_from_slice(&gen.to_le_bytes());
            if aes {
                k.extend_from_slice(b"sAlT");
            }
            let d = md5(&k);
            d[..(self.file_key.len() + 5).min(16)].to_vec()
        };
        if !aes {
            return rc4(&key, data);
        }
        let iv: Vec<u8> = (0..16u64).map(|i| (nr.wrapping_mul(31).wrapping_add(gen as u64).wrapping_add(i * 17) & 0xff) as u8).collect();
        let mut buf = data.to_vec();
        let len = buf.len();
        buf.resize(len + 16, 0);
        let ct = if key.len() == 32 {
            cbc::Encryptor::<aes::Aes256>::new_from_slices(&key, &iv).unwrap().encrypt_padded_mut::<Pkcs7>(&mut buf, len).unwrap().to_vec()
        } else {
            cbc::Encryptor::<aes::Aes128>::new_from_slices(&key, &iv).unwrap().encrypt_padded_mut::<Pkcs7>(&mut buf, len).unwrap().to_vec()
        };
        let mut out = iv;
        out.extend_from_slice(&ct);
        out
    }

    /// the /Encrypt dictionary
    pub fn dict(&self) -> Val {
        let v = self.variant;
        let mut d: Vec<(&str, Val)> = vec![("Filter", Val::name("Standard"))];
        let (vv, len_bits): (i64, Option<i64>) = match v {
            Variant::R2 => (1, None),
            Variant::R3(n) => (2, Some(n as i64 * 8)),
            Variant::R4Rc4 | Variant::R4Aes => (4, Some(128)),
            _ => (5, Some(256)),
        };
        d.push(("V", Val::Int(vv)));
        d.push(("R", Val::Int(v.r() as i64)));
        if let Some(l) = len_bits {
            d.push(("Length", Val::Int(l)));
        }
        d.push(("O", Val::Str(self.o.clone())));
        d.push(("U", Val::Str(self.u.clone())));
        d.push(("P", Val::Int(self.p as i64)));
        if vv >= 4 {
            let cfm = match v {
                Variant::R4Rc4 => "V2",
                Variant::R4Aes => "AESV2",
                _ => "AESV3",
            };
            let cf = Val::dict(vec![("StdCF", Val::dict(vec![("Type", Val::name("CryptFilter")), ("CFM", Val::name(cfm)), ("AuthEvent", Val::name("DocOpen")), ("Length", Val::Int(if vv == 5 { 32 } else { 16 }))]))]);
            d.push(("CF", cf));
            d.push(("StmF", Val::name("StdCF")));
            d.push(("StrF", Val::name("StdCF")));
            if !self.encrypt_metadata {
                d.push(("EncryptMetadata", Val::Bool(false)));
            }
        }
        if vv == 5 {
            d.push(("OE", Val::Str(self.oe.clone())));
            d.push(("UE", Val::Str(self.ue.clone())));
            d.push(("Perms", Val::Str(self.perms.clone())));
        }
        Val::dict(d)
    }

    /// Does `pw` authenticate as user or owner against stored values (used by the fixture self-test)?
    pub fn check_user(variant: Variant, pw: &[u8], o: &[u8], u: &[u8], p: i32, id0: &[u8], encrypt_metadata: bool) -> bool {
        if variant.r() <= 4 {
            let key = alg2_key(variant, pw, o, p, id0, encrypt_metadata);
            let mine = alg45_u(variant, &key, id0);
            if variant.r() == 2 {
                mine == u
            } else {
                u.len() >= 16 && mine[..16] == u[..16]
            }
        } else {
            u.len() == 48 && hash56(variant.r(), pw, &u[32..40], b"")[..] == u[..32]
        }
    }
    pub fn check_owner(variant: Variant, pw: &[u8], o: &[u8], u: &[u8], p: i32, id0: &[u8], encrypt_metadata: bool) -> bool {
        if variant.r() <= 4 {
            // Algorithm 7: recover the user password from /O
            let n = variant.key_len();
            let mut d = md5(&pad_pw(pw));
            if variant.r() >= 3 {
                for _ in 0..50 {
                    d = md5(&d);
                }
            }
            let key = &d[..n];
            let mut data = o.to_vec();
            if variant.r() == 2 {
                data = rc4(key, &data);
            } else {
                for i in (0..=19u8).rev() {
                    let k: Vec<u8> = key.iter().map(|b| b ^ i).collect();
                    data = rc4(&k, &data);
                }
            }
            Self::check_user(variant, &data, o, u, p, id0, encrypt_metadata)
        } else {
            o.len() == 48 && u.len() == 48 && hash56(variant.r(), pw, &o[32..40], u)[..] == o[..32]
        }
    }
}

/// Self-test against third-party produced fixtures in $VERIF_REPO/files: from the known passwords the
/// encryptor's key derivation must validate their /U and /O.
pub fn selftest_fixtures() -> Result<usize, String> {
    let dir = format!("{}/files", crate::core::repo_dir());
    let mut checked = 0;
    let list: Vec<(String, &[u8], &[u8])> = vec![
        ("encrypted_rc4_rev2.pdf".into(), b"", b""),
        ("encrypted_rc4_rev3.pdf".into(), b"", b""),
        ("encrypted_aes_128.pdf".into(), b"", b""),
        ("encrypted_aes_256.pdf".into(), b"", b""),
        ("encrypted_aes_256_hardened.pdf".into(), b"", b""),
        ("password_protected/passwords_rc4_rev2.pdf".into(), b"userpassword", b"ownerpassword"),
        ("password_protected/passwords_rc4_rev3.pdf".into(), b"userpassword", b"ownerpassword"),
        ("password_protected/passwords_aes_128.pdf".into(), b"userpassword", b"ownerpassword"),
        ("password_protected/passwords_aes_256.pdf".into(), b"userpassword", b"ownerpassword"),
        ("password_protected/passwords_aes_256_hardened.pdf".into(), b"userpassword", b"ownerpassword"),
    ];
    for (name, upw, opw) in list {
        let path = format!("{}/{}", dir, name);
        let bytes = match std::fs::read(&path) {
            Ok(b) => b,
            Err(_) => continue,
        };
        let doc = crate::refread::RefDoc::open(&bytes).map_err(|e| format!("{}: {}", name, e))?;
        let enc = match doc.trailer.get("Encrypt") {
            Some(Val::Ref(n, _)) => doc.get(*n).map_err(|e| format!("{}: {}", name, e))?,
            Some(d @ Val::Dict(_)) => d.clone(),
            _ => return Err(format!("{}: no /Encrypt", name)),
        };
        let geti = |k: &str| match enc.get(k) {
            Some(Val::Int(i)) => Some(*i),
            _ => None,
        };
        let gets = |k: &str| match enc.get(k) {
            Some(Val::Str(s)) => s.clone(),
            _ => vec![],
        };
        let r = geti("R").unwrap_or(0);
        let len = geti("Length").unwrap_or(40) as usize / 8;
        let variant = match r {
            2 => Variant::R2,
            3 => Variant::R3(len),
            4 => Variant::R4Aes,
            5 => Variant::R5,
            6 => Variant::R6,
            _ => return Err(format!("{}: unexpected R {}", name, r)),
        };
        let id0 = match doc.trailer.get("ID") {
            Some(Val::Array(a)) => match a.first() {
                Some(Val::Str(s)) => s.clone(),
                _ => vec![],
            },
            _ => vec![],
        };
        let em = !matches!(enc.get("EncryptMetadata"), Some(Val::Bool(false)));
        let p = geti("P").unwrap_or(0) as i32;
        let (o, u) = (gets("O"), gets("U"));
        if !Security::check_user(variant, upw, &o, &u, p, &id0, em) {
            return Err(format!("{}: user password does not validate with the harness's key derivation (R{})", name, r));
        }
        if !opw.is_empty() && !Security::check_owner(variant, opw, &o, &u, p, &id0, em) {
            return Err(format!("{}: owner password does not validate with the harness's key derivation (R{})", name, r));
        }
        if Security::check_user(variant, b"wrong", &o, &u, p, &id0, em) {
            return Err(format!("{}: a wrong password validates", name));
        }
        checked += 1;
    }
    Ok(checked)
}
