//! Typed-document builders: a feature-rich document exercising most typed models of the reader.
use super::file::*;
use super::filters as pf;
use super::val::*;

#[derive(Clone, Copy, Debug, PartialEq)]
pub struct DocOpts {
    /// use a cross-reference stream (and put eligible objects into an object stream)
    pub xref_stream: bool,
    pub objstm: bool,
    /// split into two sections: the second one (an incremental update) redefines page B's content and adds the outlines
    pub update: bool,
}
impl DocOpts {
    pub const CLASSIC: DocOpts = DocOpts { xref_stream: false, objstm: false, update: false };
    pub const STREAM: DocOpts = DocOpts { xref_stream: true, objstm: true, update: false };
    pub const CHAIN: DocOpts = DocOpts { xref_stream: false, objstm: false, update: true };
    pub const CHAIN_STREAM: DocOpts = DocOpts { xref_stream: true, objstm: true, update: true };
}

pub fn cmap_text(pairs: &[(u16, &str)], two_byte: bool) -> Vec<u8> {
    let mut s = String::new();
    s.push_str("/CIDInit /ProcSet findresource begin\n12 dict begin\nbegincmap\n/CIDSystemInfo << /Registry (Adobe) /Ordering (UCS) /Supplement 0 >> def\n/CMapName /Adobe-Identity-UCS def\n/CMapType 2 def\n");
    s.push_str(if two_byte { "1 begincodespacerange\n<0000> <FFFF>\nendcodespacerange\n" } else { "1 begincodespacerange\n<00> <FF>\nendcodespacerange\n" });
    s.push_str(&format!("{} beginbfchar\n", pairs.len()));
    for (code, text) in pairs {
        let c = if two_byte { format!("{:04X}", code) } else { format!("{:02X}", code) };
        let mut u = String::new();
        for unit in text.encode_utf16() {
            u.push_str(&format!("{:04X}", unit));
        }
        s.push_str(&format!("<{}> <{}>\n", c, u));
    }
    s.push_str("endbfchar\n");
    // both range forms, so that faults on their hexadecimal tokens reach the range code
    if two_byte {
        s.push_str("2 beginbfrange\n<0028> <002A> <0061>\n<0030> <0031> [<0041> <0042>]\nendbfrange\n");
    } else {
        s.push_str("2 beginbfrange\n<28> <2A> <0061>\n<30> <31> [<0041> <0042>]\nendbfrange\n");
    }
    s.push_str("endcmap\nCMapName currentdict /CMap defineresource pop\nend\nend\n");
    s.into_bytes()
}

/// The objects of the rich document: (object number, value, may live in an object stream)
pub fn rich_objects() -> Vec<(u64, Val)> {
    let mut o: Vec<(u64, Val)> = vec![];
    let rect = |a: i64, b: i64, c: i64, d: i64| Val::ints(&[a, b, c, d]);
    o.push((
        1,
        Val::dict(vec![
            ("Type", Val::name("Catalog")),
            ("Pages", Val::r(2)),
            ("Names", Val::r(20)),
            ("PageLabels", Val::dict(vec![("Nums", Val::Array(vec![Val::Int(0), Val::dict(vec![("S", Val::name("D")), ("St", Val::Int(1))]), Val::Int(1), Val::dict(vec![("S", Val::name("r")), ("P", Val::str("app-"))])]))])),
            ("Outlines", Val::r(23)),
            ("AcroForm", Val::dict(vec![("Fields", Val::Array(vec![Val::r(32)])), ("DA", Val::str("/F1 10 Tf"))])),
            ("Metadata", Val::r(33)),
        ]),
    ));
    o.push((2, Val::dict(vec![("Type", Val::name("Pages")), ("Kids", Val::Array(vec![Val::r(3), Val::r(4)])), ("Count", Val::Int(2)), ("MediaBox", rect(0, 0, 612, 792)), ("Resources", Val::r(5))])));
    o.push((3, Val::dict(vec![("Type", Val::name("Page")), ("Parent", Val::r(2)), ("Contents", Val::r(6)), ("CropBox", rect(10, 10, 600, 780)), ("Rotate", Val::Int(90))])));
    o.push((
        4,
        Val::dict(vec![
            ("Type", Val::name("Page")),
            ("Parent", Val::r(2)),
            ("Contents", Val::Array(vec![Val::r(7), Val::r(8)])),
            ("Annots", Val::Array(vec![Val::r(30)])),
            ("MediaBox", Val::Array(vec![Val::Int(0), Val::Int(0), Val::real("595.5"), Val::Int(842)])),
            ("PieceInfo", Val::dict(vec![("App", Val::dict(vec![("Private", Val::r(34))]))])),
        ]),
    ));
    o.push((
        5,
        Val::dict(vec![
            ("Font", Val::dict(vec![("F1", Val::r(9)), ("F2", Val::r(12))])),
            ("XObject", Val::dict(vec![("Im1", Val::r(16)), ("Fm1", Val::r(17)), ("Im2", Val::r(18)), ("Fm2", Val::r(43)), ("Fm3", Val::r(44))])),
            ("ExtGState", Val::dict(vec![("GS1", Val::dict(vec![("Type", Val::name("ExtGState")), ("LW", Val::Int(2)), ("CA", Val::real("0.5"))]))])),
            ("ColorSpace", Val::dict(vec![("CS1", Val::Array(vec![Val::name("Indexed"), Val::name("DeviceRGB"), Val::Int(1), Val::Str(vec![0, 0, 0, 255, 255, 255])])), ("CS2", Val::Array(vec![Val::name("ICCBased"), Val::r(35)])), ("CS8", Val::Array(vec![Val::name("Pattern"), Val::name("DeviceRGB")])), ("CS9", Val::Array(vec![Val::name("CalRGB"), Val::dict(vec![("WhitePoint", Val::Array(vec![Val::real("0.9505"), Val::Int(1), Val::real("1.089")])), ("Gamma", Val::Array(vec![Val::real("2.2"), Val::real("2.2"), Val::real("2.2")]))])]))])),
            ("Pattern", Val::dict(vec![("P1", Val::r(36))])),
            ("Shading", Val::dict(vec![("Sh1", Val::dict(vec![("ShadingType", Val::Int(2)), ("ColorSpace", Val::name("DeviceRGB")), ("Coords", Val::ints(&[0, 0, 1, 1])), ("Function", Val::dict(vec![("FunctionType", Val::Int(2)), ("Domain", Val::ints(&[0, 1])), ("C0", Val::ints(&[0, 0, 0])), ("C1", Val::ints(&[1, 1, 1])), ("N", Val::Int(1))]))]))])),
            ("Properties", Val::dict(vec![("MC0", Val::dict(vec![("Kind", Val::name("Layer"))]))])),
        ]),
    ));
    let content_a = b"q 1 0 0 1 72 700 cm BT /F1 12 Tf 14 TL (Hello) Tj T* [(Wor) -20 (ld)] TJ ET Q\n/GS1 gs /CS1 cs 1 sc 10 10 100 50 re f\nq 50 0 0 50 100 100 cm /Im1 Do Q\n/Fm1 Do\nBI /W 2 /H 2 /CS /G /BPC 8 ID \x00\x55\xaa\xff EI\n0.5 g 1 0 0 RG 0 0 m 10 10 l 20 20 30 30 40 40 c h S\n/Sh1 sh /OC /MC0 BDC EMC\n/Fm2 Do /Fm3 Do /CS2 CS 0.1 0.2 0.3 SC /CS9 cs 0.25 0.5 0.75 sc /CS8 cs 0.5 0.5 0.5 /P1 scn 1 1 2 2 re B\n".to_vec();
    o.push((6, Val::stream(vec![], content_a)));
    o.push((7, Val::stream(vec![("Filter", Val::name("FlateDecode"))], pf::flate_encode(b"BT /F2 10 Tf <00010002> Tj ", pf::FlateStyle::ZlibDefault))));
    o.push((8, Val::stream(vec![("Filter", Val::Array(vec![Val::name("ASCII85Decode")]))], pf::a85_encode(b"ET\n/P1 scn 0 0 5 5 re B\n", pf::A85Style::Lines))));
    o.push((
        9,
        Val::dict(vec![
            ("Type", Val::name("Font")),
            ("Subtype", Val::name("Type1")),
            ("BaseFont", Val::name("Helvetica")),
            ("FirstChar", Val::Int(32)),
            ("LastChar", Val::Int(36)),
            ("Widths", Val::Array(vec![Val::Int(278), Val::Int(278), Val::real("355.5"), Val::Int(556), Val::Int(556)])),
            ("Encoding", Val::r(10)),
            ("ToUnicode", Val::r(11)),
            ("FontDescriptor", Val::dict(vec![("Type", Val::name("FontDescriptor")), ("FontName", Val::name("Helvetica")), ("Flags", Val::Int(32)), ("FontBBox", rect(-166, -225, 1000, 931)), ("ItalicAngle", Val::Int(0)), ("Ascent", Val::Int(718)), ("Descent", Val::Int(-207)), ("CapHeight", Val::Int(718)), ("StemV", Val::Int(88))])),
        ]),
    ));
    o.push((10, Val::dict(vec![("Type", Val::name("Encoding")), ("BaseEncoding", Val::name("WinAnsiEncoding")), ("Differences", Val::Array(vec![Val::Int(33), Val::name("exclam"), Val::name("quotedbl"), Val::Int(200), Val::name("Euro")]))])));
    o.push((11, Val::stream(vec![], cmap_text(&[(32, " "), (33, "!"), (34, "\u{201c}")], false))));
    o.push((12, Val::dict(vec![("Type", Val::name("Font")), ("Subtype", Val::name("Type0")), ("BaseFont", Val::name("ABCDEF+Sans")), ("Encoding", Val::name("Identity-H")), ("DescendantFonts", Val::Array(vec![Val::r(13)])), ("ToUnicode", Val::r(15))])));
    o.push((
        13,
        Val::dict(vec![
            ("Type", Val::name("Font")),
            ("Subtype", Val::name("CIDFontType2")),
            ("BaseFont", Val::name("ABCDEF+Sans")),
            ("CIDSystemInfo", Val::dict(vec![("Registry", Val::str("Adobe")), ("Ordering", Val::str("Identity")), ("Supplement", Val::Int(0))])),
            ("FontDescriptor", Val::r(14)),
            ("DW", Val::Int(750)),
            ("W", Val::Array(vec![Val::Int(1), Val::Array(vec![Val::Int(500), Val::real("600.5")]), Val::Int(10), Val::Int(12), Val::Int(700)])),
            ("CIDToGIDMap", Val::name("Identity")),
        ]),
    ));
    o.push((14, Val::dict(vec![("Type", Val::name("FontDescriptor")), ("FontName", Val::name("ABCDEF+Sans")), ("Flags", Val::Int(4)), ("FontBBox", rect(0, -200, 1000, 900)), ("ItalicAngle", Val::Int(0)), ("Ascent", Val::Int(900)), ("Descent", Val::Int(-200)), ("CapHeight", Val::Int(700)), ("StemV", Val::Int(80)), ("FontFile2", Val::r(19))])));
    o.push((15, Val::stream(vec![("Filter", Val::name("FlateDecode"))], pf::flate_encode(&cmap_text(&[(1, "A"), (2, "\u{1F600}")], true), pf::FlateStyle::ZlibDefault))));
    // 2x2 RGB image, flate + PNG predictor
    let img: Vec<u8> = vec![255, 0, 0, 0, 255, 0, 0, 0, 255, 255, 255, 255];
    let pred = pf::png_predict(&img, 3, 8, 2, |r| [1u8, 2][r % 2]);
    o.push((
        16,
        Val::stream(
            vec![
                ("Type", Val::name("XObject")),
                ("Subtype", Val::name("Image")),
                ("Width", Val::Int(2)),
                ("Height", Val::Int(2)),
                ("ColorSpace", Val::name("DeviceRGB")),
                ("BitsPerComponent", Val::Int(8)),
                ("Filter", Val::name("FlateDecode")),
                ("DecodeParms", Val::dict(vec![("Predictor", Val::Int(15)), ("Colors", Val::Int(3)), ("Columns", Val::Int(2))])),
            ],
            pf::flate_encode(&pred, pf::FlateStyle::ZlibDefault),
        ),
    ));
    o.push((
        17,
        Val::stream(
            vec![("Type", Val::name("XObject")), ("Subtype", Val::name("Form")), ("BBox", rect(0, 0, 100, 100)), ("Matrix", Val::ints(&[1, 0, 0, 1, 0, 0])), ("Resources", Val::dict(vec![("Font", Val::dict(vec![("F1", Val::r(9))]))]))],
            b"BT /F1 8 Tf (in form) Tj ET".to_vec(),
        ),
    ));
    // two more forms, each with its own inline resources (same shape, different content)
    for (nr, lw) in [(43u64, 3), (44, 4)] {
        o.push((
            nr,
            Val::stream(
                vec![("Type", Val::name("XObject")), ("Subtype", Val::name("Form")), ("BBox", rect(0, 0, 10, 10)), ("Resources", Val::dict(vec![("ExtGState", Val::dict(vec![("GSf", Val::dict(vec![("Type", Val::name("ExtGState")), ("LW", Val::Int(lw))]))]))]))],
                b"/GSf gs 0 0 5 5 re f".to_vec(),
            ),
        ));
    }
    // 1-bit image mask through ASCIIHex + RunLength
    let mask = vec![0b1010_0000u8, 0b0101_0000];
    o.push((
        18,
        Val::stream(
            vec![("Type", Val::name("XObject")), ("Subtype", Val::name("Image")), ("Width", Val::Int(4)), ("Height", Val::Int(2)), ("ImageMask", Val::Bool(true)), ("BitsPerComponent", Val::Int(1)), ("Decode", Val::ints(&[1, 0])), ("Filter", Val::Array(vec![Val::name("ASCIIHexDecode"), Val::name("RunLengthDecode")]))],
            pf::hex_encode(&pf::rl_encode(&mask, pf::RlStyle::Greedy, true), pf::HexStyle::Upper, true),
        ),
    ));
    o.push((19, Val::stream(vec![("Length1", Val::Int(8))], vec![0, 1, 0, 0, 0, 0, 0, 0])));
    o.push((20, Val::dict(vec![("Dests", Val::r(21))])));
    o.push((21, Val::dict(vec![("Kids", Val::Array(vec![Val::r(24)]))])));
    o.push((23, Val::dict(vec![("Type", Val::name("Outlines")), ("First", Val::r(25)), ("Last", Val::r(26)), ("Count", Val::Int(2))])));
    o.push((24, Val::dict(vec![("Limits", Val::Array(vec![Val::str("a"), Val::str("b")])), ("Names", Val::Array(vec![Val::str("a"), Val::Array(vec![Val::r(3), Val::name("Fit")]), Val::str("b"), Val::dict(vec![("D", Val::Array(vec![Val::r(4), Val::name("XYZ"), Val::Int(0), Val::Null, Val::real("1.5")]))])]))])));
    o.push((25, Val::dict(vec![("Title", Val::str("First")), ("Parent", Val::r(23)), ("Next", Val::r(26)), ("Dest", Val::Array(vec![Val::r(3), Val::name("FitH"), Val::Int(700)]))])));
    o.push((26, Val::dict(vec![("Title", Val::Str(vec![0xfe, 0xff, 0, b'Z'])), ("Parent", Val::r(23)), ("Prev", Val::r(25)), ("A", Val::dict(vec![("S", Val::name("GoTo")), ("D", Val::str("a"))])), ("C", Val::Array(vec![Val::Int(1), Val::Int(0), Val::real("0.5")]))])));
    o.push((30, Val::dict(vec![("Type", Val::name("Annot")), ("Subtype", Val::name("Link")), ("Rect", rect(10, 10, 50, 20)), ("P", Val::r(4)), ("Contents", Val::str("note")), ("M", Val::str("D:20240131120000+01'00'")), ("Border", Val::ints(&[0, 0, 1])), ("AP", Val::dict(vec![("N", Val::r(17))]))])));
    o.push((32, Val::dict(vec![("FT", Val::name("Tx")), ("T", Val::str("field")), ("V", Val::str("value")), ("DV", Val::Null), ("Rect", rect(0, 0, 10, 10)), ("Kids", Val::Array(vec![]))])));
    o.push((33, Val::stream(vec![("Type", Val::name("Metadata")), ("Subtype", Val::name("XML"))], b"<x:xmpmeta/>".to_vec())));
    o.push((34, Val::dict(vec![("Secret", Val::str("shared private data")), ("Back", Val::r(4))])));
    o.push((35, Val::stream(vec![("N", Val::Int(3)), ("Alternate", Val::name("DeviceRGB"))], vec![0; 16])));
    o.push((
        36,
        Val::stream(
            vec![("Type", Val::name("Pattern")), ("PatternType", Val::Int(1)), ("PaintType", Val::Int(1)), ("TilingType", Val::Int(1)), ("BBox", rect(0, 0, 4, 4)), ("XStep", Val::Int(4)), ("YStep", Val::Int(4)), ("Resources", Val::r(38))],
            b"0 0 2 2 re f".to_vec(),
        ),
    ));
    o.push((38, Val::dict(vec![("ProcSet", Val::Array(vec![Val::name("PDF")]))])));
    o.push((37, Val::dict(vec![("Title", Val::str("the title")), ("Author", Val::str("harness")), ("CreationDate", Val::str("D:20240101000000Z")), ("Subject", Val::Str(vec![0xfe, 0xff, 0x00, 0x54, 0xd8, 0x3d, 0xde, 0x00, 0x20, 0xac])), ("Keywords", Val::Str(vec![0xef, 0xbb, 0xbf, b'k', 0xc3, 0xa9]))])));
    o
}

pub const RICH_SIZE: u64 = 45;

/// Assemble the rich document. `prefix` is junk before the header.
pub fn rich_doc(prefix: &[u8], opts: DocOpts) -> Vec<u8> {
    rich_doc_with(prefix, opts, &rich_objects())
}
pub fn rich_doc_with(prefix: &[u8], opts: DocOpts, objects: &[(u64, Val)]) -> Vec<u8> {
    let mut fb = FileBuilder::new(prefix);
    let late: &[u64] = if opts.update { &[23, 25, 26, 8] } else { &[] };
    let mut members: Vec<(u64, Val)> = vec![];
    for (nr, v) in objects {
        if late.contains(nr) {
            continue;
        }
        let is_stream = matches!(v, Val::Stream(..));
        if opts.objstm && !is_stream && *nr != 1 && *nr % 3 != 0 {
            members.push((*nr, v.clone()));
        } else {
            fb.add(*nr, 0, v);
        }
    }
    if opts.update {
        // first revision: page B content part 8 is an older version
        fb.add(8, 0, &Val::stream(vec![], b"ET\n% old\n".to_vec()));
    }
    if !members.is_empty() {
        fb.add_objstm(40, &members, &ObjStmOpts { filter: ObjStmFilter::Flate, ..Default::default() });
    }
    let extra = [("Root", Val::r(1)), ("Info", Val::r(37)), ("ID", Val::Array(vec![Val::Str(b"0123456789abcdef".to_vec()), Val::Str(b"0123456789abcdef".to_vec())]))];
    if opts.xref_stream {
        let mut o = XrefStreamOpts::new(41);
        o.flate = true;
        fb.finish_stream(&extra, &o);
    } else {
        fb.finish_table(&extra, Split::Runs);
    }
    if opts.update {
        let mut members: Vec<(u64, Val)> = vec![];
        for (nr, v) in objects {
            if !late.contains(nr) {
                continue;
            }
            if opts.objstm && !matches!(v, Val::Stream(..)) {
                members.push((*nr, v.clone()));
            } else {
                fb.add(*nr, 0, v);
            }
        }
        if !members.is_empty() {
            fb.add_objstm(42, &members, &ObjStmOpts::default());
        }
        if opts.xref_stream {
            fb.finish_stream(&extra, &XrefStreamOpts::new(43));
        } else {
            fb.finish_table(&extra, Split::PerEntry);
        }
    }
    fb.bytes()
}

/// A small classic document: catalog, one page, one content stream, one font.
pub fn small_doc(prefix: &[u8]) -> Vec<u8> {
    let mut fb = FileBuilder::new(prefix);
    fb.add(1, 0, &Val::dict(vec![("Type", Val::name("Catalog")), ("Pages", Val::r(2))]));
    fb.add(2, 0, &Val::dict(vec![("Type", Val::name("Pages")), ("Kids", Val::Array(vec![Val::r(3)])), ("Count", Val::Int(1))]));
    fb.add(
        3,
        0,
        &Val::dict(vec![("Type", Val::name("Page")), ("Parent", Val::r(2)), ("MediaBox", Val::ints(&[0, 0, 200, 200])), ("Contents", Val::r(4)), ("Resources", Val::dict(vec![("Font", Val::dict(vec![("F1", Val::r(5))]))]))]),
    );
    fb.add(4, 0, &Val::stream(vec![], b"BT /F1 12 Tf (Hi) Tj ET".to_vec()));
    fb.add(5, 0, &Val::dict(vec![("Type", Val::name("Font")), ("Subtype", Val::name("Type1")), ("BaseFont", Val::name("Courier"))]));
    fb.finish_table(&[("Root", Val::r(1))], Split::Runs);
    fb.bytes()
}

/// The rich document extended with structures that hostile files like to abuse: indirect /Length, functions of
/// every type, Separation / DeviceN / nested Indexed / ICC colour spaces, a CCITT image, soft mask, embedded files
/// name tree, number tree with kids, form field hierarchy.
pub fn hostile_objects() -> Vec<(u64, Val)> {
    let mut o = rich_objects();
    let set = |o: &mut Vec<(u64, Val)>, nr: u64, key: &str, v: Val| {
        let e = o.iter_mut().find(|(n, _)| *n == nr).unwrap();
        e.1.set(key, v);
    };
    set(&mut o, 1, "PageLabels", Val::r(72));
    set(&mut o, 20, "EmbeddedFiles", Val::r(69));
    // resources
    let res = o.iter_mut().find(|(n, _)| *n == 5).unwrap();
    let mut cs = res.1.get("ColorSpace").unwrap().clone();
    cs.set("CS3", Val::Array(vec![Val::name("Separation"), Val::name("Spot"), Val::name("DeviceRGB"), Val::r(62)]));
    cs.set("CS4", Val::Array(vec![Val::name("DeviceN"), Val::Array(vec![Val::name("A"), Val::name("B")]), Val::name("DeviceCMYK"), Val::r(65)]));
    cs.set("CS5", Val::Array(vec![Val::name("Indexed"), Val::Array(vec![Val::name("Indexed"), Val::name("DeviceRGB"), Val::Int(1), Val::Str(vec![0, 0, 0, 9, 9, 9])]), Val::Int(1), Val::Str(vec![0, 1])]));
    cs.set("CS6", Val::Array(vec![Val::name("Separation"), Val::name("Two"), Val::Array(vec![Val::name("ICCBased"), Val::r(35)]), Val::r(64)]));
    cs.set("CS7", Val::Array(vec![Val::name("Separation"), Val::name("Smp"), Val::name("DeviceGray"), Val::r(63)]));
    // colour spaces stored as objects of their own, each naming the next as its alternate / base
    cs.set("CS10", Val::r(85));
    res.1.set("ColorSpace", cs);
    let mut xo = res.1.get("XObject").unwrap().clone();
    xo.set("Im3", Val::r(67));
    res.1.set("XObject", xo);
    set(&mut o, 16, "SMask", Val::r(75));
    set(&mut o, 32, "Kids", Val::Array(vec![Val::r(74)]));
    // appearance streams: a form, and a dictionary of states (both reached through lazy references)
    set(&mut o, 30, "AP", Val::dict(vec![("N", Val::r(17)), ("D", Val::r(76))]));
    o.push((76, Val::dict(vec![("On", Val::r(17)), ("Off", Val::r(17))])));
    // a JBIG2 image with a globals stream, and a graphics state that names a font
    let res = o.iter_mut().find(|(n, _)| *n == 5).unwrap();
    let mut xo = res.1.get("XObject").unwrap().clone();
    xo.set("Im4", Val::r(77));
    res.1.set("XObject", xo);
    let mut gs = res.1.get("ExtGState").unwrap().clone();
    gs.set("GS2", Val::dict(vec![("Type", Val::name("ExtGState")), ("Font", Val::Array(vec![Val::r(9), Val::Int(12)]))]));
    res.1.set("ExtGState", gs);
    o.push((77, Val::stream(vec![("Type", Val::name("XObject")), ("Subtype", Val::name("Image")), ("Width", Val::Int(8)), ("Height", Val::Int(1)), ("ColorSpace", Val::name("DeviceGray")), ("BitsPerComponent", Val::Int(1)), ("Filter", Val::name("JBIG2Decode")), ("DecodeParms", Val::dict(vec![("JBIG2Globals", Val::r(78))]))], vec![0, 0, 0, 0])));
    o.push((78, Val::stream(vec![], vec![0, 0, 0, 1])));
    o.push((85, Val::Array(vec![Val::name("DeviceN"), Val::Array(vec![Val::name("A"), Val::name("B")]), Val::r(86), Val::r(65)])));
    o.push((86, Val::Array(vec![Val::name("Separation"), Val::name("Spot"), Val::r(87), Val::r(64)])));
    o.push((87, Val::Array(vec![Val::name("Indexed"), Val::name("DeviceRGB"), Val::Int(1), Val::Str(vec![0, 0, 0, 255, 255, 255])])));
    o.push((60, Val::stream(vec![("Length", Val::r(61))], b"indirect length".to_vec())));
    o.push((61, Val::Int(15)));
    o.push((62, Val::stream(vec![("FunctionType", Val::Int(4)), ("Domain", Val::ints(&[0, 1])), ("Range", Val::ints(&[0, 1, 0, 1, 0, 1]))], b"{ dup dup 0.5 mul exch }".to_vec())));
    o.push((63, Val::stream(vec![("FunctionType", Val::Int(0)), ("Domain", Val::ints(&[0, 1])), ("Range", Val::ints(&[0, 1])), ("Size", Val::ints(&[2])), ("BitsPerSample", Val::Int(8)), ("Order", Val::Int(1))], vec![0, 255])));
    o.push((64, Val::dict(vec![("FunctionType", Val::Int(2)), ("Domain", Val::ints(&[0, 1])), ("C0", Val::ints(&[0, 0, 0])), ("C1", Val::Array(vec![Val::Int(1), Val::real("0.5"), Val::Int(0)])), ("N", Val::Int(1))])));
    o.push((65, Val::stream(vec![("FunctionType", Val::Int(4)), ("Domain", Val::ints(&[0, 1, 0, 1])), ("Range", Val::ints(&[0, 1, 0, 1, 0, 1, 0, 1]))], b"{ 1 index 1 index add 1 index }".to_vec())));
    o.push((
        67,
        Val::stream(
            vec![("Type", Val::name("XObject")), ("Subtype", Val::name("Image")), ("Width", Val::Int(8)), ("Height", Val::Int(2)), ("ColorSpace", Val::name("DeviceGray")), ("BitsPerComponent", Val::Int(1)), ("Filter", Val::name("CCITTFaxDecode")), ("DecodeParms", Val::dict(vec![("K", Val::Int(-1)), ("Columns", Val::Int(8)), ("Rows", Val::Int(2))]))],
            // two all-white rows in group 4 coding (V0 V0) and the end-of-block code: data that really decodes
            vec![0xC0, 0x10, 0x01],
        ),
    ));
    o.push((69, Val::dict(vec![("Names", Val::Array(vec![Val::str("file.txt"), Val::r(70)]))])));
    o.push((70, Val::dict(vec![("Type", Val::name("Filespec")), ("F", Val::str("file.txt")), ("EF", Val::dict(vec![("F", Val::r(71))]))])));
    o.push((71, Val::stream(vec![("Type", Val::name("EmbeddedFile")), ("Params", Val::dict(vec![("Size", Val::Int(5)), ("ModDate", Val::str("D:20240101"))]))], b"hello".to_vec())));
    o.push((72, Val::dict(vec![("Kids", Val::Array(vec![Val::r(73)]))])));
    o.push((73, Val::dict(vec![("Limits", Val::ints(&[0, 1])), ("Nums", Val::Array(vec![Val::Int(0), Val::dict(vec![("S", Val::name("D"))]), Val::Int(1), Val::dict(vec![("S", Val::name("A")), ("St", Val::Int(5))])]))])));
    o.push((74, Val::dict(vec![("FT", Val::name("Btn")), ("T", Val::str("kid")), ("Parent", Val::r(32)), ("V", Val::name("Off")), ("DV", Val::Null), ("Kids", Val::Array(vec![]))])));
    o.push((75, Val::stream(vec![("Type", Val::name("XObject")), ("Subtype", Val::name("Image")), ("Width", Val::Int(2)), ("Height", Val::Int(2)), ("ColorSpace", Val::name("DeviceGray")), ("BitsPerComponent", Val::Int(8))], vec![0, 85, 170, 255])));
    o
}
