//! File assembler of the independent producer: header, bodies, classic xref tables, xref streams,
//! object streams, incremental updates with /Prev, trailers. Offsets are relative to the header.
use super::filters as pf;
use super::val::*;
use std::collections::BTreeMap;

#[derive(Clone, Copy, Debug, PartialEq)]
pub enum Entry {
    InUse { off: usize, gen: u16 },
    Compressed { stm: u64, idx: usize },
    Free { next: u64, gen: u16 },
}

#[derive(Clone, Copy, Debug, PartialEq)]
pub enum Split {
    /// one subsection per maximal run of consecutive numbers
    Runs,
    /// one subsection per entry
    PerEntry,
    /// a single subsection from the smallest to the largest number; gaps are filled with free entries (gen 65535)
    /// (only usable when filling is harmless, i.e. in the first section)
    OneFilled,
    /// one subsection per entry, in descending order of object numbers (subsections need not be sorted)
    PerEntryDescending,
}

#[derive(Clone, Debug)]
pub struct XrefStreamOpts {
    pub nr: u64,
    pub flate: bool,
    /// field widths; None = minimal
    pub w: Option<[usize; 3]>,
    pub split: Split,
    /// omit /Index when it would be the default [0 Size]
    pub omit_default_index: bool,
}
impl XrefStreamOpts {
    pub fn new(nr: u64) -> Self {
        XrefStreamOpts { nr, flate: false, w: None, split: Split::Runs, omit_default_index: true }
    }
}

#[derive(Clone, Debug)]
pub struct ObjStmOpts {
    pub filter: ObjStmFilter,
    /// bytes after each member ("" | " " | "\n")
    pub trailing: &'static [u8],
    /// extra white-space bytes between the header pairs and /First (usize::MAX: not even the separator)
    pub first_pad: usize,
    pub extends: Option<u64>,
}
#[derive(Clone, Copy, Debug, PartialEq)]
pub enum ObjStmFilter {
    None,
    Flate,
    Hex,
    A85Flate,
    Lzw,
    /// [/ASCIIHexDecode /FlateDecode] with /DecodeParms [null << /Predictor 12 /Columns 8 >>]
    HexFlatePredictor,
}
impl Default for ObjStmOpts {
    fn default() -> Self {
        ObjStmOpts { filter: ObjStmFilter::None, trailing: b"\n", first_pad: 0, extends: None }
    }
}

pub type Crypt<'a> = Option<&'a dyn Fn(u64, u16, &[u8]) -> Vec<u8>>;

pub struct FileBuilder<'a> {
    pub out: Vec<u8>,
    pub header_pos: usize,
    /// entries of the section being built
    pub section: BTreeMap<u64, Entry>,
    /// all entries so far (merged view = reference model of the newest-wins rule)
    pub merged: BTreeMap<u64, Entry>,
    pub prev_xref: Option<usize>,
    pub size: u64,
    /// per-object encryption of strings and stream data (object number, generation, plaintext) -> ciphertext
    pub crypt: Crypt<'a>,
    /// object numbers exempt from encryption (the /Encrypt dictionary)
    pub no_crypt: Vec<u64>,
    pub eol: &'static [u8],
}

impl<'a> FileBuilder<'a> {
    pub fn new(prefix: &[u8]) -> Self {
        Self::with_header(prefix, b"%PDF-1.7\n%\xE2\xE3\xCF\xD3\n")
    }
    pub fn with_header(prefix: &[u8], header: &[u8]) -> Self {
        let mut out = prefix.to_vec();
        let header_pos = out.len();
        out.extend_from_slice(header);
        FileBuilder { out, header_pos, section: BTreeMap::new(), merged: BTreeMap::new(), prev_xref: None, size: 1, crypt: None, no_crypt: vec![], eol: b"\n" }
    }
    fn rel(&self) -> usize {
        self.out.len() - self.header_pos
    }
    fn note(&mut self, nr: u64, e: Entry) {
        self.section.insert(nr, e);
        self.merged.insert(nr, e);
        if nr + 1 > self.size {
            self.size = nr + 1;
        }
    }
    fn encrypt_val(&self, nr: u64, gen: u16, v: &Val) -> Val {
        match self.crypt {
            Some(c) if !self.no_crypt.contains(&nr) => {
                let v2 = v.map_strings(&|s| c(nr, gen, s));
                match v2 {
                    Val::Stream(d, data) => {
                        let is_xref = d.iter().any(|(k, v)| k == b"Type" && *v == Val::name("XRef"));
                        if is_xref {
                            // xref streams are never encrypted (and neither are their strings)
                            v.clone()
                        } else {
                            let enc = c(nr, gen, &data);
                            let mut d = d;
                            d.retain(|(k, _)| k != b"Length");
                            d.push((b"Length".to_vec(), Val::Int(enc.len() as i64)));
                            Val::Stream(d, enc)
                        }
                    }
                    other => other,
                }
            }
            _ => v.clone(),
        }
    }
    /// write `nr gen obj <val> endobj`
    pub fn add(&mut self, nr: u64, gen: u16, v: &Val) {
        let v = self.encrypt_val(nr, gen, v);
        let body = print(&v);
        self.add_raw(nr, gen, &body);
    }
    /// write an object whose body bytes are given
    pub fn add_raw(&mut self, nr: u64, gen: u16, body: &[u8]) {
        let off = self.rel();
        self.out.extend_from_slice(format!("{} {} obj", nr, gen).as_bytes());
        self.out.extend_from_slice(self.eol);
        self.out.extend_from_slice(body);
        self.out.extend_from_slice(self.eol);
        self.out.extend_from_slice(b"endobj");
        self.out.extend_from_slice(self.eol);
        self.note(nr, Entry::InUse { off, gen });
    }
    /// write completely caller-framed bytes as object `nr`
    pub fn add_framed(&mut self, nr: u64, gen: u16, framed: &[u8]) {
        let off = self.rel();
        self.out.extend_from_slice(framed);
        self.note(nr, Entry::InUse { off, gen });
    }
    pub fn free(&mut self, nr: u64, gen_after: u16) {
        self.note(nr, Entry::Free { next: 0, gen: gen_after });
    }
    /// junk bytes between objects (comments)
    pub fn junk(&mut self, bytes: &[u8]) {
        self.out.extend_from_slice(bytes);
    }
    /// object stream `stm_nr` containing `members` (number, body bytes)
    pub fn add_objstm_raw(&mut self, stm_nr: u64, members: &[(u64, Vec<u8>)], opts: &ObjStmOpts) {
        let mut bodies = vec![];
        let mut header = vec![];
        for (i, (nr, body)) in members.iter().enumerate() {
            if i > 0 {
                header.push(b' ');
            }
            header.extend_from_slice(format!("{} {}", nr, bodies.len()).as_bytes());
            bodies.extend_from_slice(body);
            bodies.extend_from_slice(opts.trailing);
        }
        // when members have no trailing separator the last body ends the data; a separator between the header
        // and the first body is always needed
        // (first_pad == usize::MAX: no separator at all, which is legal when the first member begins with a delimiter)
        if opts.first_pad != usize::MAX {
            header.push(b'\n');
            for _ in 0..opts.first_pad {
                header.push(b' ');
            }
        }
        let first = header.len();
        let mut data = header;
        data.extend_from_slice(&bodies);
        let mut predictor_parms: Option<Val> = None;
        let (enc, filter): (Vec<u8>, Option<Val>) = match opts.filter {
            ObjStmFilter::None => (data, None),
            ObjStmFilter::Flate => (pf::flate_encode(&data, pf::FlateStyle::ZlibDefault), Some(Val::name("FlateDecode"))),
            ObjStmFilter::Hex => (pf::hex_encode(&data, pf::HexStyle::Upper, true), Some(Val::name("ASCIIHexDecode"))),
            ObjStmFilter::A85Flate => (
                pf::a85_encode(&pf::flate_encode(&data, pf::FlateStyle::ZlibDefault), pf::A85Style::Lines),
                Some(Val::Array(vec![Val::name("ASCII85Decode"), Val::name("FlateDecode")])),
            ),
            ObjStmFilter::Lzw => (pf::lzw_encode(&data, true, 0), Some(Val::name("LZWDecode"))),
            ObjStmFilter::HexFlatePredictor => {
                // rows of 8 bytes: the data is padded with white-space (which may follow the last member)
                while data.len() % 8 != 0 {
                    data.push(b' ');
                }
                predictor_parms = Some(Val::Array(vec![Val::Null, Val::dict(vec![("Predictor", Val::Int(12)), ("Columns", Val::Int(8))])]));
                let predicted = pf::png_predict(&data, 1, 8, 8, |_| 2);
                (pf::hex_encode(&pf::flate_encode(&predicted, pf::FlateStyle::ZlibDefault), pf::HexStyle::Upper, true), Some(Val::Array(vec![Val::name("ASCIIHexDecode"), Val::name("FlateDecode")])))
            }
        };
        let mut d = vec![("Type", Val::name("ObjStm")), ("N", Val::Int(members.len() as i64)), ("First", Val::Int(first as i64))];
        if let Some(f) = filter {
            d.push(("Filter", f));
        }
        if let Some(p) = predictor_parms {
            d.push(("DecodeParms", p));
        }
        if let Some(e) = opts.extends {
            d.push(("Extends", Val::r(e)));
        }
        self.add(stm_nr, 0, &Val::stream(d, enc));
        for (i, (nr, _)) in members.iter().enumerate() {
            self.note(*nr, Entry::Compressed { stm: stm_nr, idx: i });
        }
    }
    pub fn add_objstm(&mut self, stm_nr: u64, members: &[(u64, Val)], opts: &ObjStmOpts) {
        let raw: Vec<(u64, Vec<u8>)> = members.iter().map(|(n, v)| (*n, print(v))).collect();
        self.add_objstm_raw(stm_nr, &raw, opts);
    }

    fn subsections(&self, entries: &BTreeMap<u64, Entry>, split: Split) -> Vec<(u64, Vec<Entry>)> {
        let mut subs: Vec<(u64, Vec<Entry>)> = vec![];
        match split {
            Split::PerEntry => {
                for (&n, &e) in entries {
                    subs.push((n, vec![e]));
                }
            }
            Split::PerEntryDescending => {
                for (&n, &e) in entries.iter().rev() {
                    subs.push((n, vec![e]));
                }
            }
            Split::Runs => {
                for (&n, &e) in entries {
                    match subs.last_mut() {
                        Some((start, v)) if *start + v.len() as u64 == n => v.push(e),
                        _ => subs.push((n, vec![e])),
                    }
                }
            }
            Split::OneFilled => {
                if let (Some((&lo, _)), Some((&hi, _))) = (entries.iter().next(), entries.iter().next_back()) {
                    let mut v = vec![];
                    for n in lo..=hi {
                        v.push(entries.get(&n).copied().unwrap_or(Entry::Free { next: 0, gen: 65535 }));
                    }
                    subs.push((lo, v));
                }
            }
        }
        subs
    }

    fn trailer_entries(&self, extra: &[(&str, Val)], size: u64) -> Vec<(Vec<u8>, Val)> {
        let mut d: Vec<(Vec<u8>, Val)> = vec![(b"Size".to_vec(), Val::Int(size as i64))];
        if let Some(p) = self.prev_xref {
            d.push((b"Prev".to_vec(), Val::Int(p as i64)));
        }
        for (k, v) in extra {
            d.push((k.as_bytes().to_vec(), v.clone()));
        }
        d
    }

    /// finish the current section with a classic table + trailer. In the first section object 0 is added as the
    /// head of the free list.
    pub fn finish_table(&mut self, extra: &[(&str, Val)], split: Split) {
        let mut entries = std::mem::take(&mut self.section);
        if self.prev_xref.is_none() {
            entries.entry(0).or_insert(Entry::Free { next: 0, gen: 65535 });
        }
        let xref_pos = self.rel();
        self.out.extend_from_slice(b"xref\n");
        for (start, v) in self.subsections(&entries, split) {
            self.out.extend_from_slice(format!("{} {}\n", start, v.len()).as_bytes());
            for e in v {
                let line = match e {
                    Entry::InUse { off, gen } => format!("{:010} {:05} n \n", off, gen),
                    Entry::Free { next, gen } => format!("{:010} {:05} f \n", next, gen),
                    Entry::Compressed { .. } => panic!("compressed entry in classic table"),
                };
                self.out.extend_from_slice(line.as_bytes());
            }
        }
        self.out.extend_from_slice(b"trailer\n");
        let t = Val::Dict(self.trailer_entries(extra, self.size));
        // strings in the trailer (ID) are never encrypted
        print_into(&mut self.out, &t);
        self.out.extend_from_slice(format!("\nstartxref\n{}\n%%EOF\n", xref_pos).as_bytes());
        self.prev_xref = Some(xref_pos);
    }

    /// finish the current section with a cross-reference stream (which is itself object `opts.nr`).
    pub fn finish_stream(&mut self, extra: &[(&str, Val)], opts: &XrefStreamOpts) {
        let xref_pos = self.rel();
        self.note(opts.nr, Entry::InUse { off: xref_pos, gen: 0 });
        let mut entries = std::mem::take(&mut self.section);
        if self.prev_xref.is_none() {
            entries.entry(0).or_insert(Entry::Free { next: 0, gen: 65535 });
        }
        let fields = |e: &Entry| -> (u64, u64, u64) {
            match *e {
                Entry::Free { next, gen } => (0, next, gen as u64),
                Entry::InUse { off, gen } => (1, off as u64, gen as u64),
                Entry::Compressed { stm, idx } => (2, stm, idx as u64),
            }
        };
        let need = |x: u64| -> usize {
            let mut n = 1;
            while n < 8 && x >> (8 * n) != 0 {
                n += 1;
            }
            n
        };
        let w = opts.w.unwrap_or_else(|| {
            let mut w = [1usize, 1, 1];
            for e in entries.values() {
                let (_, a, b) = fields(e);
                w[1] = w[1].max(need(a));
                w[2] = w[2].max(need(b));
            }
            w
        });
        let subs = self.subsections(&entries, opts.split);
        let mut data = vec![];
        let mut index = vec![];
        for (start, v) in &subs {
            index.push(Val::Int(*start as i64));
            index.push(Val::Int(v.len() as i64));
            for e in v {
                let (t, a, b) = fields(e);
                data.extend_from_slice(&t.to_be_bytes()[8 - w[0]..]);
                data.extend_from_slice(&a.to_be_bytes()[8 - w[1]..]);
                data.extend_from_slice(&b.to_be_bytes()[8 - w[2]..]);
            }
        }
        let mut d: Vec<(Vec<u8>, Val)> = vec![(b"Type".to_vec(), Val::name("XRef"))];
        d.extend(self.trailer_entries(extra, self.size));
        d.push((b"W".to_vec(), Val::ints(&[w[0] as i64, w[1] as i64, w[2] as i64])));
        let default_index = subs.len() == 1 && subs[0].0 == 0 && subs[0].1.len() as u64 == self.size;
        if !(default_index && opts.omit_default_index) {
            d.push((b"Index".to_vec(), Val::Array(index)));
        }
        let enc = if opts.flate {
            d.push((b"Filter".to_vec(), Val::name("FlateDecode")));
            pf::flate_encode(&data, pf::FlateStyle::ZlibFast)
        } else {
            data
        };
        let body = print(&Val::Stream(d, enc));
        self.out.extend_from_slice(format!("{} 0 obj\n", opts.nr).as_bytes());
        self.out.extend_from_slice(&body);
        self.out.extend_from_slice(b"\nendobj\n");
        self.out.extend_from_slice(format!("startxref\n{}\n%%EOF\n", xref_pos).as_bytes());
        self.prev_xref = Some(xref_pos);
    }
    pub fn bytes(self) -> Vec<u8> {
        self.out
    }
}

/// A minimal valid catalog + empty page tree as objects 1 and 2.
pub fn minimal_catalog() -> (Val, Val) {
    (
        Val::dict(vec![("Type", Val::name("Catalog")), ("Pages", Val::r(2))]),
        Val::dict(vec![("Type", Val::name("Pages")), ("Kids", Val::Array(vec![])), ("Count", Val::Int(0))]),
    )
}
