//! Independent, specification-conforming filter encoders and reference decoders (ISO 32000-1 §7.4).
//! Never calls the library under test.

// ---------------------------------------------------------------- ASCIIHex
#[derive(Clone, Copy, Debug, PartialEq)]
pub enum HexStyle {
    Lower,
    Upper,
    /// white-space between every pair
    SpacedPairs,
    /// white-space inside pairs and line breaks
    SpacedNibbles,
}
pub fn hex_encode(data: &[u8], style: HexStyle, eod: bool) -> Vec<u8> {
    let mut out = vec![];
    for (i, &b) in data.iter().enumerate() {
        let (hi, lo) = (b >> 4, b & 15);
        let d = |n: u8| -> u8 {
            let up = matches!(style, HexStyle::Upper | HexStyle::SpacedNibbles);
            if n < 10 {
                b'0' + n
            } else if up {
                b'A' + n - 10
            } else {
                b'a' + n - 10
            }
        };
        out.push(d(hi));
        if style == HexStyle::SpacedNibbles {
            out.push([b' ', b'\n', b'\t', b'\r', 0x0c, 0][i % 6]);
        }
        out.push(d(lo));
        if matches!(style, HexStyle::SpacedPairs | HexStyle::SpacedNibbles) {
            out.push(if i % 8 == 7 { b'\n' } else { b' ' });
        }
    }
    if eod {
        out.push(b'>');
    }
    out
}
/// Like hex_encode but if the last byte's low nibble is 0 the final digit is omitted (spec: an odd
/// number of digits behaves as if a 0 followed).
pub fn hex_encode_odd(data: &[u8]) -> Option<Vec<u8>> {
    let last = *data.last()?;
    if last & 15 != 0 {
        return None;
    }
    let mut out = hex_encode(data, HexStyle::Upper, false);
    out.pop();
    out.push(b'>');
    Some(out)
}
pub fn hex_decode_ref(data: &[u8]) -> Result<Vec<u8>, String> {
    let mut out = vec![];
    let mut cur: Option<u8> = None;
    for &b in data {
        let n = match b {
            b'0'..=b'9' => b - b'0',
            b'a'..=b'f' => b - b'a' + 10,
            b'A'..=b'F' => b - b'A' + 10,
            0 | 9 | 10 | 12 | 13 | 32 => continue,
            b'>' => break,
            _ => return Err(format!("bad hex byte {:#x}", b)),
        };
        match cur.take() {
            None => cur = Some(n),
            Some(h) => out.push(h << 4 | n),
        }
    }
    if let Some(h) = cur {
        out.push(h << 4);
    }
    Ok(out)
}

// ---------------------------------------------------------------- ASCII85
#[derive(Clone, Copy, Debug, PartialEq)]
pub enum A85Style {
    /// `z` for all-zero groups, no white-space
    Plain,
    /// never use `z`
    NoZ,
    /// line breaks every 10 symbols (LF), also between the tail and `~>`
    Lines,
    /// all white-space kinds sprinkled in
    Spaced,
}
pub fn a85_group(w: u32) -> [u8; 5] {
    let mut n = w as u64;
    let mut g = [0u8; 5];
    for i in (0..5).rev() {
        g[i] = (n % 85) as u8 + b'!';
        n /= 85;
    }
    g
}
pub fn a85_encode(data: &[u8], style: A85Style) -> Vec<u8> {
    let mut sym = vec![];
    let mut chunks = data.chunks_exact(4);
    for c in chunks.by_ref() {
        let w = u32::from_be_bytes([c[0], c[1], c[2], c[3]]);
        if w == 0 && style != A85Style::NoZ {
            sym.push(b'z');
        } else {
            sym.extend_from_slice(&a85_group(w));
        }
    }
    let r = chunks.remainder();
    if !r.is_empty() {
        let mut c = [0u8; 4];
        c[..r.len()].copy_from_slice(r);
        let g = a85_group(u32::from_be_bytes(c));
        sym.extend_from_slice(&g[..r.len() + 1]);
    }
    let mut out = vec![];
    for (i, &s) in sym.iter().enumerate() {
        out.push(s);
        match style {
            A85Style::Lines if i % 10 == 9 => out.push(b'\n'),
            A85Style::Spaced => out.push([0x0c, 0, b' ', b'\n', b'\r', b'\t'][i % 6]),
            _ => {}
        }
    }
    if style == A85Style::Lines {
        out.push(b'\n');
    }
    out.extend_from_slice(b"~>");
    out
}
pub fn a85_decode_ref(data: &[u8]) -> Result<Vec<u8>, String> {
    let mut out = vec![];
    let mut grp: Vec<u8> = vec![];
    let mut it = data.iter().cloned().peekable();
    let mut ended = false;
    while let Some(b) = it.next() {
        match b {
            0 | 9 | 10 | 12 | 13 | 32 => continue,
            b'~' => {
                // skip white-space, expect '>'
                loop {
                    match it.next() {
                        Some(0 | 9 | 10 | 12 | 13 | 32) => continue,
                        Some(b'>') => break,
                        _ => return Err("missing > after ~".into()),
                    }
                }
                ended = true;
                break;
            }
            b'z' => {
                if !grp.is_empty() {
                    return Err("z inside group".into());
                }
                out.extend_from_slice(&[0; 4]);
            }
            b'!'..=b'u' => {
                grp.push(b - b'!');
                if grp.len() == 5 {
                    let mut n: u64 = 0;
                    for &g in &grp {
                        n = n * 85 + g as u64;
                    }
                    if n > u32::MAX as u64 {
                        return Err("group overflow".into());
                    }
                    out.extend_from_slice(&(n as u32).to_be_bytes());
                    grp.clear();
                }
            }
            _ => return Err(format!("bad a85 byte {:#x}", b)),
        }
    }
    let _ = ended; // EOD is optional for a reference decoder fed exactly the encoded bytes
    if !grp.is_empty() {
        if grp.len() == 1 {
            return Err("single-symbol tail".into());
        }
        let k = grp.len();
        let mut g = grp.clone();
        while g.len() < 5 {
            g.push(84);
        }
        let mut n: u64 = 0;
        for &x in &g {
            n = n * 85 + x as u64;
        }
        if n > u32::MAX as u64 {
            return Err("tail overflow".into());
        }
        out.extend_from_slice(&(n as u32).to_be_bytes()[..k - 1]);
    }
    Ok(out)
}

// ---------------------------------------------------------------- RunLength
#[derive(Clone, Copy, Debug, PartialEq)]
pub enum RlStyle {
    /// literal runs only (max 128 per run)
    Literal,
    /// greedy: repeats >= 2 become repeat runs
    Greedy,
    /// literal runs of length 1 each (stress many headers)
    Singles,
}
pub fn rl_encode(data: &[u8], style: RlStyle, eod: bool) -> Vec<u8> {
    let mut out = vec![];
    let mut i = 0;
    while i < data.len() {
        match style {
            RlStyle::Literal => {
                let n = (data.len() - i).min(128);
                out.push((n - 1) as u8);
                out.extend_from_slice(&data[i..i + n]);
                i += n;
            }
            RlStyle::Singles => {
                out.push(0);
                out.push(data[i]);
                i += 1;
            }
            RlStyle::Greedy => {
                let b = data[i];
                let mut run = 1;
                while i + run < data.len() && data[i + run] == b && run < 128 {
                    run += 1;
                }
                if run >= 2 {
                    out.push((257 - run) as u8);
                    out.push(b);
                    i += run;
                } else {
                    // literal until next repeat of >= 2 or 128
                    let start = i;
                    let mut j = i + 1;
                    while j < data.len() && j - start < 128 {
                        if j + 1 < data.len() && data[j] == data[j + 1] {
                            break;
                        }
                        j += 1;
                    }
                    out.push((j - start - 1) as u8);
                    out.extend_from_slice(&data[start..j]);
                    i = j;
                }
            }
        }
    }
    if eod {
        out.push(128);
    }
    out
}
pub fn rl_decode_ref(data: &[u8]) -> Result<Vec<u8>, String> {
    let mut out = vec![];
    let mut i = 0;
    while i < data.len() {
        let l = data[i] as usize;
        i += 1;
        if l < 128 {
            if i + l + 1 > data.len() {
                return Err("truncated literal run".into());
            }
            out.extend_from_slice(&data[i..i + l + 1]);
            i += l + 1;
        } else if l == 128 {
            break;
        } else {
            if i >= data.len() {
                return Err("truncated repeat run".into());
            }
            out.extend(std::iter::repeat(data[i]).take(257 - l));
            i += 1;
        }
    }
    Ok(out)
}

// ---------------------------------------------------------------- LZW
struct BitWriter {
    out: Vec<u8>,
    acc: u32,
    nbits: u32,
}
impl BitWriter {
    fn put(&mut self, code: u32, bits: u32) {
        self.acc = (self.acc << bits) | code;
        self.nbits += bits;
        while self.nbits >= 8 {
            self.out.push((self.acc >> (self.nbits - 8)) as u8);
            self.nbits -= 8;
            self.acc &= (1 << self.nbits) - 1;
        }
    }
    fn finish(mut self) -> Vec<u8> {
        if self.nbits > 0 {
            self.out.push((self.acc << (8 - self.nbits)) as u8);
        }
        self.out
    }
}
/// LZW encoder (MSB first, 9..12 bits, clear=256, EOD=257).
/// `early`: EarlyChange value (1 = default of the PDF filter). `reset_every`: emit an extra clear-table
/// code after that many input bytes (0 = only when the table fills).
pub fn lzw_encode(data: &[u8], early: bool, reset_every: usize) -> Vec<u8> {
    use std::collections::HashMap;
    let mut w = BitWriter { out: vec![], acc: 0, nbits: 0 };
    let mut bits = 9u32;
    let mut table: HashMap<(u32, u8), u32> = HashMap::new();
    let mut next: u32 = 258;
    w.put(256, bits);
    let mut cur: Option<u32> = None;
    let mut since_reset = 0usize;
    for &b in data {
        since_reset += 1;
        match cur {
            None => cur = Some(b as u32),
            Some(c) => {
                if let Some(&code) = table.get(&(c, b)) {
                    cur = Some(code);
                } else {
                    w.put(c, bits);
                    table.insert((c, b), next);
                    next += 1;
                    let limit = if early { 1u32 << bits } else { (1u32 << bits) + 1 };
                    if next == limit && bits < 12 {
                        bits += 1;
                    }
                    cur = Some(b as u32);
                    // table nearly full, or requested reset: clear
                    if next >= 4093 || (reset_every > 0 && since_reset >= reset_every) {
                        w.put(256, bits);
                        table.clear();
                        next = 258;
                        bits = 9;
                        since_reset = 0;
                    }
                }
            }
        }
    }
    if let Some(c) = cur {
        w.put(c, bits);
        // the decoder adds an entry for this code too; account for a possible width change
        next += 1;
        let limit = if early { 1u32 << bits } else { (1u32 << bits) + 1 };
        if next == limit && bits < 12 {
            bits += 1;
        }
    }
    w.put(257, bits);
    w.finish()
}
pub fn lzw_decode_ref(data: &[u8], early: bool) -> Result<Vec<u8>, String> {
    let mut out = vec![];
    let mut table: Vec<Vec<u8>> = Vec::with_capacity(4096);
    let reset = |t: &mut Vec<Vec<u8>>| {
        t.clear();
        for i in 0..256u32 {
            t.push(vec![i as u8]);
        }
        t.push(vec![]);
        t.push(vec![]);
    };
    reset(&mut table);
    let mut bits = 9u32;
    let mut acc: u32 = 0;
    let mut nb = 0u32;
    let mut prev: Option<usize> = None;
    let mut i = 0;
    loop {
        while nb < bits {
            if i >= data.len() {
                // no EOD marker: accept end of data
                return Ok(out);
            }
            acc = (acc << 8) | data[i] as u32;
            i += 1;
            nb += 8;
        }
        let code = ((acc >> (nb - bits)) & ((1 << bits) - 1)) as usize;
        nb -= bits;
        acc &= (1 << nb) - 1;
        if code == 256 {
            reset(&mut table);
            bits = 9;
            prev = None;
            continue;
        }
        if code == 257 {
            return Ok(out);
        }
        let entry: Vec<u8> = if code < table.len() {
            table[code].clone()
        } else if code == table.len() {
            match prev {
                Some(p) => {
                    let mut e = table[p].clone();
                    e.push(table[p][0]);
                    e
                }
                None => return Err("bad first code".into()),
            }
        } else {
            return Err(format!("code {} beyond table {}", code, table.len()));
        };
        out.extend_from_slice(&entry);
        if let Some(p) = prev {
            if table.len() < 4096 {
                let mut e = table[p].clone();
                e.push(entry[0]);
                table.push(e);
            }
        }
        prev = Some(code);
        let next = table.len() as u32;
        let limit = if early { (1u32 << bits) - 1 } else { 1u32 << bits };
        if next >= limit && bits < 12 {
            bits += 1;
        }
    }
}

// ---------------------------------------------------------------- Flate
#[derive(Clone, Copy, Debug, PartialEq)]
pub enum FlateStyle {
    ZlibDefault,
    ZlibStored,
    ZlibBest,
    ZlibFast,
    RawDefault,
    RawStored,
}
pub const FLATE_STYLES: [FlateStyle; 6] =
    [FlateStyle::ZlibDefault, FlateStyle::ZlibStored, FlateStyle::ZlibBest, FlateStyle::ZlibFast, FlateStyle::RawDefault, FlateStyle::RawStored];
pub fn flate_encode(data: &[u8], style: FlateStyle) -> Vec<u8> {
    use miniz_oxide::deflate::{compress_to_vec, compress_to_vec_zlib};
    match style {
        FlateStyle::ZlibDefault => compress_to_vec_zlib(data, 6),
        FlateStyle::ZlibStored => compress_to_vec_zlib(data, 0),
        FlateStyle::ZlibBest => compress_to_vec_zlib(data, 9),
        FlateStyle::ZlibFast => compress_to_vec_zlib(data, 1),
        FlateStyle::RawDefault => compress_to_vec(data, 6),
        FlateStyle::RawStored => compress_to_vec(data, 0),
    }
}
/// accepts zlib framing, else raw deflate
pub fn flate_decode_ref(data: &[u8]) -> Result<Vec<u8>, String> {
    use miniz_oxide::inflate::{decompress_to_vec, decompress_to_vec_zlib};
    match decompress_to_vec_zlib(data) {
        Ok(v) => Ok(v),
        Err(e1) => match decompress_to_vec(data) {
            Ok(v) => Ok(v),
            Err(e2) => Err(format!("zlib: {:?}; raw: {:?}", e1.status, e2.status)),
        },
    }
}
pub fn flate_decode_zlib_only(data: &[u8]) -> Result<Vec<u8>, String> {
    miniz_oxide::inflate::decompress_to_vec_zlib(data).map_err(|e| format!("{:?}", e.status))
}

// ---------------------------------------------------------------- predictors
pub fn row_bytes(colors: usize, bpc: usize, columns: usize) -> usize {
    (colors * bpc * columns + 7) / 8
}
pub fn bytes_per_pixel(colors: usize, bpc: usize) -> usize {
    ((colors * bpc + 7) / 8).max(1)
}
fn paeth(a: u8, b: u8, c: u8) -> u8 {
    let (ia, ib, ic) = (a as i32, b as i32, c as i32);
    let p = ia + ib - ic;
    let (pa, pb, pc) = ((p - ia).abs(), (p - ib).abs(), (p - ic).abs());
    if pa <= pb && pa <= pc {
        a
    } else if pb <= pc {
        b
    } else {
        c
    }
}
/// PNG predictor encoding (predictor 10..15). `row_filter(r)` gives the filter type (0..4) of row r.
/// `data.len()` must be a multiple of the row size.
pub fn png_predict(data: &[u8], colors: usize, bpc: usize, columns: usize, row_filter: impl Fn(usize) -> u8) -> Vec<u8> {
    let rb = row_bytes(colors, bpc, columns);
    let bpp = bytes_per_pixel(colors, bpc);
    assert!(rb > 0 && data.len() % rb == 0);
    let mut out = Vec::with_capacity(data.len() + data.len() / rb);
    let zero = vec![0u8; rb];
    for (r, row) in data.chunks(rb).enumerate() {
        let prev: &[u8] = if r == 0 { &zero } else { &data[(r - 1) * rb..r * rb] };
        let ft = row_filter(r);
        out.push(ft);
        for i in 0..rb {
            let a = if i >= bpp { row[i - bpp] } else { 0 };
            let b = prev[i];
            let c = if i >= bpp { prev[i - bpp] } else { 0 };
            let pred = match ft {
                0 => 0,
                1 => a,
                2 => b,
                3 => ((a as u16 + b as u16) / 2) as u8,
                4 => paeth(a, b, c),
                _ => panic!("bad filter type"),
            };
            out.push(row[i].wrapping_sub(pred));
        }
    }
    out
}
/// TIFF predictor 2 encoding: each sample minus the same component of the pixel to the left.
pub fn tiff_predict(data: &[u8], colors: usize, bpc: usize, columns: usize) -> Vec<u8> {
    let rb = row_bytes(colors, bpc, columns);
    assert!(rb > 0 && data.len() % rb == 0);
    let mut out = Vec::with_capacity(data.len());
    for row in data.chunks(rb) {
        match bpc {
            8 => {
                for i in 0..rb {
                    let a = if i >= colors { row[i - colors] } else { 0 };
                    out.push(row[i].wrapping_sub(a));
                }
            }
            16 => {
                let n = colors * columns;
                for s in 0..n {
                    let v = u16::from_be_bytes([row[2 * s], row[2 * s + 1]]);
                    let a = if s >= colors { u16::from_be_bytes([row[2 * (s - colors)], row[2 * (s - colors) + 1]]) } else { 0 };
                    out.extend_from_slice(&v.wrapping_sub(a).to_be_bytes());
                }
            }
            1 | 2 | 4 => {
                let n = colors * columns;
                let mask = (1u16 << bpc) - 1;
                let get = |s: usize| -> u16 {
                    let bit = s * bpc;
                    ((row[bit / 8] >> (8 - bpc - bit % 8)) as u16) & mask
                };
                let mut acc = vec![0u8; rb];
                for s in 0..n {
                    let v = get(s);
                    let a = if s >= colors { get(s - colors) } else { 0 };
                    let d = (v.wrapping_sub(a)) & mask;
                    let bit = s * bpc;
                    acc[bit / 8] |= (d as u8) << (8 - bpc - bit % 8);
                }
                out.extend_from_slice(&acc);
            }
            _ => panic!("bad bpc"),
        }
    }
    out
}

// ---------------------------------------------------------------- self-test
pub fn selftest() -> Result<(), String> {
    // ISO 32000-1 7.4.4.2 LZW example
    let ex = [45u8, 45, 45, 45, 45, 65, 45, 45, 45, 66];
    let enc = lzw_encode(&ex, true, 0);
    if enc != [0x80, 0x0B, 0x60, 0x50, 0x22, 0x0C, 0x0C, 0x85, 0x01] {
        return Err(format!("LZW spec example mismatch: {:02x?}", enc));
    }
    // ASCII85: well known vector
    let a = a85_encode(b"hello world!", A85Style::Plain);
    if a != b"BOu!rD]j7BEbo80~>" {
        return Err(format!("A85 vector mismatch {:?}", String::from_utf8_lossy(&a)));
    }
    if a85_encode(&[0, 0, 0, 0, 0], A85Style::Plain) != b"z!!~>" {
        return Err("A85 z".into());
    }
    // RunLength example (from the repo's own unit test, a conforming stream)
    if rl_decode_ref(&[254, b'a', 255, b'b', 2, b'c', b'b', b'c', 254, b'a', 128]).unwrap() != b"aaabbcbcaaa" {
        return Err("RL ref".into());
    }
    // round trips of own encoders through own decoders
    let mut bufs: Vec<Vec<u8>> = vec![vec![], vec![0], vec![0, 0, 0, 0], vec![255; 7], b"hello world, hello world, hello".to_vec()];
    let mut x: u32 = 12345;
    let mut big = vec![];
    for _ in 0..20000 {
        x = x.wrapping_mul(1664525).wrapping_add(1013904223);
        big.push((x >> 24) as u8);
    }
    bufs.push(big);
    bufs.push((0..9000u32).map(|i| (i % 7) as u8).collect());
    bufs.push(vec![7; 70000]);
    for b in &bufs {
        for st in [HexStyle::Lower, HexStyle::Upper, HexStyle::SpacedPairs, HexStyle::SpacedNibbles] {
            if &hex_decode_ref(&hex_encode(b, st, true))? != b {
                return Err(format!("hex {:?}", st));
            }
        }
        for st in [A85Style::Plain, A85Style::NoZ, A85Style::Lines, A85Style::Spaced] {
            if &a85_decode_ref(&a85_encode(b, st))? != b {
                return Err(format!("a85 {:?} len {}", st, b.len()));
            }
        }
        for st in [RlStyle::Literal, RlStyle::Greedy, RlStyle::Singles] {
            if &rl_decode_ref(&rl_encode(b, st, true))? != b {
                return Err(format!("rl {:?}", st));
            }
        }
        for early in [true, false] {
            for reset in [0usize, 5] {
                let e = lzw_encode(b, early, reset);
                match lzw_decode_ref(&e, early) {
                    Ok(d) if &d == b => {}
                    other => return Err(format!("lzw early={} reset={} len={} -> {:?}", early, reset, b.len(), other.map(|d| d.len()))),
                }
            }
        }
        for st in FLATE_STYLES {
            if &flate_decode_ref(&flate_encode(b, st))? != b {
                return Err(format!("flate {:?}", st));
            }
        }
    }
    Ok(())
}
