//! Independent PDF producer (oracle side). Never calls the library's serialiser, encoders or crypto.
pub mod crypt;
pub mod docs;
pub mod file;
pub mod filters;
pub mod val;
