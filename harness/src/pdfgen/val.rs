//! Value model of the independent producer + canonical printer + printer with explicit choice points.
use crate::explore::Chooser;

#[derive(Clone, Debug, PartialEq)]
pub enum Val {
    Null,
    Bool(bool),
    Int(i64),
    /// decimal text in canonical form (optional '-', digits, '.', digits), e.g. "0.5", "-0.002", "4.0"
    Real(String),
    Str(Vec<u8>),
    Name(Vec<u8>),
    Array(Vec<Val>),
    Dict(Vec<(Vec<u8>, Val)>),
    Ref(u64, u16),
    Stream(Vec<(Vec<u8>, Val)>, Vec<u8>),
}

impl Val {
    pub fn name(s: &str) -> Val {
        Val::Name(s.as_bytes().to_vec())
    }
    pub fn str(s: &str) -> Val {
        Val::Str(s.as_bytes().to_vec())
    }
    pub fn real(s: &str) -> Val {
        Val::Real(s.to_string())
    }
    pub fn dict(entries: Vec<(&str, Val)>) -> Val {
        Val::Dict(entries.into_iter().map(|(k, v)| (k.as_bytes().to_vec(), v)).collect())
    }
    pub fn stream(entries: Vec<(&str, Val)>, data: Vec<u8>) -> Val {
        Val::Stream(entries.into_iter().map(|(k, v)| (k.as_bytes().to_vec(), v)).collect(), data)
    }
    pub fn ints(v: &[i64]) -> Val {
        Val::Array(v.iter().map(|&i| Val::Int(i)).collect())
    }
    pub fn r(nr: u64) -> Val {
        Val::Ref(nr, 0)
    }
    pub fn get(&self, key: &str) -> Option<&Val> {
        match self {
            Val::Dict(d) | Val::Stream(d, _) => d.iter().find(|(k, _)| k == key.as_bytes()).map(|(_, v)| v),
            _ => None,
        }
    }
    pub fn set(&mut self, key: &str, v: Val) {
        match self {
            Val::Dict(d) | Val::Stream(d, _) => {
                if let Some(e) = d.iter_mut().find(|(k, _)| k == key.as_bytes()) {
                    e.1 = v;
                } else {
                    d.push((key.as_bytes().to_vec(), v));
                }
            }
            _ => panic!("set on non-dict"),
        }
    }
    pub fn remove(&mut self, key: &str) {
        if let Val::Dict(d) | Val::Stream(d, _) = self {
            d.retain(|(k, _)| k != key.as_bytes());
        }
    }
    pub fn with(mut self, key: &str, v: Val) -> Val {
        self.set(key, v);
        self
    }
    /// apply `f` to every string in the value (used by the encryptor)
    pub fn map_strings(&self, f: &dyn Fn(&[u8]) -> Vec<u8>) -> Val {
        match self {
            Val::Str(s) => Val::Str(f(s)),
            Val::Array(a) => Val::Array(a.iter().map(|v| v.map_strings(f)).collect()),
            Val::Dict(d) => Val::Dict(d.iter().map(|(k, v)| (k.clone(), v.map_strings(f))).collect()),
            Val::Stream(d, data) => Val::Stream(d.iter().map(|(k, v)| (k.clone(), v.map_strings(f))).collect(), data.clone()),
            other => other.clone(),
        }
    }
    pub fn kind(&self) -> &'static str {
        match self {
            Val::Null => "null",
            Val::Bool(_) => "bool",
            Val::Int(_) => "int",
            Val::Real(_) => "real",
            Val::Str(_) => "string",
            Val::Name(_) => "name",
            Val::Array(_) => "array",
            Val::Dict(_) => "dict",
            Val::Ref(..) => "ref",
            Val::Stream(..) => "stream",
        }
    }
}

pub fn is_ws(b: u8) -> bool {
    matches!(b, 0 | 9 | 10 | 12 | 13 | 32)
}
pub fn is_delim(b: u8) -> bool {
    matches!(b, b'(' | b')' | b'<' | b'>' | b'[' | b']' | b'{' | b'}' | b'/' | b'%')
}
pub fn is_regular(b: u8) -> bool {
    !is_ws(b) && !is_delim(b)
}

// ------------------------------------------------------------------------------------------------
// canonical printer

pub fn print_name(out: &mut Vec<u8>, n: &[u8]) {
    out.push(b'/');
    for &b in n {
        if is_regular(b) && b != b'#' && (0x21..=0x7e).contains(&b) {
            out.push(b);
        } else {
            out.extend_from_slice(format!("#{:02X}", b).as_bytes());
        }
    }
}
pub fn print_string(out: &mut Vec<u8>, s: &[u8]) {
    let printable = s.iter().all(|&b| (0x20..=0x7e).contains(&b));
    if printable {
        out.push(b'(');
        for &b in s {
            if matches!(b, b'(' | b')' | b'\\') {
                out.push(b'\\');
            }
            out.push(b);
        }
        out.push(b')');
    } else {
        out.push(b'<');
        for &b in s {
            out.extend_from_slice(format!("{:02X}", b).as_bytes());
        }
        out.push(b'>');
    }
}
fn print_dict(out: &mut Vec<u8>, d: &[(Vec<u8>, Val)]) {
    out.extend_from_slice(b"<<");
    for (k, v) in d {
        out.push(b' ');
        print_name(out, k);
        out.push(b' ');
        print_into(out, v);
    }
    out.extend_from_slice(b" >>");
}
pub fn print_into(out: &mut Vec<u8>, v: &Val) {
    match v {
        Val::Null => out.extend_from_slice(b"null"),
        Val::Bool(b) => out.extend_from_slice(if *b { b"true" } else { b"false" }),
        Val::Int(i) => out.extend_from_slice(i.to_string().as_bytes()),
        Val::Real(s) => out.extend_from_slice(s.as_bytes()),
        Val::Str(s) => print_string(out, s),
        Val::Name(n) => print_name(out, n),
        Val::Array(a) => {
            out.push(b'[');
            for (i, e) in a.iter().enumerate() {
                if i > 0 {
                    out.push(b' ');
                }
                print_into(out, e);
            }
            out.push(b']');
        }
        Val::Dict(d) => print_dict(out, d),
        Val::Ref(n, g) => out.extend_from_slice(format!("{} {} R", n, g).as_bytes()),
        Val::Stream(d, data) => {
            let mut d = d.clone();
            if !d.iter().any(|(k, _)| k == b"Length") {
                d.push((b"Length".to_vec(), Val::Int(data.len() as i64)));
            }
            print_dict(out, &d);
            out.extend_from_slice(b"\nstream\n");
            out.extend_from_slice(data);
            out.extend_from_slice(b"\nendstream");
        }
    }
}
pub fn print(v: &Val) -> Vec<u8> {
    let mut out = vec![];
    print_into(&mut out, v);
    out
}

// ------------------------------------------------------------------------------------------------
// printer with choice points (every freedom the syntax allows)

#[derive(Clone, Debug)]
pub struct Tok {
    pub bytes: Vec<u8>,
    pub starts_delim: bool,
    pub ends_delim: bool,
}
impl Tok {
    fn regular(b: Vec<u8>) -> Tok {
        Tok { bytes: b, starts_delim: false, ends_delim: false }
    }
    fn delim(b: &[u8]) -> Tok {
        Tok { bytes: b.to_vec(), starts_delim: true, ends_delim: true }
    }
}

pub const SEP_REQ: &[&str] = &["SP", "NUL", "HT", "LF", "FF", "CR", "CRLF", "SPSP", "%c-LF", "%c-CR", "%c-CRLF", "SP%-LF"];
pub const SEP_OPT: &[&str] = &["none", "SP", "NUL", "HT", "LF", "FF", "CR", "CRLF", "%c-LF", "%c-CR", "%c-CRLF"];
pub fn sep_bytes(name: &str) -> &'static [u8] {
    match name {
        "none" => b"",
        "SP" => b" ",
        "NUL" => b"\0",
        "HT" => b"\t",
        "LF" => b"\n",
        "FF" => b"\x0c",
        "CR" => b"\r",
        "CRLF" => b"\r\n",
        "SPSP" => b"  ",
        "%c-LF" => b"%c (x) <y> /z\n",
        "%c-CR" => b"%c\r",
        "%c-CRLF" => b"%c\r\n",
        "SP%-LF" => b" %\n",
        _ => panic!("sep"),
    }
}

pub const INT_FORMS: &[&str] = &["canonical", "+sign", "leading-zeros"];
pub const REAL_FORMS: &[&str] = &["canonical", "+sign", "leading-zeros", "trailing-zeros", "no-leading-zero", "trailing-dot"];

fn int_tok(ch: &mut Chooser, i: i64) -> Tok {
    let form = ch.pick_named("int", INT_FORMS);
    let s = match form {
        1 if i >= 0 => format!("+{}", i),
        2 => {
            if i < 0 {
                format!("-00{}", -(i as i128))
            } else {
                format!("00{}", i)
            }
        }
        _ => i.to_string(),
    };
    Tok::regular(s.into_bytes())
}
fn real_tok(ch: &mut Chooser, text: &str) -> Tok {
    let form = ch.pick_named("real", REAL_FORMS);
    let (neg, body) = match text.strip_prefix('-') {
        Some(b) => (true, b),
        None => (false, text),
    };
    let (ip, fp) = match body.find('.') {
        Some(i) => (&body[..i], &body[i + 1..]),
        None => (body, ""),
    };
    let sign = if neg { "-" } else { "" };
    let s = match form {
        1 if !neg => format!("+{}", body),
        2 => format!("{}00{}.{}", sign, ip, fp),
        3 => format!("{}{}.{}00", sign, ip, fp),
        4 if ip.chars().all(|c| c == '0') && !fp.is_empty() => format!("{}.{}", sign, fp),
        5 if fp.chars().all(|c| c == '0') && !ip.is_empty() => format!("{}{}.", sign, ip),
        _ => text.to_string(),
    };
    Tok::regular(s.into_bytes())
}

pub const STR_FORMS: &[&str] = &["literal", "hex"];
pub const HEX_FORMS: &[&str] = &["upper", "lower", "inner-ws", "odd-digits", "odd-digits+inner-ws"];
pub const CONT_POS: &[&str] = &["none", "first", "middle", "last"];
pub const CONT_EOL: &[&str] = &["LF", "CR", "CRLF"];
// spellings of one byte inside a literal string
pub const BYTE_FORMS: &[&str] = &["default", "alt1", "alt2", "alt3", "alt4"];

fn parens_balanced(s: &[u8]) -> bool {
    let mut d = 0i32;
    for &b in s {
        if b == b'(' {
            d += 1;
        } else if b == b')' {
            d -= 1;
            if d < 0 {
                return false;
            }
        }
    }
    d == 0
}

fn octal(b: u8, digits: usize) -> Vec<u8> {
    let s = match digits {
        1 => format!("\\{:o}", b),
        2 => format!("\\{:02o}", b),
        _ => format!("\\{:03o}", b),
    };
    s.into_bytes()
}

/// all spellings of byte `b` at this position; index 0 is canonical. `next` is the following value byte (if any).
fn byte_spellings(b: u8, raw_parens: bool, next: Option<u8>) -> Vec<Vec<u8>> {
    // a short octal code ends at the first byte that is not an octal digit: `8` and `9` end it too
    let next_is_digit = next.map(|n| (b'0'..=b'7').contains(&n)).unwrap_or(false);
    let mut v: Vec<Vec<u8>> = vec![];
    match b {
        b'(' | b')' => {
            if raw_parens {
                // all parentheses of a balanced string written raw (all or nothing)
                v.push(vec![b]);
            } else {
                v.push(vec![b'\\', b]);
                v.push(octal(b, 3));
            }
        }
        b'\\' => {
            v.push(vec![b'\\', b'\\']);
            v.push(octal(b, 3));
        }
        b'\n' => {
            v.push(b"\\n".to_vec());
            v.push(b"\n".to_vec());
            v.push(b"\r".to_vec()); // raw CR denotes LF
            v.push(b"\r\n".to_vec()); // raw CRLF denotes LF
            v.push(octal(b, 3));
        }
        b'\r' => {
            v.push(b"\\r".to_vec());
            v.push(octal(b, 3));
            if !next_is_digit {
                v.push(octal(b, 2));
            }
        }
        b'\t' => {
            v.push(b"\\t".to_vec());
            v.push(b"\t".to_vec());
            v.push(octal(b, 3));
        }
        8 => {
            v.push(b"\\b".to_vec());
            v.push(vec![8]);
            v.push(octal(b, 3));
        }
        12 => {
            v.push(b"\\f".to_vec());
            v.push(vec![12]);
            v.push(octal(b, 3));
        }
        _ => {
            v.push(vec![b]);
            v.push(octal(b, 3));
            if !next_is_digit {
                if b < 64 {
                    v.push(octal(b, 2));
                }
                if b < 8 {
                    v.push(octal(b, 1));
                }
            }
            // a backslash before a character that is not an escape is ignored
            if !matches!(b, b'n' | b'r' | b't' | b'b' | b'f' | b'0'..=b'9' | b'\n' | b'\r') && (0x21..=0x7e).contains(&b) {
                v.push(vec![b'\\', b]);
            }
        }
    }
    v
}

fn string_tok(ch: &mut Chooser, s: &[u8]) -> Tok {
    let form = ch.pick_named("str", STR_FORMS);
    if form == 1 {
        let hf = ch.pick_named("hex", HEX_FORMS);
        let mut out = vec![b'<'];
        for (i, &b) in s.iter().enumerate() {
            let t = if hf == 1 { format!("{:02x}", b) } else { format!("{:02X}", b) };
            let t = t.as_bytes();
            out.push(t[0]);
            if hf == 2 || hf == 4 {
                out.push([b' ', b'\n', b'\r', b'\t', 0x0c, 0][i % 6]);
            }
            out.push(t[1]);
            if hf == 2 || hf == 4 {
                out.push(b' ');
            }
        }
        if (hf == 3 || hf == 4) && s.last().map(|b| b & 15 == 0).unwrap_or(false) {
            // the final 0 digit may be left out; with inner white-space it is the digit before the last separator
            if hf == 4 {
                let ws = out.pop().unwrap();
                out.pop();
                out.push(ws);
            } else {
                out.pop();
            }
        }
        out.push(b'>');
        return Tok::delim(&out);
    }
    let has_parens = s.iter().any(|&b| b == b'(' || b == b')');
    let balanced = has_parens && parens_balanced(s) && ch.pick_named("parens", &["escaped", "raw-balanced"]) == 1;
    let cont = ch.pick_named("cont", CONT_POS);
    let eol = if cont != 0 { ch.pick_named("cont-eol", CONT_EOL) } else { 0 };
    let cont_at = match cont {
        1 => Some(0),
        2 => Some(s.len() / 2),
        3 => Some(s.len()),
        _ => None,
    };
    let mut out = vec![b'('];
    for (i, &b) in s.iter().enumerate() {
        if cont_at == Some(i) {
            out.push(b'\\');
            out.extend_from_slice([&b"\n"[..], &b"\r"[..], &b"\r\n"[..]][eol]);
        }
        let sp = byte_spellings(b, balanced, s.get(i + 1).copied());
        // only bytes with something interesting get a choice point, to keep the tree small
        let k = if sp.len() > 1 { ch.pick("strbyte#", sp.len()) } else { 0 };
        let mut spelled = sp[k].clone();
        // raw CR followed by a value LF would merge into one EOL: avoid that spelling
        if spelled == b"\r" && s.get(i + 1) == Some(&b'\n') {
            spelled = sp[0].clone();
        }
        // a raw LF right after a `\`+CR continuation (or after a raw CR) would read as part of that EOL
        if spelled.first() == Some(&b'\n') && out.last() == Some(&b'\r') {
            spelled = sp[0].clone();
        }
        out.extend_from_slice(&spelled);
    }
    if cont_at == Some(s.len()) {
        out.push(b'\\');
        out.extend_from_slice([&b"\n"[..], &b"\r"[..], &b"\r\n"[..]][eol]);
    }
    out.push(b')');
    Tok::delim(&out)
}

fn name_tok(ch: &mut Chooser, n: &[u8]) -> Tok {
    let mut out = vec![b'/'];
    for &b in n {
        let must = !(is_regular(b) && b != b'#' && (0x21..=0x7e).contains(&b));
        let esc = if must { true } else { ch.pick("namebyte#", 2) == 1 };
        if esc {
            let lower = must && ch.pick("namehex-lower#", 2) == 1;
            let s = if lower { format!("#{:02x}", b) } else { format!("#{:02X}", b) };
            out.extend_from_slice(s.as_bytes());
        } else {
            out.push(b);
        }
    }
    Tok { bytes: out, starts_delim: true, ends_delim: false }
}

pub fn tokens(ch: &mut Chooser, v: &Val, out: &mut Vec<Tok>) {
    match v {
        Val::Null => out.push(Tok::regular(b"null".to_vec())),
        Val::Bool(b) => out.push(Tok::regular(if *b { b"true".to_vec() } else { b"false".to_vec() })),
        Val::Int(i) => out.push(int_tok(ch, *i)),
        Val::Real(s) => out.push(real_tok(ch, s)),
        Val::Str(s) => out.push(string_tok(ch, s)),
        Val::Name(n) => out.push(name_tok(ch, n)),
        Val::Array(a) => {
            out.push(Tok::delim(b"["));
            for e in a {
                tokens(ch, e, out);
            }
            out.push(Tok::delim(b"]"));
        }
        Val::Dict(d) => {
            out.push(Tok::delim(b"<<"));
            for (k, e) in d {
                out.push(name_tok(ch, k));
                tokens(ch, e, out);
            }
            out.push(Tok::delim(b">>"));
        }
        Val::Ref(n, g) => {
            out.push(Tok::regular(n.to_string().into_bytes()));
            out.push(Tok::regular(g.to_string().into_bytes()));
            out.push(Tok::regular(b"R".to_vec()));
        }
        Val::Stream(..) => panic!("streams are framed by the caller"),
    }
}

/// join tokens with a separator choice at every slot
pub fn join(ch: &mut Chooser, toks: &[Tok], out: &mut Vec<u8>) {
    for (i, t) in toks.iter().enumerate() {
        if i > 0 {
            let required = !toks[i - 1].ends_delim && !t.starts_delim;
            if required {
                let k = ch.pick_named("sep#", SEP_REQ);
                out.extend_from_slice(sep_bytes(SEP_REQ[k]));
            } else {
                let k = ch.pick_named("optsep#", SEP_OPT);
                out.extend_from_slice(sep_bytes(SEP_OPT[k]));
            }
        }
        out.extend_from_slice(&t.bytes);
    }
}

pub fn spell(ch: &mut Chooser, v: &Val) -> Vec<u8> {
    let mut toks = vec![];
    tokens(ch, v, &mut toks);
    let mut out = vec![];
    join(ch, &toks, &mut out);
    out
}
