//! C01 — reading arbitrary bytes never panics, aborts or hangs (edit neighbourhood of a seed set).
use crate::core::*;
use crate::isolate::*;
use crate::pdfgen::docs::*;
use crate::pdfgen::file::*;
use crate::pdfgen::val::*;
use crate::walker::{Config, CONFIGS};
use rayon::prelude::*;
use serde_json::{json, Value};

pub struct Seed {
    pub name: String,
    pub bytes: Vec<u8>,
    pub pw: Vec<u8>,
    pub big: bool,
}

fn tiny_stream_doc() -> Vec<u8> {
    let mut fb = FileBuilder::new(b"");
    fb.add(1, 0, &Val::dict(vec![("Type", Val::name("Catalog")), ("Pages", Val::r(2))]));
    fb.add_objstm(
        4,
        &[
            (2, Val::dict(vec![("Type", Val::name("Pages")), ("Kids", Val::Array(vec![Val::r(3)])), ("Count", Val::Int(1)), ("MediaBox", Val::ints(&[0, 0, 9, 9]))])),
            (3, Val::dict(vec![("Type", Val::name("Page")), ("Parent", Val::r(2)), ("Resources", Val::dict(vec![])), ("Contents", Val::r(5))])),
        ],
        &ObjStmOpts::default(),
    );
    fb.add(5, 0, &Val::stream(vec![("Filter", Val::name("ASCIIHexDecode"))], b"71 20 51>".to_vec()));
    fb.finish_stream(&[("Root", Val::r(1))], &XrefStreamOpts::new(6));
    fb.add(5, 0, &Val::stream(vec![], b"q Q".to_vec()));
    let mut o = XrefStreamOpts::new(7);
    o.flate = true;
    fb.finish_stream(&[("Root", Val::r(1))], &o);
    fb.bytes()
}

pub fn seeds(tier: Tier) -> Vec<Seed> {
    let mut v = vec![
        Seed { name: "gen:small".into(), bytes: small_doc(b""), pw: vec![], big: false },
        Seed { name: "gen:tiny-xrefstream-chain".into(), bytes: tiny_stream_doc(), pw: vec![], big: false },
        Seed { name: "gen:rich-classic".into(), bytes: rich_doc(b"", DocOpts::CLASSIC), pw: vec![], big: true },
        Seed { name: "gen:rich-xrefstream".into(), bytes: rich_doc(b"", DocOpts::STREAM), pw: vec![], big: true },
        Seed { name: "gen:hostile-extras".into(), bytes: rich_doc_with(b"", DocOpts::CHAIN, &hostile_objects()), pw: vec![], big: true },
    ];
    if let Some(e) = crate::props::c06::encrypted_rich_doc() {
        v.push(Seed { name: "gen:encrypted-rc4".into(), bytes: e, pw: b"user".to_vec(), big: true });
    }
    // corpus: the former crash inputs always, the valid files up to a size limit
    let dir = format!("{}/files", repo_dir());
    let mut add_dir = |sub: &str, max: usize, pw: &[u8], v: &mut Vec<Seed>| {
        let d = if sub.is_empty() { dir.clone() } else { format!("{}/{}", dir, sub) };
        let mut names: Vec<String> = std::fs::read_dir(&d).map(|d| d.filter_map(|e| e.ok()).map(|e| e.file_name().to_string_lossy().to_string()).collect()).unwrap_or_default();
        names.sort();
        for n in names {
            if !n.ends_with(".pdf") {
                continue;
            }
            if let Ok(b) = std::fs::read(format!("{}/{}", d, n)) {
                if b.len() <= max {
                    v.push(Seed { name: format!("corpus:{}{}", if sub.is_empty() { String::new() } else { format!("{}/", sub) }, n), bytes: b, pw: pw.to_vec(), big: true });
                }
            }
        }
    };
    add_dir("invalid", 200_000, b"", &mut v);
    if tier.thorough() {
        add_dir("", 40_000, b"", &mut v);
        add_dir("password_protected", 40_000, b"userpassword", &mut v);
    }
    v
}

pub const ALPHA_QUICK: [u8; 12] = [0, b' ', b'\n', b'\r', b'(', b')', b'<', b'>', b'[', b'/', b'%', b'0'];
pub const ALPHA_MID: [u8; 24] = [0, b' ', b'\n', b'\r', b'(', b')', b'<', b'>', b'[', b']', b'/', b'%', b'0', b'9', b'-', b'.', b'R', b'e', b'#', b'\\', 0x7f, 0x80, 0xff, b'{'];

fn judge(seed: &Seed, bytes: &[u8], cfgs: &[Config], fault: &str, t: &mut Tally, replay: &dyn Fn() -> Value) {
    for &cfg in cfgs {
        t.evaluations += 1;
        t.distinct.insert(fnv_mix(fnv(bytes), cfg.tolerant as u64 * 2 + cfg.cached as u64 + 8));
        let v = walk_isolated(bytes, &seed.pw, cfg, true, false);
        t.outcome(&v.class());
        if let Some((kind, detail)) = v.failure() {
            // a panic site is its own signature; crashes and hangs are keyed by seed and fault kind
            let devs = if kind.starts_with("panic@") { vec![] } else { vec![format!("seed={}", seed.name), format!("fault={}", fault)] };
            let mut r = replay();
            r["config"] = json!(cfg.name());
            t.fail("c01.fault", &kind, devs, format!("{} [{}] {}: {}", seed.name, cfg.name(), fault, truncate(&detail, 300)), r);
        }
    }
}

fn cfgs_for(seed: &Seed, tier: Tier) -> Vec<Config> {
    if !seed.big || (tier.thorough() && !seed.name.starts_with("corpus:")) {
        CONFIGS.to_vec()
    } else {
        vec![CONFIGS[0], CONFIGS[3]]
    }
}

/// tokens that look like numbers: (start, end)
fn number_tokens(b: &[u8]) -> Vec<(usize, usize)> {
    let mut v = vec![];
    let mut i = 0;
    while i < b.len() {
        if b[i].is_ascii_digit() && (i == 0 || !(b[i - 1].is_ascii_alphanumeric() || b[i - 1] == b'.')) {
            let s = i;
            while i < b.len() && b[i].is_ascii_digit() {
                i += 1;
            }
            if i < b.len() && (b[i].is_ascii_alphabetic() || b[i] == b'.') {
                continue;
            }
            v.push((s, i));
        } else {
            i += 1;
        }
    }
    v
}

pub fn apply_fault(seed: &[u8], case: &Value) -> Vec<u8> {
    let kind = case["fault"].as_str().unwrap_or("");
    let at = case["at"].as_u64().unwrap_or(0) as usize;
    let mut b = seed.to_vec();
    match kind {
        "substitute" => b[at] = case["byte"].as_u64().unwrap() as u8,
        "substitute2" => {
            b[at] = case["byte"].as_u64().unwrap() as u8;
            b[case["at2"].as_u64().unwrap() as usize] = case["byte2"].as_u64().unwrap() as u8;
        }
        "truncate" => b.truncate(at),
        "drop-prefix" => b = b[at..].to_vec(),
        "delete" => {
            b.remove(at);
        }
        "insert" => b.insert(at, case["byte"].as_u64().unwrap() as u8),
        "token" => {
            let end = case["end"].as_u64().unwrap() as usize;
            let mut nb = b[..at].to_vec();
            nb.extend_from_slice(case["text"].as_str().unwrap().as_bytes());
            nb.extend_from_slice(&b[end..]);
            b = nb;
        }
        "tokens" => {
            // several number tokens replaced at once (listed back to front so that positions stay valid)
            for t in case["tokens"].as_array().unwrap() {
                let (a, e) = (t[0].as_u64().unwrap() as usize, t[1].as_u64().unwrap() as usize);
                let mut nb = b[..a].to_vec();
                nb.extend_from_slice(t[2].as_str().unwrap().as_bytes());
                nb.extend_from_slice(&b[e..]);
                b = nb;
            }
        }
        "insert-bytes" => {
            let ins: Vec<u8> = case["bytes"].as_array().unwrap().iter().map(|x| x.as_u64().unwrap() as u8).collect();
            let mut nb = b[..at].to_vec();
            nb.extend_from_slice(&ins);
            nb.extend_from_slice(&b[at..]);
            b = nb;
        }
        "overwrite-bytes" => {
            let ins: Vec<u8> = case["bytes"].as_array().unwrap().iter().map(|x| x.as_u64().unwrap() as u8).collect();
            for (i, x) in ins.iter().enumerate() {
                if at + i < b.len() {
                    b[at + i] = *x;
                }
            }
        }
        "delete-range" => {
            let end = case["end"].as_u64().unwrap() as usize;
            b.drain(at..end);
        }
        "duplicate-range" => {
            let end = case["end"].as_u64().unwrap() as usize;
            let part = b[at..end].to_vec();
            for (i, x) in part.into_iter().enumerate() {
                b.insert(end + i, x);
            }
        }
        _ => {}
    }
    b
}

pub fn run(tier: Tier, _seed: u64, tally: &mut Tally) -> CheckMeta {
    let seeds = seeds(tier);
    let mut jobs: Vec<(usize, Value)> = vec![];
    for (si, s) in seeds.iter().enumerate() {
        // unmodified seed
        jobs.push((si, json!({"fault": "none"})));
        let n = s.bytes.len();
        let corpus = s.name.starts_with("corpus:");
        // F1 substitutions
        let alpha: Vec<u8> = if tier.thorough() && !corpus {
            if n <= 2100 {
                (0..=255u8).collect()
            } else {
                ALPHA_MID.to_vec()
            }
        } else if corpus {
            ALPHA_QUICK[..6].to_vec()
        } else if s.big {
            vec![0, b' ', b'(', b'<', b'/', b'%', b'0', b'>']
        } else {
            ALPHA_QUICK.to_vec()
        };
        let stride = if corpus && n > 2000 { n / 1000 + 1 } else { 1 };
        for at in (0..n).step_by(stride) {
            for &c in &alpha {
                if s.bytes[at] != c {
                    jobs.push((si, json!({"fault": "substitute", "at": at, "byte": c})));
                }
            }
        }
        // F2 truncations and prefix drops
        let tstride = if n > 20_000 { n / 8000 + 1 } else { 1 };
        for at in (0..n).step_by(tstride) {
            jobs.push((si, json!({"fault": "truncate", "at": at})));
            if !corpus {
                jobs.push((si, json!({"fault": "drop-prefix", "at": at})));
            }
        }
        // F4 number tokens -> boundary tokens (and, thorough, every other number of the file)
        if !corpus || (tier.thorough() && n <= 40_000) {
            let toks = number_tokens(&s.bytes);
            let mut repl: Vec<String> = ["-1", "0", "1", "2147483647", "2147483648", "4294967295", "18446744073709551615", "99999999999999999999999999999"].iter().map(|s| s.to_string()).collect();
            if tier.thorough() && toks.len() <= 400 {
                let mut others: Vec<String> = toks.iter().map(|&(a, b)| String::from_utf8_lossy(&s.bytes[a..b]).to_string()).collect();
                others.sort();
                others.dedup();
                repl.extend(others);
            }
            for &(a, b) in &toks {
                for r in &repl {
                    if r.as_bytes() != &s.bytes[a..b] {
                        jobs.push((si, json!({"fault": "token", "at": a, "end": b, "text": r})));
                    }
                }
            }
        }
        // F7 multi-byte characters inside literal strings: a two- and a three-byte UTF-8 sequence inserted at, and written over, every
        // offset of every literal string (text strings, dates, names in strings are decoded and sliced by byte offsets)
        if !corpus {
            let b = &s.bytes;
            let mut i = 0;
            while i < n {
                if b[i] == b'(' && (i == 0 || b[i - 1] != b'\\') {
                    // find the matching parenthesis (balanced, escapes skipped), strings of up to 120 bytes
                    let mut depth = 0;
                    let mut j = i;
                    let mut end = None;
                    while j < n && j < i + 122 {
                        match b[j] {
                            b'\\' => j += 1,
                            b'(' => depth += 1,
                            b')' => {
                                depth -= 1;
                                if depth == 0 {
                                    end = Some(j);
                                    break;
                                }
                            }
                            _ => {}
                        }
                        j += 1;
                    }
                    if let Some(e) = end {
                        for at in i + 1..=e {
                            for seq in [&[0xC3u8, 0xA9][..], &[0xE2, 0x82, 0xAC][..]] {
                                jobs.push((si, json!({"fault": "insert-bytes", "at": at, "bytes": seq})));
                                if at + seq.len() <= e {
                                    jobs.push((si, json!({"fault": "overwrite-bytes", "at": at, "bytes": seq})));
                                }
                            }
                        }
                        i = e;
                    }
                }
                i += 1;
            }
        }
        // F8 hexadecimal string tokens (<...> of 2..32 digits): replaced by boundary values of the same length (all F, all 0, FF..FD,
        // FF..FE, 7F..F, 80..0), by one digit less, and by twice the digits
        if !corpus {
            let b = &s.bytes;
            let mut i = 0;
            while i + 1 < n {
                if b[i] == b'<' && b[i + 1] != b'<' && (i == 0 || b[i - 1] != b'<') {
                    if let Some(close) = (i + 1..n.min(i + 40)).find(|&j| b[j] == b'>') {
                        let body = &b[i + 1..close];
                        if body.len() >= 2 && body.iter().all(|c| c.is_ascii_hexdigit()) {
                            let k = body.len();
                            let mut variants: Vec<String> = vec!["F".repeat(k), "0".repeat(k), format!("{}D", "F".repeat(k - 1)), format!("{}E", "F".repeat(k - 1)), format!("7{}", "F".repeat(k - 1)), format!("8{}", "0".repeat(k - 1)), "F".repeat(k - 1), "F".repeat(2 * k)];
                            variants.dedup();
                            for v in variants {
                                if v.as_bytes() != body {
                                    jobs.push((si, json!({"fault": "token", "at": i + 1, "end": close, "text": v})));
                                }
                            }
                        }
                        i = close;
                    }
                }
                i += 1;
            }
        }
        // F6 small integer arrays ([a b c] with 2-4 integer tokens and nothing else): every assignment of {0, 1, 2^31-1} to
        // all their tokens at once (field widths, index pairs, boxes: code often divides by or multiplies such groups)
        if !corpus {
            let toks = number_tokens(&s.bytes);
            let b = &s.bytes;
            let mut i = 0;
            while i < n {
                if b[i] == b'[' {
                    if let Some(close) = (i + 1..n.min(i + 60)).find(|&j| b[j] == b']' || b[j] == b'[') {
                        if b[close] == b']' && b[i + 1..close].iter().all(|c| c.is_ascii_digit() || *c == b' ') {
                            let group: Vec<(usize, usize)> = toks.iter().cloned().filter(|&(a, e)| a > i && e <= close).collect();
                            if (2..=4).contains(&group.len()) && (!s.big || group.len() <= 3) {
                                let vals = ["0", "1", "2147483647"];
                                let k = group.len();
                                for code in 0..3usize.pow(k as u32) {
                                    let mut c = code;
                                    let mut list = vec![];
                                    for gi in 0..k {
                                        list.push(json!([group[gi].0, group[gi].1, vals[c % 3]]));
                                        c /= 3;
                                    }
                                    list.reverse();
                                    jobs.push((si, json!({"fault": "tokens", "at": i, "tokens": list})));
                                }
                            }
                        }
                    }
                }
                i += 1;
            }
        }
        if tier.thorough() && !corpus {
            // F3 deletions and insertions
            for at in 0..n {
                jobs.push((si, json!({"fault": "delete", "at": at})));
                if n <= 2_100 {
                    for &c in &ALPHA_QUICK {
                        jobs.push((si, json!({"fault": "insert", "at": at, "byte": c})));
                    }
                }
            }
            // F5 dictionary entries (approximated by `/Key value` spans up to the next `/` or `>>`) deleted / duplicated
            let b = &s.bytes;
            let mut i = 0;
            while i < n {
                if b[i] == b'/' {
                    let mut j = i + 1;
                    while j < n && b[j] != b'/' && !(b[j] == b'>' && j + 1 < n && b[j + 1] == b'>') && b[j] != b'\n' {
                        j += 1;
                    }
                    if j > i + 1 && j - i < 80 {
                        jobs.push((si, json!({"fault": "delete-range", "at": i, "end": j})));
                        jobs.push((si, json!({"fault": "duplicate-range", "at": i, "end": j})));
                    }
                    i = j.max(i + 1);
                } else {
                    i += 1;
                }
            }
            // pairs of substitutions inside every 16-byte window of the trailer / xref region of the small generated seeds
            if !s.big {
                let start = find_last(&s.bytes, b"xref").or_else(|| find_last(&s.bytes, b"/XRef")).unwrap_or(n.saturating_sub(200)).saturating_sub(40);
                for a in start..n {
                    for b2 in a + 1..(a + 16).min(n) {
                        for &c1 in &ALPHA_QUICK[..6] {
                            for &c2 in &ALPHA_QUICK[..6] {
                                jobs.push((si, json!({"fault": "substitute2", "at": a, "byte": c1, "at2": b2, "byte2": c2})));
                            }
                        }
                    }
                }
            }
        }
    }
    let total_jobs = jobs.len();
    let started = std::time::Instant::now();
    let wall_cap = if tier.thorough() { 3000 } else { 900 };
    let skipped = std::sync::atomic::AtomicU64::new(0);
    let parts: Vec<Tally> = jobs
        .par_chunks(64)
        .map(|chunk| {
            let mut t = Tally::new();
            if started.elapsed().as_secs() > wall_cap {
                skipped.fetch_add(chunk.len() as u64, std::sync::atomic::Ordering::Relaxed);
                return t;
            }
            for (si, case) in chunk {
                let s = &seeds[*si];
                let bytes = apply_fault(&s.bytes, case);
                let fault = case["fault"].as_str().unwrap_or("").to_string();
                judge(s, &bytes, &cfgs_for(s, tier), &fault, &mut t, &|| {
                    let mut c = case.clone();
                    c["engine"] = json!("c01.fault");
                    c["seed"] = json!(s.name);
                    c
                });
            }
            t
        })
        .collect();
    for p in parts {
        tally.merge(p);
    }
    let skipped = skipped.load(std::sync::atomic::Ordering::Relaxed);
    if skipped > 0 {
        tally.caps_hit.push(format!("c01: wall cap of {} s reached, {} of {} faulted inputs were not walked", wall_cap, skipped, total_jobs));
    }
    // the hand-built hostile structures of C14 are byte strings too: each is walked as it is under all four configurations
    let specials = crate::props::c14::special_cases();
    let n_specials = specials.len();
    let parts: Vec<Tally> = specials
        .par_iter()
        .map(|(name, bytes)| {
            let mut t = Tally::new();
            let seed = Seed { name: format!("special:{}", name), bytes: bytes.clone(), pw: vec![], big: false };
            judge(&seed, bytes, &CONFIGS, "none", &mut t, &|| json!({"engine": "c01.fault", "seed": seed.name, "fault": "none"}));
            t
        })
        .collect();
    for p in parts {
        tally.merge(p);
    }
    tally.states = tally.evaluations;
    tally.transitions = tally.evaluations;
    tally.validated = tally.evaluations;
    tally.sample(json!({"seed": "gen:rich-xrefstream", "fault": "substitute", "at": 4711, "byte": 40}));
    tally.sample(json!({"seed": "gen:small", "fault": "token", "text": "18446744073709551615", "note": "a number token replaced by a boundary token"}));
    tally.sample(json!({"seed": "corpus:invalid/crash-121-1.pdf", "fault": "truncate", "at": 100}));
    tally.notes.push(format!("{} crashes or missed deadlines did not reproduce when the same input was walked again in a fresh worker process; they are not counted", crate::isolate::TRANSIENT.load(std::sync::atomic::Ordering::Relaxed)));
    for s in &seeds {
        tally.notes.push(format!("seed {} ({} bytes)", s.name, s.bytes.len()));
    }
    CheckMeta {
        prop: "C01",
        level: "fault_enumeration",
        rule: format!("edit neighbourhood of {} seeds (generated: small, xref-stream chain, rich classic / xref-stream+objstm, hostile extras with /Prev chain, RC4-encrypted; corpus: the 9 former crash inputs{}): every single-byte substitution at every offset by {} byte values, every truncation and prefix drop, every number token replaced by 8 boundary tokens, every array of 2-4 integers set to every assignment of {{0, 1, 2^31-1}}, every hexadecimal string token replaced by 8 boundary values, a 2- and a 3-byte UTF-8 character inserted at and written over every offset of every literal string{}; plus the {} hand-built hostile structures of C14 as they are; {} faulted inputs in total, each opened strict/tolerant x cached/uncached ({}) and walked completely (pages, inherited attributes, resources, fonts with widths and Unicode maps, images, forms, operators, trees, every object by number, scan) in a worker process: no panic, no crash, no call over 10 s. Distinct by (bytes, configuration).", seeds.len(), if tier.thorough() { ", all valid and password-protected corpus files up to 40 KB" } else { "" }, if tier.thorough() { "all 256 (seeds <= 2 KB) / 24 (large generated seeds) / 6 at <= 1000 evenly spaced offsets (corpus files)" } else { "12 (small seeds) / 8 (large generated seeds) / 6 at <= 1000 evenly spaced offsets (corpus crash files)" }, if tier.thorough() { " and by every other number of the file, every single-byte deletion (generated seeds) and insertion (small seeds), dictionary-entry deletion/duplication, pairs of substitutions in 16-byte windows of the trailer region" } else { "" }, n_specials, total_jobs, if tier.thorough() { "all four on generated seeds, two on corpus files" } else { "all four on small seeds, strict-uncached + tolerant-cached on large ones" }),
        assumptions: vec!["no claim beyond the stated neighbourhoods of the seed set".into(), "resource proportionality is decided against fixed thresholds (10 s per walk, 3 GiB)".into()],
        exhaustive: true,
        bounds: json!({"faults_per_input": if tier.thorough() { 2 } else { 1 }}),
    }
}

fn find_last(buf: &[u8], pat: &[u8]) -> Option<usize> {
    (0..=buf.len().saturating_sub(pat.len())).rev().find(|&i| &buf[i..i + pat.len()] == pat)
}

pub fn replay(case: &Value, tally: &mut Tally) {
    let name = case["seed"].as_str().unwrap_or("");
    let seeds = seeds(Tier::Thorough);
    let special = name.strip_prefix("special:").and_then(|n| crate::props::c14::special_cases().into_iter().find(|(k, _)| k == n)).map(|(k, b)| Seed { name: format!("special:{}", k), bytes: b, pw: vec![], big: false });
    let Some(s) = seeds.iter().find(|s| s.name == name).or(special.as_ref()) else {
        println!("unknown seed {}", name);
        return;
    };
    let bytes = apply_fault(&s.bytes, case);
    println!("seed {} ({} bytes) fault {} -> {} bytes", name, s.bytes.len(), case["fault"], bytes.len());
    for cfg in CONFIGS.iter().filter(|c| case["config"].as_str().map(|n| n == c.name()).unwrap_or(true)) {
        let v = walk_isolated(&bytes, &s.pw, *cfg, true, false);
        println!("  {} -> {:?}", cfg.name(), v);
        if let Some((kind, detail)) = v.failure() {
            tally.fail("c01.fault", &kind, vec![], detail, case.clone());
        }
    }
}
