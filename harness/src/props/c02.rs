//! C02 — the newest cross-reference entry for an object always wins (histories of sections).
use crate::common::*;
use crate::core::*;
use crate::explore::*;
use crate::pdfgen::file::*;
use crate::pdfgen::val::*;
use pdf::file::FileOptions;
use pdf::object::{PlainRef, Resolve};
use serde_json::{json, Value};
use std::sync::atomic::{AtomicUsize, Ordering};

static N_OBJECTS: AtomicUsize = AtomicUsize::new(2);

const NSEC: &[&str] = &["1-section", "2-sections", "3-sections"];
const FORMAT: &[&str] = &["table", "stream"];
const SPLIT: &[&str] = &["runs", "per-entry", "per-entry-descending"];
const STATE: &[&str] = &["absent", "direct", "compressed", "free"];
const ROOT: &[&str] = &["root-unchanged", "own-root"];
const GROW: &[&str] = &["no-new-object", "new-object-6"];
const VALKIND: &[&str] = &["dict", "int", "name", "array"];
/// which object numbers the history varies, and whether an update that frees an object restates object 0 (the head of the free list)
const LAYOUT: &[&str] = &["objects-3..,head-restated", "objects-1..,head-restated", "objects-1..,head-not-restated", "objects-3..,head-not-restated"];

fn tagged(kind: usize, sec: usize, nr: u64) -> Val {
    let tag = (sec as i64 + 1) * 1000 + nr as i64;
    match kind {
        0 => Val::dict(vec![("Tag", Val::Int(tag)), ("Sec", Val::Int(sec as i64))]),
        1 => Val::Int(tag),
        2 => Val::Name(format!("T{}", tag).into_bytes()),
        _ => Val::Array(vec![Val::Int(tag), Val::name("x")]),
    }
}

#[derive(Clone, Debug)]
enum Expect {
    Value(Val),
    Missing,
}

pub fn history_case(ch: &mut Chooser, t: &mut Tally) {
    let nobj = N_OBJECTS.load(Ordering::Relaxed);
    let nsec = ch.pick_free_named("sections", NSEC) + 1;
    let valkind = ch.pick_named("valkind", VALKIND);
    let layout = ch.pick_named("layout", LAYOUT);
    // a producer may write the free entry of a deleted object without incrementing its generation
    let free_style = ch.pick_named("free-generation", &["incremented", "kept", "never-reusable(next 0, generation 65535)"]);
    let keep_gen = free_style == 1;
    let dead = free_style == 2;
    let first_nr: u64 = if layout == 1 || layout == 2 { 1 } else { 3 };
    let (cat_nr, pages_nr): (u64, u64) = if first_nr == 1 { (7, 8) } else { (1, 2) };
    let restate_head = layout == 0 || layout == 1;
    // bytes before the header: every offset of the file is then relative to the header, in every section
    let prefix = ch.pick_named("bytes-before-header", &["none", "13 bytes"]);
    let trailer_style = ch.pick_named("optional-trailer-entries", &["restated by every section", "/ID only in the first section"]);
    let mut fb = FileBuilder::new(if prefix == 1 { b"junk\r\nmore\n\n\0" } else { b"" });
    let mut cur_gen: std::collections::BTreeMap<u64, u16> = Default::default();
    let mut in_use: std::collections::BTreeMap<u64, bool> = Default::default();
    let mut expect: std::collections::BTreeMap<u64, Expect> = Default::default();
    let mut root_nr = cat_nr;
    let mut descr: Vec<String> = vec![];
    let mut last_id = vec![];
    for sec in 0..nsec {
        let format = ch.pick_free_named("format#", FORMAT);
        let split = ch.pick_named("split#", SPLIT);
        let own_root = if sec > 0 { ch.pick_named("root#", ROOT) } else { 0 };
        let mut states = vec![];
        for _ in 0..nobj {
            states.push(ch.pick_free_named("state#", STATE));
        }
        let grow = if sec > 0 { ch.pick_named("grow#", GROW) } else { 0 };
        // section 0 always carries catalog + pages
        if sec == 0 {
            let (_, pages) = minimal_catalog();
            let cat = Val::dict(vec![("Type", Val::name("Catalog")), ("Pages", Val::r(pages_nr))]);
            fb.add(cat_nr, 0, &cat);
            fb.add(pages_nr, 0, &pages);
            expect.insert(cat_nr, Expect::Value(cat));
            expect.insert(pages_nr, Expect::Value(pages));
        }
        if own_root == 1 {
            root_nr = 30 + sec as u64;
            let cat = Val::dict(vec![("Type", Val::name("Catalog")), ("Pages", Val::r(pages_nr)), ("PageLayout", Val::name("OneColumn"))]);
            fb.add(root_nr, 0, &cat);
            expect.insert(root_nr, Expect::Value(cat));
        }
        let mut members: Vec<(u64, Val)> = vec![];
        let mut d = format!("s{}:{}", sec, FORMAT[format]);
        for (i, &st) in states.iter().enumerate() {
            let nr = first_nr + i as u64;
            let g = *cur_gen.get(&nr).unwrap_or(&0);
            d.push_str(&format!(" {}={}", nr, STATE[st]));
            match st {
                0 => {}
                1 => {
                    if g == 65535 {
                        return; // a number freed for good cannot be used again: not well-formed
                    }
                    let v = tagged(valkind, sec, nr);
                    fb.add(nr, g, &v);
                    in_use.insert(nr, true);
                    expect.insert(nr, Expect::Value(v));
                }
                2 => {
                    if format == 0 || g == 65535 {
                        return; // compressed objects need a stream section; a number freed for good is not used again
                    }
                    if g != 0 {
                        // the number was freed (and perhaps used again as `nr g obj`) before: producers that
                        // re-use numbers put them into object streams all the same, where the generation is
                        // implicitly 0 again; the newest section still decides
                        d.push_str("(generation-restarts-at-0)");
                        cur_gen.insert(nr, 0);
                    }
                    let v = tagged(valkind, sec, nr);
                    members.push((nr, v.clone()));
                    in_use.insert(nr, true);
                    expect.insert(nr, Expect::Value(v));
                }
                _ => {
                    let was = *in_use.get(&nr).unwrap_or(&false);
                    let ng = if dead { 65535 } else if was && !keep_gen { g + 1 } else { g };
                    cur_gen.insert(nr, ng);
                    in_use.insert(nr, false);
                    fb.free(nr, ng);
                    expect.insert(nr, Expect::Missing);
                }
            }
        }
        if grow == 1 {
            let v = tagged(valkind, sec, 6);
            fb.add(6, 0, &v);
            expect.insert(6, Expect::Value(v));
            d.push_str(" 6=direct");
        }
        if !members.is_empty() {
            fb.add_objstm(20 + sec as u64, &members, &ObjStmOpts::default());
        }
        // link the free list: re-list every free object with its successor, object 0 is the head
        let free_now: Vec<u64> = in_use.iter().filter(|(_, &u)| !u).map(|(&n, _)| n).collect();
        let touched_free = states.iter().any(|&s| s == 3);
        if touched_free || sec == 0 {
            let mut next = 0u64;
            for &n in free_now.iter().rev() {
                let gen = *cur_gen.get(&n).unwrap_or(&0);
                if gen == 65535 {
                    // freed for good: not linked into the free list
                    fb.section.insert(n, Entry::Free { next: 0, gen });
                    continue;
                }
                fb.section.insert(n, Entry::Free { next, gen });
                next = n;
            }
            // (the first section always lists object 0; an update need not)
            if restate_head || sec == 0 {
                fb.section.insert(0, Entry::Free { next, gen: 65535 });
            }
        }
        let id = format!("id-of-section-{}", sec);
        // optional trailer entries belong to the section that writes them: an update that leaves /ID out has none
        let with_id = trailer_style == 0 || sec == 0;
        last_id = if with_id { id.clone().into_bytes() } else { vec![] };
        let mut extra = vec![("Root", Val::r(root_nr))];
        if with_id {
            extra.push(("ID", Val::Array(vec![Val::str(&id), Val::str(&id)])));
        }
        let sp = match split {
            0 => Split::Runs,
            1 => Split::PerEntry,
            _ => Split::PerEntryDescending,
        };
        if format == 0 {
            fb.finish_table(&extra, sp);
        } else {
            let mut o = XrefStreamOpts::new(10 + sec as u64);
            o.split = sp;
            o.flate = sec % 2 == 1;
            fb.finish_stream(&extra, &o);
        }
        descr.push(d);
    }
    let size = fb.size;
    let bytes = fb.bytes();
    t.evaluations += 1;
    if nsec > 1 {
        t.distinct.insert(fnv(&bytes));
    }
    if ch.want_sample {
        println!("history: {:?}\nfile:\n{}", descr, String::from_utf8_lossy(&bytes));
    }
    let res = catch(|| -> std::result::Result<(), (String, String)> {
        let file = match FileOptions::uncached().load(bytes.clone()) {
            Ok(f) => f,
            Err(e) => return Err((format!("load-error:{}", err_variant(&e)), truncate(&format!("{}", err_root(&e)), 200))),
        };
        let r = file.resolver();
        for nr in 1..size {
            // xref streams and object streams of the file itself are not part of the history model
            if (10..13).contains(&nr) || (20..23).contains(&nr) {
                continue;
            }
            let got = r.resolve(PlainRef { id: nr, gen: 0 });
            match (expect.get(&nr).cloned().unwrap_or(Expect::Missing), got) {
                (Expect::Value(v), Ok(p)) => {
                    if let Err(m) = cmp_prim(&p, &v, false, &r) {
                        return Err(("stale-or-wrong-value".into(), format!("object {}: {}", nr, m)));
                    }
                }
                (Expect::Value(v), Err(e)) => return Err((format!("error:{}", err_variant(&e)), format!("object {} should be {}: {}", nr, show_val(&v), truncate(&format!("{}", err_root(&e)), 160)))),
                (Expect::Missing, Ok(p)) => return Err(("free-or-undefined-resolves".into(), format!("object {} is free/undefined in the newest section that mentions it but resolves to {}", nr, show_prim(&p)))),
                (Expect::Missing, Err(e)) => {
                    let v = err_variant(&e);
                    if !matches!(v.as_str(), "FreeObject" | "NullRef" | "UnspecifiedXRefEntry") {
                        return Err((format!("missing-object-error:{}", v), format!("object {} is free/undefined; expected a free/missing error, got {}", nr, truncate(&format!("{}", err_root(&e)), 160))));
                    }
                }
            }
        }
        let tr = &file.trailer;
        let got_root = tr.root.get_ref().get_inner().id;
        if got_root != root_nr {
            return Err(("trailer-root".into(), format!("trailer /Root is object {} but the newest section says {}", got_root, root_nr)));
        }
        if tr.size as u64 != size {
            return Err(("trailer-size".into(), format!("trailer /Size {} expected {}", tr.size, size)));
        }
        if tr.id.get(0).map(|s| s.as_bytes().to_vec()).unwrap_or_default() != last_id {
            return Err(("trailer-id".into(), format!("trailer /ID {:?}, the newest section has {}", tr.id, if last_id.is_empty() { "none".to_string() } else { show_bytes(&last_id) })));
        }
        Ok(())
    });
    let verdict = match res {
        Err((loc, msg)) => Err((panic_kind(&loc), msg)),
        Ok(r) => r,
    };
    match verdict {
        Ok(()) => t.outcome("ok"),
        Err((kind, detail)) => {
            t.outcome(&kind);
            let mut rv = ch.replay_value("c02.history");
            rv["n_objects"] = json!(nobj);
            t.fail("c02.history", &kind, ch.deviations(), format!("{:?}: {}", descr, detail), rv);
        }
    }
}

// ------------------------------------------------------------------------------------------------
// long chains: many updates of the same few objects (the number of sections exceeds the number of objects)

const CHAIN_LEN: &[&str] = &["4", "5", "6", "7", "8", "9", "10", "12", "16", "24"];
const CHAIN_FORMAT: &[&str] = &["all-tables", "all-streams", "alternating", "streams-then-tables"];
const CHAIN_XREF_NR: &[&str] = &["fresh-number-per-xref-stream", "same-number-reused"];
const CHAIN_TOUCH: &[&str] = &["rewrite-round-robin", "rewrite-and-free-alternately", "always-object-3"];
const CHAIN_CACHE: &[&str] = &["uncached", "cached"];

pub fn chain_case(ch: &mut Chooser, t: &mut Tally) {
    let nsec: usize = CHAIN_LEN[ch.pick_free_named("sections", CHAIN_LEN)].parse().unwrap();
    let fmt = ch.pick_free_named("formats", CHAIN_FORMAT);
    let xnr = ch.pick_free_named("xref-stream-number", CHAIN_XREF_NR);
    let touch = ch.pick_free_named("touch", CHAIN_TOUCH);
    let cache = ch.pick_free_named("cache", CHAIN_CACHE);
    let mut fb = FileBuilder::new(b"");
    let mut expect: std::collections::BTreeMap<u64, Expect> = Default::default();
    let mut cur_gen: std::collections::BTreeMap<u64, u16> = Default::default();
    let mut in_use: std::collections::BTreeMap<u64, bool> = Default::default();
    let (cat, pages) = minimal_catalog();
    fb.add(1, 0, &cat);
    fb.add(2, 0, &pages);
    expect.insert(1, Expect::Value(cat));
    expect.insert(2, Expect::Value(pages));
    let mut xref_numbers: Vec<u64> = vec![];
    let mut last_id = vec![];
    for sec in 0..nsec {
        let stream = match fmt {
            0 => false,
            1 => true,
            2 => sec % 2 == 1,
            _ => sec < nsec / 2,
        };
        // which object this section touches, and how
        let nr = match touch {
            2 => 3,
            _ => 3 + (sec % 3) as u64,
        };
        let free = touch == 1 && sec % 2 == 1 && *in_use.get(&nr).unwrap_or(&false);
        let g = *cur_gen.get(&nr).unwrap_or(&0);
        if sec == 0 {
            for n in 3..6u64 {
                let v = tagged(0, 0, n);
                fb.add(n, 0, &v);
                in_use.insert(n, true);
                expect.insert(n, Expect::Value(v));
            }
        } else if free {
            cur_gen.insert(nr, g + 1);
            in_use.insert(nr, false);
            fb.free(nr, g + 1);
            expect.insert(nr, Expect::Missing);
        } else {
            let v = tagged(sec % 4, sec, nr);
            fb.add(nr, g, &v);
            in_use.insert(nr, true);
            expect.insert(nr, Expect::Value(v));
        }
        let id = format!("id-of-section-{}", sec);
        last_id = id.clone().into_bytes();
        let extra = [("Root", Val::r(1)), ("ID", Val::Array(vec![Val::str(&id), Val::str(&id)]))];
        if stream {
            let x = if xnr == 1 { 6 } else { 6 + sec as u64 };
            xref_numbers.push(x);
            let mut o = XrefStreamOpts::new(x);
            o.flate = sec % 2 == 1;
            fb.finish_stream(&extra, &o);
        } else {
            fb.finish_table(&extra, Split::Runs);
        }
    }
    let size = fb.size;
    let bytes = fb.bytes();
    t.evaluations += 1;
    t.distinct.insert(fnv_mix(fnv(&bytes), cache as u64));
    if ch.want_sample {
        println!("chain of {} sections:\n{}", nsec, String::from_utf8_lossy(&bytes));
    }
    let check = |r: &dyn Fn(u64) -> pdf::error::Result<pdf::primitive::Primitive>, root: u64, tsize: i32, tid: Option<Vec<u8>>, cmp: &dyn Fn(&pdf::primitive::Primitive, &Val) -> std::result::Result<(), String>| -> std::result::Result<(), (String, String)> {
        for nr in 1..size {
            if xref_numbers.contains(&nr) {
                continue;
            }
            match (expect.get(&nr).cloned().unwrap_or(Expect::Missing), r(nr)) {
                (Expect::Value(v), Ok(p)) => {
                    if let Err(m) = cmp(&p, &v) {
                        return Err(("stale-or-wrong-value".into(), format!("object {}: {}", nr, m)));
                    }
                }
                (Expect::Value(v), Err(e)) => return Err((format!("error:{}", err_variant(&e)), format!("object {} should be {}: {}", nr, show_val(&v), truncate(&format!("{}", err_root(&e)), 160)))),
                (Expect::Missing, Ok(p)) => return Err(("free-or-undefined-resolves".into(), format!("object {} is free/undefined in the newest section that mentions it but resolves to {}", nr, show_prim(&p)))),
                (Expect::Missing, Err(e)) => {
                    let v = err_variant(&e);
                    if !matches!(v.as_str(), "FreeObject" | "NullRef" | "UnspecifiedXRefEntry") {
                        return Err((format!("missing-object-error:{}", v), format!("object {}: {}", nr, truncate(&format!("{}", err_root(&e)), 160))));
                    }
                }
            }
        }
        if root != 1 {
            return Err(("trailer-root".into(), format!("trailer /Root is object {}", root)));
        }
        if tsize as u64 != size {
            return Err(("trailer-size".into(), format!("trailer /Size {} expected {}", tsize, size)));
        }
        if tid != Some(last_id.clone()) {
            return Err(("trailer-id".into(), "trailer /ID is not the newest section's".into()));
        }
        Ok(())
    };
    let res = catch(|| -> std::result::Result<(), (String, String)> {
        if cache == 0 {
            let file = FileOptions::uncached().load(bytes.clone()).map_err(|e| (format!("load-error:{}", err_variant(&e)), truncate(&format!("{}", err_root(&e)), 200)))?;
            let r = file.resolver();
            check(&|nr| r.resolve(PlainRef { id: nr, gen: 0 }), file.trailer.root.get_ref().get_inner().id, file.trailer.size, file.trailer.id.get(0).map(|s| s.as_bytes().to_vec()), &|p, v| cmp_prim(p, v, false, &r))
        } else {
            let file = FileOptions::cached().load(bytes.clone()).map_err(|e| (format!("load-error:{}", err_variant(&e)), truncate(&format!("{}", err_root(&e)), 200)))?;
            let r = file.resolver();
            check(&|nr| r.resolve(PlainRef { id: nr, gen: 0 }), file.trailer.root.get_ref().get_inner().id, file.trailer.size, file.trailer.id.get(0).map(|s| s.as_bytes().to_vec()), &|p, v| cmp_prim(p, v, false, &r))
        }
    });
    let verdict = match res {
        Err((loc, msg)) => Err((panic_kind(&loc), msg)),
        Ok(r) => r,
    };
    match verdict {
        Ok(()) => t.outcome("ok"),
        Err((kind, detail)) => {
            t.outcome(&kind);
            let mut devs = vec![format!("sections={}", nsec), format!("formats={}", CHAIN_FORMAT[fmt])];
            if xnr == 1 {
                devs.push(format!("xref-stream-number={}", CHAIN_XREF_NR[xnr]));
            }
            if touch != 0 {
                devs.push(format!("touch={}", CHAIN_TOUCH[touch]));
            }
            if cache == 1 {
                devs.push("cache=cached".into());
            }
            t.fail("c02.chain", &kind, devs, detail, ch.replay_value("c02.chain"));
        }
    }
}

pub fn run(tier: Tier, _seed: u64, tally: &mut Tally) -> CheckMeta {
    let nobj = if tier.thorough() { 3 } else { 2 };
    if tier.thorough() {
        // two objects with up to two option deviations first, then three objects with one
        N_OBJECTS.store(2, Ordering::Relaxed);
        explore("c02.history", Limits::new(2).wall(1500), tally, history_case);
    }
    if !tier.thorough() {
        N_OBJECTS.store(2, Ordering::Relaxed);
        explore("c02.history", Limits::new(1).wall(600), tally, history_case);
    }
    N_OBJECTS.store(3, Ordering::Relaxed);
    explore("c02.history", Limits::new(if tier.thorough() { 1 } else { 0 }).wall(if tier.thorough() { 3000 } else { 600 }), tally, history_case);
    explore("c02.chain", Limits::new(0), tally, chain_case);
    tally.validated = tally.evaluations;
    tally.sample(json!({"history": ["s0:table 3=direct 4=direct", "s1:stream 3=compressed 4=free", "s2:table 3=absent 4=direct"], "oracle": "resolve(3) = value of section 1, resolve(4) = value of section 2 (generation 1)"}));
    tally.sample(json!({"history": ["s0:stream 3=compressed 4=absent", "s1:stream 3=free 4=compressed"], "oracle": "resolve(3) -> FreeObject"}));
    CheckMeta {
        prop: "C02",
        level: "model_checking",
        rule: format!("full product of update histories: 1..3 sections x {{table, stream}} x subsection split x per object number ({} numbers) {{absent, direct, compressed, free}} as free dimensions (full product), with option deviations (quick: <= 1 for two object numbers, 0 for three; thorough: <= 2 for two, <= 1 for three) among {{subsection split per entry, own /Root, a new object number, value kind int/name/array, layout: varied object numbers start at 1 instead of 3 / an update that frees objects does not restate object 0, free entries keep the generation of the deleted object or mark it never reusable (next 0, generation 65535), 13 bytes before the header, /ID written by the first section only}}; ill-formed histories (compressed object in a table section, re-use of a number freed with generation 65535) are skipped and not counted; a number that was freed before may come back inside an object stream, where its generation is implicitly 0 again. Each file is produced by the independent assembler (generations bumped on free/re-use, free list linked), loaded with the library and every object number below /Size resolved and compared with the reference model (map number -> newest mention); trailer root/size/ID must be the newest section's. Non-trivial = more than one section; distinct by file hash. Long chains: full product of {:?} sections x formats {:?} x xref stream numbering {:?} x touched objects {:?} x {:?}: three objects rewritten (or freed and re-used) again and again, so that sections outnumber objects.", nobj, CHAIN_LEN, CHAIN_FORMAT, CHAIN_XREF_NR, CHAIN_TOUCH, CHAIN_CACHE),
        assumptions: vec!["hybrid-reference files (/XRefStm) are not generated".into(), "object numbers of the file's own xref/object streams are not compared".into()],
        exhaustive: true,
        bounds: json!({"sections": 3, "objects": 3, "option_deviations": if tier.thorough() { 2 } else { 1 }}),
    }
}

pub fn replay(case: &Value, tally: &mut Tally) {
    let picks: Vec<u32> = case["picks"].as_array().map(|a| a.iter().map(|x| x.as_u64().unwrap() as u32).collect()).unwrap_or_default();
    N_OBJECTS.store(case["n_objects"].as_u64().unwrap_or(2) as usize, Ordering::Relaxed);
    if case["engine"].as_str() == Some("c02.chain") {
        run_one(&picks, tally, chain_case);
    } else {
        run_one(&picks, tally, history_case);
    }
}
