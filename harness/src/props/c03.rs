//! C03 — every specification-conformant spelling of an object parses to the value it denotes.
use crate::common::*;
use crate::core::*;
use crate::explore::*;
use crate::pdfgen::val::*;
use pdf::object::{NoResolve, PlainRef};
use pdf::parser::{parse, parse_indirect_object, parse_stream, parse_with_lexer, Context, Lexer, ParseFlags};
use serde_json::{json, Value};
use std::sync::OnceLock;

pub struct Catalogue {
    pub vals: Vec<(String, Val)>,
    pub names: &'static [&'static str],
}

pub fn atoms() -> Vec<(String, Val)> {
    let mut v: Vec<(String, Val)> = vec![];
    let mut add = |n: &str, x: Val| v.push((n.to_string(), x));
    add("int:7", Val::Int(7));
    add("int:0", Val::Int(0));
    add("int:-1", Val::Int(-1));
    add("int:max", Val::Int(i32::MAX as i64));
    add("int:min", Val::Int(i32::MIN as i64));
    add("real:0.5", Val::real("0.5"));
    add("real:-0.002", Val::real("-0.002"));
    add("real:4.0", Val::real("4.0"));
    add("real:34.5", Val::real("34.5"));
    add("real:1e-7", Val::real("0.0000001"));
    add("real:123456.75", Val::real("123456.75"));
    add("str:abc", Val::str("abc"));
    add("str:empty", Val::Str(vec![]));
    add("str:balanced", Val::str("a(b)c"));
    add("str:open", Val::str("("));
    add("str:close", Val::str(")"));
    add("str:backslash", Val::str("\\"));
    add("str:LF", Val::str("a\nb"));
    add("str:CR", Val::str("a\rb"));
    add("str:CRLF", Val::str("\r\n"));
    add("str:HT-BS-FF", Val::Str(vec![9, 8, 12]));
    add("str:high", Val::Str(vec![0x80, 0xff]));
    add("str:NUL", Val::Str(vec![0]));
    add("str:ctl-then-digit", Val::Str(vec![1, b'8', 0o33, b'7']));
    add("str:ctl-then-8-9", Val::Str(vec![7, b'9', 0o10, b'8', b'\r', b'9', 0o77, b'8']));
    add("str:low-nibble-0", Val::Str(vec![0x90, 0x1f, 0xa0]));
    add("str:z", Val::str("z"));
    add("str:delims", Val::str("%<>[]{}/ x"));
    add("name:Name", Val::name("Name"));
    add("name:empty", Val::Name(vec![]));
    add("name:space", Val::name("A B"));
    add("name:hash", Val::name("A#B"));
    add("name:slash-paren", Val::name("A/B(C"));
    add("name:utf8", Val::Name("é".as_bytes().to_vec()));
    add("name:1.5", Val::name("1.5"));
    add("name:true", Val::name("true"));
    add("bool:true", Val::Bool(true));
    add("bool:false", Val::Bool(false));
    add("null", Val::Null);
    add("ref:1-0", Val::Ref(1, 0));
    add("ref:12-65535", Val::Ref(12, 65535));
    v
}

fn kind_reps() -> Vec<(&'static str, Val)> {
    vec![
        ("int", Val::Int(7)),
        ("real", Val::real("0.5")),
        ("str", Val::str("ab")),
        ("name", Val::name("Nm")),
        ("bool", Val::Bool(true)),
        ("null", Val::Null),
        ("ref", Val::Ref(3, 0)),
        ("arr", Val::Array(vec![Val::Int(1)])),
        ("dict", Val::dict(vec![("K", Val::Int(1))])),
    ]
}

pub fn catalogue() -> &'static Catalogue {
    static C: OnceLock<Catalogue> = OnceLock::new();
    C.get_or_init(|| {
        let mut vals = atoms();
        vals.push(("arr:empty".into(), Val::Array(vec![])));
        vals.push(("dict:empty".into(), Val::Dict(vec![])));
        vals.push(("arr:ints-then-ref".into(), Val::Array(vec![Val::Int(1), Val::Int(0), Val::Int(1), Val::Ref(1, 0), Val::Int(5)])));
        let reps = kind_reps();
        for (an, a) in &reps {
            for (bn, b) in &reps {
                vals.push((format!("arr:{}+{}", an, bn), Val::Array(vec![a.clone(), b.clone()])));
            }
        }
        for (an, a) in &reps {
            for (bn, b) in &reps {
                vals.push((format!("dict:{}+{}", an, bn), Val::dict(vec![("A", a.clone()), ("B", b.clone())])));
            }
        }
        vals.push(("nest3".into(), Val::Array(vec![Val::dict(vec![("K", Val::Array(vec![Val::Int(7), Val::name("N")]))]), Val::Array(vec![Val::Array(vec![Val::Null])])])));
        let mut deep = Val::Int(7);
        for _ in 0..20 {
            deep = Val::Array(vec![deep]);
        }
        vals.push(("arr:depth20".into(), deep));
        let mut deep = Val::Int(7);
        for i in 0..20 {
            deep = if i % 2 == 0 { Val::dict(vec![("D", deep)]) } else { Val::Array(vec![deep]) };
        }
        vals.push(("mixed:depth20".into(), deep));
        let names: Vec<&'static str> = vals.iter().map(|(n, _)| &*Box::leak(n.clone().into_boxed_str())).collect();
        Catalogue { vals, names: Box::leak(names.into_boxed_slice()) }
    })
}

const CTX: &[&str] = &["alone", "alone+trailing-ws", "sequence-of-3", "indirect-object", "indirect-in-dict"];

fn outcome_of(r: std::result::Result<pdf::error::Result<std::result::Result<(), String>>, (String, String)>) -> std::result::Result<(), (String, String)> {
    match r {
        Err((loc, msg)) => Err((panic_kind(&loc), msg)),
        Ok(Err(e)) => Err((format!("error:{}", err_variant(&e)), truncate(&format!("{}", err_root(&e)), 200))),
        Ok(Ok(Err(m))) => Err(("wrong-value".into(), m)),
        Ok(Ok(Ok(()))) => Ok(()),
    }
}

pub fn object_case(ch: &mut Chooser, t: &mut Tally) {
    let cat = catalogue();
    let vi = ch.pick_free_named("val", cat.names);
    let ctx = ch.pick_free_named("ctx", CTX);
    let v = &cat.vals[vi].1;
    if ctx == 4 && cat.names[vi].ends_with("depth20") {
        // wrapping in a dictionary would exceed the supported nesting depth: not in the property's domain
        return;
    }
    let mut toks = vec![];
    tokens(ch, v, &mut toks);
    let mut buf = vec![];
    let res;
    match ctx {
        0 | 1 => {
            join(ch, &toks, &mut buf);
            if ctx == 1 {
                let k = ch.pick_named("trail", SEP_REQ);
                buf.extend_from_slice(sep_bytes(SEP_REQ[k]));
            }
            res = catch(|| {
                let p = parse(&buf, &NoResolve, ParseFlags::ANY)?;
                Ok(cmp_prim(&p, v, false, &NoResolve))
            });
        }
        2 => {
            // v, 42, v in one buffer: each parse must consume exactly its own text
            let mut all = toks.clone();
            all.push(Tok { bytes: b"42".to_vec(), starts_delim: false, ends_delim: false });
            all.extend(toks.iter().cloned());
            join(ch, &all, &mut buf);
            res = catch(|| {
                let mut lexer = Lexer::new(&buf);
                let a = parse_with_lexer(&mut lexer, &NoResolve, ParseFlags::ANY)?;
                if let Err(m) = cmp_prim(&a, v, false, &NoResolve) {
                    return Ok(Err(format!("1st of sequence: {}", m)));
                }
                let b = parse_with_lexer(&mut lexer, &NoResolve, ParseFlags::ANY)?;
                if let Err(m) = cmp_prim(&b, &Val::Int(42), false, &NoResolve) {
                    return Ok(Err(format!("2nd of sequence (42): {}", m)));
                }
                let c = parse_with_lexer(&mut lexer, &NoResolve, ParseFlags::ANY)?;
                if let Err(m) = cmp_prim(&c, v, false, &NoResolve) {
                    return Ok(Err(format!("3rd of sequence: {}", m)));
                }
                if lexer.get_pos() != buf.len() {
                    return Ok(Err(format!("lexer at {} after the last object, buffer has {} bytes", lexer.get_pos(), buf.len())));
                }
                Ok(Ok(()))
            });
        }
        _ => {
            let reg = |s: &str| Tok { bytes: s.as_bytes().to_vec(), starts_delim: false, ends_delim: false };
            let mut all = vec![reg("12"), reg("0"), reg("obj")];
            let expect = if ctx == 4 {
                all.push(Tok { bytes: b"<<".to_vec(), starts_delim: true, ends_delim: true });
                all.push(Tok { bytes: b"/V".to_vec(), starts_delim: true, ends_delim: false });
                all.extend(toks.iter().cloned());
                all.push(Tok { bytes: b">>".to_vec(), starts_delim: true, ends_delim: true });
                Val::dict(vec![("V", v.clone())])
            } else {
                all.extend(toks.iter().cloned());
                v.clone()
            };
            all.push(reg("endobj"));
            join(ch, &all, &mut buf);
            // a file continues after endobj
            buf.extend_from_slice(b"\n13 0 obj\nnull\nendobj\n");
            res = catch(|| {
                let mut lexer = Lexer::new(&buf);
                let (r, p) = parse_indirect_object(&mut lexer, &NoResolve, None, ParseFlags::ANY)?;
                if r != (PlainRef { id: 12, gen: 0 }) {
                    return Ok(Err(format!("object id read as {:?}", r)));
                }
                if let Err(m) = cmp_prim(&p, &expect, false, &NoResolve) {
                    return Ok(Err(m));
                }
                // the following object must be readable from where the lexer stands
                let (r2, p2) = parse_indirect_object(&mut lexer, &NoResolve, None, ParseFlags::ANY)?;
                if r2.id != 13 || p2 != pdf::primitive::Primitive::Null {
                    return Ok(Err(format!("next object misread as {:?} {}", r2, show_prim(&p2))));
                }
                Ok(Ok(()))
            });
        }
    }
    t.evaluations += 1;
    if ch.n_deviations() > 0 {
        t.distinct.insert(fnv_mix(fnv(&buf), ctx as u64));
    }
    if ch.want_sample {
        println!("ctx={} value={}\n input: {}", CTX[ctx], show_val(v), show_bytes(&buf));
    }
    match outcome_of(res) {
        Ok(()) => t.outcome("ok"),
        Err((kind, detail)) => {
            t.outcome(&kind);
            t.fail("c03.object", &kind, ch.deviations(), format!("input `{}`: {}", show_bytes(&buf), detail), ch.replay_value("c03.object"));
        }
    }
}

// ---------------------------------------------------------------- streams
const STREAM_DATA: &[&str] = &["abc", "empty", "contains-endstream", "ends-with-CR", "binary", "ends-with-LF"];
const EOL_AFTER: &[&str] = &["LF", "CRLF"];
const EOL_BEFORE: &[&str] = &["LF", "CRLF", "CR", "none"];
const STREAM_ENTRY: &[&str] = &["parse_indirect_object", "parse_stream"];
const STREAM_DICT: &[&str] = &["length-only", "length-last", "length-first+name+array"];

fn stream_data(i: usize) -> Vec<u8> {
    match i {
        0 => b"abc".to_vec(),
        1 => vec![],
        2 => b"x endstream endobj y".to_vec(),
        3 => b"abc\r".to_vec(),
        4 => vec![0, 255, 10, 13, 37, 40, 128],
        _ => b"abc\n".to_vec(),
    }
}

pub fn stream_case(ch: &mut Chooser, t: &mut Tally) {
    let entry = ch.pick_free_named("entry", STREAM_ENTRY);
    let di = ch.pick_free_named("data", STREAM_DATA);
    let dd = ch.pick_free_named("dict", STREAM_DICT);
    let data = stream_data(di);
    let len = Val::Int(data.len() as i64);
    let dict = match dd {
        0 => Val::dict(vec![("Length", len)]),
        1 => Val::dict(vec![("Type", Val::name("XObject")), ("Length", len)]),
        _ => Val::dict(vec![("Length", len), ("Filter", Val::Array(vec![])), ("S", Val::str("s"))]),
    };
    let mut toks = vec![];
    if entry == 0 {
        let reg = |s: &str| Tok { bytes: s.as_bytes().to_vec(), starts_delim: false, ends_delim: false };
        toks.extend([reg("12"), reg("0"), reg("obj")]);
    }
    tokens(ch, &dict, &mut toks);
    toks.push(Tok { bytes: b"stream".to_vec(), starts_delim: false, ends_delim: false });
    let mut buf = vec![];
    join(ch, &toks, &mut buf);
    let after = ch.pick_named("eol-after-stream", EOL_AFTER);
    buf.extend_from_slice([&b"\n"[..], &b"\r\n"[..]][after]);
    let data_start = buf.len();
    buf.extend_from_slice(&data);
    let before = ch.pick_named("eol-before-endstream", EOL_BEFORE);
    buf.extend_from_slice([&b"\n"[..], &b"\r\n"[..], &b"\r"[..], &b""[..]][before]);
    buf.extend_from_slice(b"endstream");
    if entry == 0 {
        let k = ch.pick_named("sep", SEP_REQ);
        buf.extend_from_slice(sep_bytes(SEP_REQ[k]));
        buf.extend_from_slice(b"endobj\n");
    } else {
        // parse_stream on a buffer: either the buffer ends here or more follows
        let more = ch.pick_named("after-endstream", &["LF", "nothing", "LF+more"]);
        buf.extend_from_slice([&b"\n"[..], &b""[..], &b"\nendobj\n"[..]][more]);
    }
    let _ = data_start;
    let expect = match &dict {
        Val::Dict(d) => Val::Stream(d.clone(), data.clone()),
        _ => unreachable!(),
    };
    let resolver = BufResolve::new(&buf);
    let res = catch(|| {
        if entry == 0 {
            let mut lexer = Lexer::new(&buf);
            let (r, p) = parse_indirect_object(&mut lexer, &resolver, None, ParseFlags::ANY)?;
            if r.id != 12 {
                return Ok(Err(format!("object id read as {:?}", r)));
            }
            Ok(cmp_prim(&p, &expect, false, &resolver))
        } else {
            let ctx = Context { decoder: None, id: PlainRef { id: 12, gen: 0 } };
            let s = parse_stream(&buf, &resolver, &ctx)?;
            Ok(cmp_prim(&pdf::primitive::Primitive::Stream(s), &expect, false, &resolver))
        }
    });
    t.evaluations += 1;
    if ch.n_deviations() > 0 {
        t.distinct.insert(fnv_mix(fnv(&buf), 77 + entry as u64));
    }
    if ch.want_sample {
        println!("entry={} input: {}", STREAM_ENTRY[entry], show_bytes(&buf));
    }
    match outcome_of(res) {
        Ok(()) => t.outcome("ok"),
        Err((kind, detail)) => {
            t.outcome(&kind);
            t.fail("c03.stream", &kind, ch.deviations(), format!("input `{}`: {}", show_bytes(&buf), detail), ch.replay_value("c03.stream"));
        }
    }
}

pub fn run(tier: Tier, _seed: u64, tally: &mut Tally) -> CheckMeta {
    let bound = if tier.thorough() { 2 } else { 1 };
    explore("c03.object", Limits::new(bound).wall(if tier.thorough() { 3000 } else { 600 }), tally, object_case);
    explore("c03.stream", Limits::new(bound + 1), tally, stream_case);
    {
        // atoms alone with up to 2 (thorough: 3) deviations
        explore("c03.atoms3", Limits::new(if tier.thorough() { 3 } else { 2 }).wall(1200), tally, |ch, t| {
            let cat = catalogue();
            let n_atoms = atoms().len();
            let names: &'static [&'static str] = &cat.names[..n_atoms];
            let vi = ch.pick_free_named("val", names);
            let v = &cat.vals[vi].1;
            let buf = spell(ch, v);
            t.evaluations += 1;
            t.distinct.insert(fnv(&buf));
            let res = catch(|| {
                let p = parse(&buf, &NoResolve, ParseFlags::ANY)?;
                Ok(cmp_prim(&p, v, false, &NoResolve))
            });
            match outcome_of(res) {
                Ok(()) => t.outcome("ok"),
                Err((kind, detail)) => {
                    t.outcome(&kind);
                    t.fail("c03.object", &kind, ch.deviations(), format!("input `{}`: {}", show_bytes(&buf), detail), json!({"engine": "c03.atoms3", "picks": ch.picks()}));
                }
            }
        });
    }
    tally.validated = tally.evaluations;
    tally.sample(json!({"engine": "c03.object", "value": "arr:int+ref", "ctx": "sequence-of-3", "deviation": "sep=%c-CR", "input": "[7%c\r3 0 R]42[7 3 0 R]"}));
    tally.sample(json!({"engine": "c03.object", "value": "str:LF", "ctx": "alone", "deviation": "strbyte=2 (raw CR denotes LF)", "input": "(a\rb)"}));
    tally.sample(json!({"engine": "c03.stream", "input": "12 0 obj<</Length 3>>stream\r\nabc\r\nendstream endobj"}));
    CheckMeta {
        prop: "C03",
        level: "model_checking",
        rule: format!(
            "bounded choice-tree search over the producer's spelling choice points: {} values (atoms of every kind, all ordered kind pairs in arrays and dictionaries, nesting 3 and 20) x 5 parse contexts (parse alone / with trailing white-space / sequence of three through parse_with_lexer / parse_indirect_object bare / inside a dictionary) as free dimensions, <= {} spelling deviations (separator kinds incl. comments, number forms, string forms/escapes/octal/continuations, hex forms, #xx in names); streams: entry point x data x dictionary as free dimensions, <= {} deviations incl. EOL kinds around the data. Atoms alone with <= 2 (thorough 3) deviations, so that two-step spellings (hexadecimal string with an odd number of digits and white-space inside) are in the quick tier. Non-trivial = at least one deviation; distinct by hash of the input bytes.",
            catalogue().vals.len(),
            bound,
            bound + 1
        ),
        assumptions: vec![
            "producer printer follows ISO 32000-1 7.2-7.3; the input value is the oracle".into(),
            "excluded: names whose bytes are not UTF-8, integers beyond 32 bits, radix/exponent numbers (not denotable in the object model / not PDF syntax)".into(),
        ],
        exhaustive: true,
        bounds: json!({"deviations": bound, "values": catalogue().vals.len(), "contexts": 5}),
    }
}

pub fn replay(case: &Value, tally: &mut Tally) {
    let engine = case["engine"].as_str().unwrap_or("");
    let picks: Vec<u32> = case["picks"].as_array().map(|a| a.iter().map(|x| x.as_u64().unwrap() as u32).collect()).unwrap_or_default();
    match engine {
        "c03.object" => {
            run_one(&picks, tally, object_case);
        }
        "c03.stream" => {
            run_one(&picks, tally, stream_case);
        }
        "c03.atoms3" => {
            let cat = catalogue();
            let mut ch = Chooser::new(picks.clone());
            let n_atoms = atoms().len();
            let names: &'static [&'static str] = &cat.names[..n_atoms];
            let vi = ch.pick_free_named("val", names);
            let v = &cat.vals[vi].1;
            let buf = spell(&mut ch, v);
            println!("value={} input: {}", show_val(v), show_bytes(&buf));
            let res = catch(|| {
                let p = parse(&buf, &NoResolve, ParseFlags::ANY)?;
                Ok(cmp_prim(&p, v, false, &NoResolve))
            });
            if let Err((kind, detail)) = outcome_of(res) {
                tally.fail("c03.object", &kind, ch.deviations(), detail, case.clone());
            }
        }
        _ => println!("unknown engine {}", engine),
    }
}
