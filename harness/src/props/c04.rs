//! C04 — serialised objects parse back to the same value (placed where the writer places them).
use crate::common::*;
use crate::core::*;
use crate::pdfgen::val::Val;
use crate::props::c03;
use pdf::build::{CatalogBuilder, PdfBuilder};
use pdf::content::{parse_ops, serialize_ops, Color, Op};
use pdf::file::FileOptions;
use pdf::object::{NoResolve, PlainRef, Resolve, Updater};
use pdf::parser::{parse, ParseFlags};
use pdf::primitive::{Dictionary, PdfString, Primitive};
use rayon::prelude::*;
use serde_json::{json, Value};

pub fn val_to_prim(v: &Val) -> Primitive {
    match v {
        Val::Null => Primitive::Null,
        Val::Bool(b) => Primitive::Boolean(*b),
        Val::Int(i) => Primitive::Integer(*i as i32),
        Val::Real(t) => Primitive::Number(real_value(t)),
        Val::Str(s) => Primitive::String(PdfString::new(s.as_slice().into())),
        Val::Name(n) => Primitive::Name(std::str::from_utf8(n).expect("utf8 name").into()),
        Val::Array(a) => Primitive::Array(a.iter().map(val_to_prim).collect()),
        Val::Dict(d) => {
            let mut dict = Dictionary::new();
            for (k, v) in d {
                dict.insert(std::str::from_utf8(k).expect("utf8 key"), val_to_prim(v));
            }
            Primitive::Dictionary(dict)
        }
        Val::Ref(n, g) => Primitive::Reference(PlainRef { id: *n, gen: *g as u64 }),
        Val::Stream(..) => panic!("streams handled separately"),
    }
}

/// equality with Integer(n) == Number(n as f32)
pub fn prim_eq(a: &Primitive, b: &Primitive) -> bool {
    match (a, b) {
        (Primitive::Integer(x), Primitive::Number(y)) | (Primitive::Number(y), Primitive::Integer(x)) => *x as f32 == *y,
        (Primitive::Number(x), Primitive::Number(y)) => x == y,
        (Primitive::Array(x), Primitive::Array(y)) => x.len() == y.len() && x.iter().zip(y).all(|(p, q)| prim_eq(p, q)),
        (Primitive::Dictionary(x), Primitive::Dictionary(y)) => x.len() == y.len() && x.iter().all(|(k, v)| y.get(k.as_str()).map(|w| prim_eq(v, w)).unwrap_or(false)),
        _ => a == b,
    }
}

pub const PLACEMENTS: &[&str] = &["array-middle", "dict-value", "array-first", "array-last", "alone", "content-operand", "saved-indirect-object"];

/// serialise `p` in placement `pl` and read it back with the matching entry point
pub fn roundtrip(p: &Primitive, pl: usize) -> std::result::Result<(), (String, String)> {
    let sentinel_a = Primitive::Integer(11);
    let sentinel_b = Primitive::Name("Zz".into());
    let ser = |x: &Primitive| -> std::result::Result<Vec<u8>, (String, String)> {
        let mut out = vec![];
        match catch(|| x.serialize(&mut out)) {
            Err((loc, msg)) => Err((panic_kind(&loc), format!("serialize panicked: {}", msg))),
            Ok(Err(e)) => Err((format!("serialize-error:{}", err_variant(&e)), format!("{}", err_root(&e)))),
            Ok(Ok(())) => Ok(out),
        }
    };
    let parse_back = |bytes: &[u8], expect: &Primitive| -> std::result::Result<(), (String, String)> {
        match catch(|| parse(bytes, &NoResolve, ParseFlags::ANY)) {
            Err((loc, msg)) => Err((panic_kind(&loc), format!("parse panicked on `{}`: {}", show_bytes(bytes), msg))),
            Ok(Err(e)) => Err((format!("error:{}", err_variant(&e)), format!("written `{}` -> {}", show_bytes(bytes), truncate(&format!("{}", err_root(&e)), 160)))),
            Ok(Ok(q)) => {
                if prim_eq(&q, expect) {
                    Ok(())
                } else {
                    Err(("wrong-value".into(), format!("written `{}` read back as {}", show_bytes(bytes), show_prim(&q))))
                }
            }
        }
    };
    match pl {
        0 | 2 | 3 => {
            let arr = match pl {
                0 => vec![sentinel_a.clone(), p.clone(), sentinel_b.clone()],
                2 => vec![p.clone(), sentinel_a.clone(), sentinel_b.clone()],
                _ => vec![sentinel_b.clone(), sentinel_a.clone(), p.clone()],
            };
            let whole = Primitive::Array(arr);
            let bytes = ser(&whole)?;
            parse_back(&bytes, &whole)
        }
        1 => {
            let mut d = Dictionary::new();
            d.insert("A", sentinel_a.clone());
            d.insert("V", p.clone());
            d.insert("B", sentinel_b.clone());
            let whole = Primitive::Dictionary(d);
            let bytes = ser(&whole)?;
            parse_back(&bytes, &whole)
        }
        4 => {
            let bytes = ser(p)?;
            parse_back(&bytes, p)
        }
        5 => {
            let ops = vec![Op::FillColor { color: Color::Other(vec![sentinel_a.clone(), p.clone()]) }, Op::Stroke];
            let bytes = match catch(|| serialize_ops(&ops)) {
                Err((loc, msg)) => return Err((panic_kind(&loc), format!("serialize_ops panicked: {}", msg))),
                Ok(Err(e)) => return Err((format!("serialize-error:{}", err_variant(&e)), format!("{}", err_root(&e)))),
                Ok(Ok(b)) => b,
            };
            match catch(|| parse_ops(&bytes, &NoResolve)) {
                Err((loc, msg)) => Err((panic_kind(&loc), format!("parse_ops panicked on `{}`: {}", show_bytes(&bytes), msg))),
                Ok(Err(e)) => Err((format!("error:{}", err_variant(&e)), format!("written `{}` -> {}", show_bytes(&bytes), truncate(&format!("{}", err_root(&e)), 160)))),
                Ok(Ok(back)) => match &back[..] {
                    [Op::FillColor { color: Color::Other(args) }, Op::Stroke] if args.len() == 2 && prim_eq(&args[0], &sentinel_a) && prim_eq(&args[1], p) => Ok(()),
                    other => Err(("wrong-value".into(), format!("written `{}` read back as {:?}", show_bytes(&bytes), other))),
                },
            }
        }
        _ => {
            // through the real writer: create the object in an empty storage, save, reload, resolve
            let res = catch(|| -> pdf::error::Result<(Vec<u8>, std::result::Result<Primitive, pdf::error::PdfError>)> {
                let mut b = PdfBuilder::new(FileOptions::uncached());
                // the first created object gets number 1: a reference to object 1 stored there would be an object that refers to
                // itself, a hostile structure (C14) and not a value placement; give such a value another number
                if matches!(p, Primitive::Reference(r) if r.id == 1) {
                    b.storage.create(Primitive::Null)?;
                }
                let r = b.storage.create(p.clone())?;
                let id = r.get_ref().get_inner();
                let bytes = b.build(CatalogBuilder::from_pages(vec![]))?;
                let back = (|| {
                    let file = FileOptions::uncached().load(bytes.clone())?;
                    let r = file.resolver().resolve(id);
                    r
                })();
                Ok((bytes, back))
            });
            match res {
                Err((loc, msg)) => Err((panic_kind(&loc), format!("create/save/load panicked: {}", msg))),
                Ok(Err(e)) => Err((format!("save-error:{}", err_variant(&e)), format!("{}", err_root(&e)))),
                Ok(Ok((bytes, Err(e)))) => {
                    let head = &bytes[..bytes.len().min(160)];
                    Err((format!("error:{}", err_variant(&e)), format!("saved file starts `{}` -> {}", show_bytes(head), truncate(&format!("{}", err_root(&e)), 160))))
                }
                Ok(Ok((bytes, Ok(q)))) => {
                    if prim_eq(&q, p) {
                        Ok(())
                    } else {
                        let head = &bytes[..bytes.len().min(160)];
                        Err(("wrong-value".into(), format!("saved file starts `{}`; object read back as {}", show_bytes(head), show_prim(&q))))
                    }
                }
            }
        }
    }
}

fn judge(t: &mut Tally, engine: &str, p: &Primitive, pl: usize, class: Vec<String>, replay: &dyn Fn() -> Value) {
    t.evaluations += 1;
    match roundtrip(p, pl) {
        Ok(()) => t.outcome("ok"),
        Err((kind, detail)) => {
            t.outcome(&kind);
            let mut devs = class;
            if pl != 0 {
                devs.push(format!("placement={}", PLACEMENTS[pl]));
            }
            t.fail(engine, &kind, devs, format!("value {}: {}", show_prim(p), detail), replay());
        }
    }
}

fn byte_class(b: u8) -> &'static str {
    match b {
        b'(' | b')' => "paren",
        b'\\' => "backslash",
        b'\r' => "CR",
        b'\n' => "LF",
        0 => "NUL",
        1..=31 | 127 => "control",
        0x80..=0xff => "high",
        _ => "printable",
    }
}
fn char_class(c: char) -> &'static str {
    match c {
        ' ' => "space",
        '\0'..='\x1f' | '\x7f' => "control",
        '(' | ')' | '<' | '>' | '[' | ']' | '{' | '}' | '/' | '%' => "delimiter",
        '#' => "hash",
        '\\' => "backslash",
        '!'..='~' => "regular",
        '\u{80}'..='\u{7ff}' => "utf8-2byte",
        '\u{800}'..='\u{ffff}' => "utf8-3byte",
        _ => "utf8-4byte",
    }
}
fn real_class(x: f32) -> &'static str {
    let a = x.abs();
    if a == 0.0 {
        "zero"
    } else if a >= 2147483648.0 {
        "|x|>=2^31"
    } else if a >= 16777216.0 {
        "2^24<=|x|<2^31"
    } else if x.fract() == 0.0 {
        "integral<2^24"
    } else if a < 1e-5 {
        "|x|<1e-5"
    } else {
        "fractional"
    }
}

fn sweep_strings(tier: Tier, tally: &mut Tally) {
    let placements: &[usize] = if tier.thorough() { &[0, 1, 3, 4, 5] } else { &[0, 5] };
    let parts: Vec<Tally> = (0..=256usize)
        .into_par_iter()
        .map(|first| {
            let mut t = Tally::new();
            let mut one = |bytes: &[u8], t: &mut Tally| {
                let p = Primitive::String(PdfString::new(bytes.into()));
                let mut classes: Vec<String> = bytes.iter().map(|&b| format!("strbyte={}", byte_class(b))).collect();
                classes.sort();
                classes.dedup();
                classes.retain(|c| c != "strbyte=printable");
                for &pl in placements {
                    t.distinct_bulk += 1;
                    judge(t, "c04.string", &p, pl, classes.clone(), &|| json!({"engine": "c04.value", "kind": "string", "hex": crate::props::c05::hex(bytes), "placement": pl}));
                }
            };
            if first == 256 {
                one(&[], &mut t);
            } else {
                let b0 = first as u8;
                one(&[b0], &mut t);
                for b1 in 0..=255u8 {
                    one(&[b0, b1], &mut t);
                }
            }
            t
        })
        .collect();
    for p in parts {
        tally.merge(p);
    }
    // strings through the real writer: all 1-byte strings (quick) / + 2-byte strings over a boundary alphabet (thorough)
    let mut list: Vec<Vec<u8>> = (0..=255u8).map(|b| vec![b]).collect();
    list.push(vec![]);
    if tier.thorough() {
        let alpha = [0u8, 10, 13, 32, b'(', b')', b'\\', b'a', b'7', 0x7f, 0x80, 0xff];
        for &a in &alpha {
            for &b in &alpha {
                list.push(vec![a, b]);
                list.push(vec![a, b, a]);
            }
        }
    }
    let parts: Vec<Tally> = list
        .par_iter()
        .map(|bytes| {
            let mut t = Tally::new();
            let p = Primitive::String(PdfString::new(bytes.as_slice().into()));
            let mut classes: Vec<String> = bytes.iter().map(|&b| format!("strbyte={}", byte_class(b))).collect();
            classes.sort();
            classes.dedup();
            classes.retain(|c| c != "strbyte=printable");
            t.distinct.insert(fnv_mix(fnv(bytes), 6));
            judge(&mut t, "c04.string", &p, 6, classes, &|| json!({"engine": "c04.value", "kind": "string", "hex": crate::props::c05::hex(bytes), "placement": 6}));
            t
        })
        .collect();
    for p in parts {
        tally.merge(p);
    }
}

fn sweep_names(tier: Tier, tally: &mut Tally) {
    // every Unicode scalar value as a one-character name
    let step = if tier.thorough() { 1 } else { 1 };
    let blocks: Vec<u32> = (0..0x110000u32 / 0x1000).collect();
    let parts: Vec<Tally> = blocks
        .par_iter()
        .map(|&blk| {
            let mut t = Tally::new();
            let mut cp = blk * 0x1000;
            while cp < (blk + 1) * 0x1000 {
                if let Some(c) = char::from_u32(cp) {
                    let s = c.to_string();
                    let p = Primitive::Name(s.as_str().into());
                    // below U+0800 every placement, above only the array and dictionary-value placements (quick: array)
                    let placements: &[usize] = if cp < 0x800 {
                        &[0, 1, 3, 4, 5]
                    } else if tier.thorough() {
                        &[0, 1]
                    } else {
                        &[0]
                    };
                    for &pl in placements {
                        t.distinct_bulk += 1;
                        judge(&mut t, "c04.name", &p, pl, vec![format!("namechar={}", char_class(c))], &|| json!({"engine": "c04.value", "kind": "name", "text": s, "placement": pl}));
                    }
                    // as a dictionary key
                    if cp < 0x800 || tier.thorough() {
                        let mut d = Dictionary::new();
                        d.insert(s.as_str(), Primitive::Integer(1));
                        t.distinct_bulk += 1;
                        judge(&mut t, "c04.name", &Primitive::Dictionary(d), 4, vec![format!("keychar={}", char_class(c))], &|| json!({"engine": "c04.value", "kind": "key", "text": s, "placement": 4}));
                    }
                }
                cp += step;
            }
            t
        })
        .collect();
    for p in parts {
        tally.merge(p);
    }
    // names of 2-3 characters over a small alphabet, and through the real writer
    let alpha = ['a', ' ', '/', '(', '#', '\\', 'ä', '\n', '%'];
    let mut names: Vec<String> = vec![String::new()];
    for &a in &alpha {
        names.push(a.to_string());
        for &b in &alpha {
            names.push(format!("{}{}", a, b));
            for &c in &alpha {
                names.push(format!("{}{}{}", a, b, c));
            }
        }
    }
    let parts: Vec<Tally> = names
        .par_iter()
        .map(|s| {
            let mut t = Tally::new();
            let p = Primitive::Name(s.as_str().into());
            let mut classes: Vec<String> = s.chars().map(|c| format!("namechar={}", char_class(c))).collect();
            classes.sort();
            classes.dedup();
            classes.retain(|c| c != "namechar=regular");
            if s.is_empty() {
                classes.push("name=empty".into());
            }
            for pl in [0usize, 1, 3, 4, 5, 6] {
                if pl == 6 && s.chars().count() == 3 && !tier.thorough() {
                    continue;
                }
                t.distinct.insert(fnv_mix(fnv(s.as_bytes()), pl as u64));
                judge(&mut t, "c04.name", &p, pl, classes.clone(), &|| json!({"engine": "c04.value", "kind": "name", "text": s, "placement": pl}));
            }
            t
        })
        .collect();
    for p in parts {
        tally.merge(p);
    }
}

fn boundary_reals() -> Vec<f32> {
    let mut v: Vec<f32> = vec![0.0, -0.0, 0.5, -0.5, 1.0, -1.0, 0.1, 1e-7, 1e-10, 1e-38, 1e-45, 3.4028235e38, -3.4028235e38, 1e10, 1e20, 1e30, 123456.79, 0.000123, 16777216.0, 16777217.0];
    for e in 0..=127i32 {
        let p = 2f32.powi(e);
        for x in [p, -p, f32::from_bits(p.to_bits() - 1), f32::from_bits(p.to_bits() + 1)] {
            v.push(x);
        }
        let q = 2f32.powi(-e);
        for x in [q, -q, f32::from_bits(q.to_bits() - 1), f32::from_bits(q.to_bits() + 1)] {
            v.push(x);
        }
    }
    for e in -45..=38i32 {
        let p = 10f32.powi(e);
        for x in [p, -p, f32::from_bits(p.to_bits().saturating_sub(1)), f32::from_bits(p.to_bits() + 1), p * 1.5, p * 9.999] {
            v.push(x);
        }
    }
    // subnormals
    for b in [1u32, 2, 3, 0x7fffff, 0x800000, 0x800001] {
        v.push(f32::from_bits(b));
        v.push(-f32::from_bits(b));
    }
    let mut x = 12345u32;
    for _ in 0..1500 {
        x = x.wrapping_mul(1664525).wrapping_add(1013904223);
        v.push(f32::from_bits(x));
    }
    v.retain(|x| x.is_finite());
    v
}

fn sweep_numbers(tier: Tier, tally: &mut Tally) {
    // integers
    let mut ints: Vec<i32> = vec![0, 1, -1, 7, 9, 10, -10, 99, 100, 255, 256, 65535, 65536, i32::MAX, i32::MIN, i32::MAX - 1, i32::MIN + 1, 1000000, -1000000];
    for k in 0..31 {
        ints.push(1 << k);
        ints.push(-(1 << k));
        ints.push((1 << k) - 1);
    }
    let mut t = Tally::new();
    for &i in &ints {
        for pl in 0..PLACEMENTS.len() {
            t.distinct.insert(fnv_mix(i as u64, 1000 + pl as u64));
            judge(&mut t, "c04.int", &Primitive::Integer(i), pl, vec![], &|| json!({"engine": "c04.value", "kind": "int", "value": i, "placement": pl}));
        }
    }
    tally.merge(t);
    let reals = boundary_reals();
    let parts: Vec<Tally> = reals
        .par_iter()
        .map(|&x| {
            let mut t = Tally::new();
            for pl in 0..PLACEMENTS.len() {
                t.distinct.insert(fnv_mix(x.to_bits() as u64, 2000 + pl as u64));
                judge(&mut t, "c04.real", &Primitive::Number(x), pl, vec![format!("real={}", real_class(x))], &|| json!({"engine": "c04.value", "kind": "real", "bits": x.to_bits(), "placement": pl}));
            }
            t
        })
        .collect();
    for p in parts {
        tally.merge(p);
    }
    if tier.thorough() {
        // all 2^32 integers and all finite f32 bit patterns, in the array-middle placement, serialised and parsed in batches
        let parts: Vec<Tally> = (0..65536u32)
            .into_par_iter()
            .map(|hi| {
                let mut t = Tally::new();
                for kind in 0..2 {
                    let vals: Vec<Primitive> = (0..65536u32)
                        .map(|lo| hi << 16 | lo)
                        .filter_map(|bits| if kind == 0 { Some(Primitive::Integer(bits as i32)) } else { Some(f32::from_bits(bits)).filter(|x| x.is_finite()).map(Primitive::Number) })
                        .collect();
                    if vals.is_empty() {
                        continue;
                    }
                    t.evaluations += vals.len() as u64;
                    t.distinct_bulk += vals.len() as u64;
                    let whole = Primitive::Array(vals);
                    let mut out = Vec::with_capacity(1 << 20);
                    let ok = whole.serialize(&mut out).is_ok() && parse(&out, &NoResolve, ParseFlags::ANY).map(|q| prim_eq(&q, &whole)).unwrap_or(false);
                    if ok {
                        t.outcome("ok");
                    } else if let Primitive::Array(vals) = whole {
                        // locate individually
                        for v in vals {
                            match &v {
                                Primitive::Integer(i) => {
                                    let i = *i;
                                    judge(&mut t, "c04.int", &v, 0, vec![], &|| json!({"engine": "c04.value", "kind": "int", "value": i, "placement": 0}))
                                }
                                Primitive::Number(x) => {
                                    let x = *x;
                                    judge(&mut t, "c04.real", &v, 0, vec![format!("real={}", real_class(x))], &|| json!({"engine": "c04.value", "kind": "real", "bits": x.to_bits(), "placement": 0}))
                                }
                                _ => {}
                            }
                            t.evaluations -= 1;
                        }
                    }
                }
                t
            })
            .collect();
        for p in parts {
            tally.merge(p);
        }
    }
}

fn containers(tally: &mut Tally) {
    let cat = c03::catalogue();
    let items: Vec<(usize, &'static str)> = cat.names.iter().cloned().enumerate().collect();
    let parts: Vec<Tally> = items
        .par_iter()
        .map(|&(i, name)| {
            let mut t = Tally::new();
            let v = &cat.vals[i].1;
            let p = val_to_prim(v);
            for pl in 0..PLACEMENTS.len() {
                if pl == 5 && name.starts_with("ref") {
                    continue; // references cannot be content-stream operands
                }
                if name.ends_with("depth20") && pl != 4 && pl != 6 {
                    continue; // one more container level would exceed the supported depth
                }
                t.distinct.insert(fnv_mix(i as u64, 3000 + pl as u64));
                judge(&mut t, "c04.catalogue", &p, pl, vec![format!("val={}", name)], &|| json!({"engine": "c04.catalogue", "index": i, "placement": pl}));
            }
            t
        })
        .collect();
    for p in parts {
        tally.merge(p);
    }
}

pub fn run(tier: Tier, _seed: u64, tally: &mut Tally) -> CheckMeta {
    containers(tally);
    sweep_strings(tier, tally);
    sweep_names(tier, tally);
    sweep_numbers(tier, tally);
    tally.states = tally.evaluations;
    tally.transitions = tally.evaluations;
    tally.validated = tally.evaluations;
    tally.sample(json!({"kind": "string", "hex": "285c", "placement": "content-operand", "written": "11 (\\(\\\\) scn"}));
    tally.sample(json!({"kind": "name", "text": "A B", "placement": "saved-indirect-object"}));
    tally.sample(json!({"kind": "real", "value": 2147483648.0f64, "placement": "array-middle"}));
    CheckMeta {
        prop: "C04",
        level: "model_checking",
        rule: format!(
            "exhaustive value sweeps through Primitive::serialize and the matching reader: all 1- and 2-byte strings, every Unicode scalar value as a one-character name and key, names of <=3 characters over a 9-symbol alphabet, boundary integers and ~3.5k boundary reals ({}), the C03 value catalogue (all kind pairs, depth 20); placements: array first/middle/last, dictionary value, alone, content-stream operand (serialize_ops/parse_ops), and the real writer (Updater::create + Storage::save + reload + resolve). Distinct by value x placement.",
            if tier.thorough() { "thorough: plus all 2^32 integers and all finite f32 bit patterns in batched arrays" } else { "quick" }
        ),
        assumptions: vec!["NaN and infinities are excluded (finite reals)".into(), "Integer(n) and Number(n as f32) are identified".into()],
        exhaustive: true,
        bounds: json!({"string_len": 2, "name_chars": 3}),
    }
}

pub fn replay(case: &Value, tally: &mut Tally) {
    let pl = case["placement"].as_u64().unwrap_or(0) as usize;
    let p = match case["engine"].as_str().unwrap_or("") {
        "c04.catalogue" => val_to_prim(&c03::catalogue().vals[case["index"].as_u64().unwrap() as usize].1),
        _ => match case["kind"].as_str().unwrap_or("") {
            "string" => Primitive::String(PdfString::new(crate::props::c05::unhex(case["hex"].as_str().unwrap()).as_slice().into())),
            "name" => Primitive::Name(case["text"].as_str().unwrap().into()),
            "key" => {
                let mut d = Dictionary::new();
                d.insert(case["text"].as_str().unwrap(), Primitive::Integer(1));
                Primitive::Dictionary(d)
            }
            "int" => Primitive::Integer(case["value"].as_i64().unwrap() as i32),
            _ => Primitive::Number(f32::from_bits(case["bits"].as_u64().unwrap() as u32)),
        },
    };
    println!("value {} placement {}", show_prim(&p), PLACEMENTS[pl]);
    let c = case.clone();
    judge(tally, "c04.replay", &p, pl, vec![], &move || c.clone());
}
