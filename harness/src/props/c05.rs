//! C05 — stream filters decode what standard (independent) encoders produce; corrupted data never panics.
use crate::core::*;
use crate::explore::*;
use crate::pdfgen::filters as pf;
use crate::pdfgen::filters::{A85Style, FlateStyle, HexStyle, RlStyle};
use pdf::enc::{decode, LZWFlateParams, StreamFilter};
use rayon::prelude::*;
use serde_json::{json, Value};

// ------------------------------------------------------------------------------------------------
// encoder variants: (filter, style) pairs. index 0 of each filter is the canonical style.
#[derive(Clone, Copy, Debug, PartialEq)]
pub enum Enc {
    Hex(HexStyle, bool),
    HexOdd,
    A85(A85Style),
    Rl(RlStyle, bool),
    Lzw { early: bool, reset: usize },
    Flate(FlateStyle),
}
pub const ENCS: &[(&str, Enc)] = &[
    ("hex", Enc::Hex(HexStyle::Upper, true)),
    ("hex/lower", Enc::Hex(HexStyle::Lower, true)),
    ("hex/spaced-pairs", Enc::Hex(HexStyle::SpacedPairs, true)),
    ("hex/spaced-nibbles", Enc::Hex(HexStyle::SpacedNibbles, true)),
    ("hex/odd-final-digit", Enc::HexOdd),
    ("a85", Enc::A85(A85Style::Plain)),
    ("a85/no-z", Enc::A85(A85Style::NoZ)),
    ("a85/lines", Enc::A85(A85Style::Lines)),
    ("a85/spaced", Enc::A85(A85Style::Spaced)),
    ("rl", Enc::Rl(RlStyle::Greedy, true)),
    ("rl/literal", Enc::Rl(RlStyle::Literal, true)),
    ("rl/singles", Enc::Rl(RlStyle::Singles, true)),
    ("rl/no-eod", Enc::Rl(RlStyle::Greedy, false)),
    ("lzw", Enc::Lzw { early: true, reset: 0 }),
    ("lzw/early0", Enc::Lzw { early: false, reset: 0 }),
    ("lzw/reset5", Enc::Lzw { early: true, reset: 5 }),
    ("lzw/early0-reset5", Enc::Lzw { early: false, reset: 5 }),
    ("flate", Enc::Flate(FlateStyle::ZlibDefault)),
    ("flate/zlib-stored", Enc::Flate(FlateStyle::ZlibStored)),
    ("flate/zlib-best", Enc::Flate(FlateStyle::ZlibBest)),
    ("flate/zlib-fast", Enc::Flate(FlateStyle::ZlibFast)),
    ("flate/raw", Enc::Flate(FlateStyle::RawDefault)),
    ("flate/raw-stored", Enc::Flate(FlateStyle::RawStored)),
];

pub fn enc_apply(e: Enc, data: &[u8]) -> Option<Vec<u8>> {
    Some(match e {
        Enc::Hex(s, eod) => pf::hex_encode(data, s, eod),
        Enc::HexOdd => return pf::hex_encode_odd(data),
        Enc::A85(s) => pf::a85_encode(data, s),
        Enc::Rl(s, eod) => pf::rl_encode(data, s, eod),
        Enc::Lzw { early, reset } => pf::lzw_encode(data, early, reset),
        Enc::Flate(s) => pf::flate_encode(data, s),
    })
}
#[derive(Clone, Copy, Debug, PartialEq)]
pub struct Geometry {
    pub predictor: i32,
    pub colors: i32,
    pub bpc: i32,
    pub columns: i32,
}
impl Geometry {
    pub const NONE: Geometry = Geometry { predictor: 1, colors: 1, bpc: 8, columns: 1 };
}
pub fn enc_filter(e: Enc, g: Geometry) -> StreamFilter {
    let p = |early: i32| LZWFlateParams { predictor: g.predictor, n_components: g.colors, bits_per_component: g.bpc, columns: g.columns, early_change: early };
    match e {
        Enc::Hex(..) | Enc::HexOdd => StreamFilter::ASCIIHexDecode,
        Enc::A85(_) => StreamFilter::ASCII85Decode,
        Enc::Rl(..) => StreamFilter::RunLengthDecode,
        Enc::Lzw { early, .. } => StreamFilter::LZWDecode(p(early as i32)),
        Enc::Flate(_) => StreamFilter::FlateDecode(p(1)),
    }
}
pub fn filter_name(e: Enc) -> &'static str {
    match e {
        Enc::Hex(..) | Enc::HexOdd => "ASCIIHexDecode",
        Enc::A85(_) => "ASCII85Decode",
        Enc::Rl(..) => "RunLengthDecode",
        Enc::Lzw { .. } => "LZWDecode",
        Enc::Flate(_) => "FlateDecode",
    }
}

fn len_class(n: usize) -> Option<String> {
    match n {
        0 => None,
        1..=4 => Some(format!("len={}", n)),
        5..=64 => Some("len=5..64".into()),
        _ => Some("len>64".into()),
    }
}

/// decode `enc` with `f` and compare with `want`; returns failure (kind, detail)
fn decode_check(f: &StreamFilter, enc: &[u8], want: &[u8]) -> Result<(), (String, String)> {
    match catch(|| decode(enc, f)) {
        Err((loc, msg)) => Err((panic_kind(&loc), format!("decode panicked: {} (encoded={})", msg, show_bytes(enc)))),
        Ok(Err(e)) => Err((format!("error:{}", err_variant(&e)), format!("want={} encoded={} -> Err({})", show_bytes(want), show_bytes(enc), truncate(&format!("{}", err_root(&e)), 160)))),
        Ok(Ok(d)) => {
            if d == want {
                Ok(())
            } else {
                Err(("wrong-bytes".into(), format!("want={} encoded={} got={}", show_bytes(want), show_bytes(enc), show_bytes(&d))))
            }
        }
    }
}

// ------------------------------------------------------------------------------------------------
// (b) all short strings x every encoder variant
fn short_strings(maxlen: usize, tally: &mut Tally) {
    let mut firsts: Vec<Option<u8>> = vec![None];
    firsts.extend((0..=255u8).map(Some));
    let parts: Vec<Tally> = firsts
        .par_iter()
        .map(|&first| {
            let mut t = Tally::new();
            let mut run = |buf: &[u8], t: &mut Tally| {
                for (ei, (name, e)) in ENCS.iter().enumerate() {
                    let Some(enc) = enc_apply(*e, buf) else { continue };
                    t.evaluations += 1;
                    t.distinct_bulk += 1;
                    match decode_check(&enc_filter(*e, Geometry::NONE), &enc, buf) {
                        Ok(()) => t.outcome("ok"),
                        Err((kind, detail)) => {
                            t.outcome(&kind);
                            let mut devs = vec![format!("enc={}", name)];
                            devs.extend(len_class(buf.len()));
                            t.fail("c05.short", &kind, devs, detail, json!({"engine": "c05.short", "enc": ei, "bytes_hex": hex(buf)}));
                        }
                    }
                }
            };
            match first {
                None => run(&[], &mut t),
                Some(b0) => {
                    run(&[b0], &mut t);
                    if maxlen >= 2 {
                        for b1 in 0..=255u8 {
                            run(&[b0, b1], &mut t);
                            if maxlen >= 3 {
                                for b2 in 0..=255u8 {
                                    run(&[b0, b1, b2], &mut t);
                                }
                            }
                        }
                    }
                }
            }
            t
        })
        .collect();
    for p in parts {
        tally.merge(p);
    }
    tally.sample(json!({"engine": "c05.short", "enc": "a85/lines", "bytes_hex": "00ff", "encoded": String::from_utf8_lossy(&pf::a85_encode(&[0, 255], A85Style::Lines))}));
}

// ------------------------------------------------------------------------------------------------
// (a) kernels
fn kernel_a85(tier: Tier, tally: &mut Tally) {
    // every 4-byte word, encoded as a 5-symbol group (never `z`), batched
    let f = StreamFilter::ASCII85Decode;
    let check_words = |words: &[u32], t: &mut Tally| {
        let mut enc = Vec::with_capacity(words.len() * 5 + 2);
        let mut want = Vec::with_capacity(words.len() * 4);
        for &w in words {
            enc.extend_from_slice(&pf::a85_group(w));
            want.extend_from_slice(&w.to_be_bytes());
        }
        enc.extend_from_slice(b"~>");
        t.evaluations += words.len() as u64;
        t.distinct_bulk += words.len() as u64;
        if decode_check(&f, &enc, &want).is_ok() {
            t.outcome("ok");
            return;
        }
        // locate the failing words individually
        for &w in words {
            let mut e = pf::a85_group(w).to_vec();
            e.extend_from_slice(b"~>");
            if let Err((kind, detail)) = decode_check(&f, &e, &w.to_be_bytes()) {
                t.outcome(&kind);
                let class = if w == 0 { "word=0" } else if w >= 0xFFFF_FF00 { "word>=0xffffff00" } else { "word=other" };
                t.fail("c05.a85group", &kind, vec![class.to_string()], detail, json!({"engine": "c05.a85group", "word": w}));
            }
        }
    };
    if tier.thorough() {
        let parts: Vec<Tally> = (0..65536u32)
            .into_par_iter()
            .map(|hi| {
                let mut t = Tally::new();
                let words: Vec<u32> = (0..65536u32).map(|lo| hi << 16 | lo).collect();
                check_words(&words, &mut t);
                t
            })
            .collect();
        for p in parts {
            tally.merge(p);
        }
    } else {
        // words with <= 2 non-zero bytes, and groups with <= 2 non-'!' digits
        let mut words: Vec<u32> = vec![];
        for i in 0..4 {
            for j in i..4 {
                for a in 0..=255u32 {
                    for b in 0..=255u32 {
                        words.push(a << (8 * i) | b << (8 * j));
                    }
                }
            }
        }
        let pow = [85u64.pow(4), 85u64.pow(3), 85u64.pow(2), 85, 1];
        for i in 0..5 {
            for j in i..5 {
                for a in 0..85u64 {
                    for b in 0..85u64 {
                        let v = a * pow[i] + if i != j { b * pow[j] } else { 0 };
                        if v <= u32::MAX as u64 {
                            words.push(v as u32);
                        }
                    }
                }
            }
        }
        words.push(u32::MAX);
        words.sort();
        words.dedup();
        let parts: Vec<Tally> = words
            .par_chunks(4096)
            .map(|c| {
                let mut t = Tally::new();
                check_words(c, &mut t);
                t
            })
            .collect();
        for p in parts {
            tally.merge(p);
        }
    }
    // partial tails (1..3 bytes) over boundary bytes, and z
    let bb = [0u8, 1, 0x20, 0x7f, 0x80, 0xfe, 0xff];
    let mut t = Tally::new();
    for n in 1..=3usize {
        let mut idx = vec![0usize; n];
        loop {
            let data: Vec<u8> = idx.iter().map(|&i| bb[i]).collect();
            for lead in [&b""[..], &b"z"[..], &b"zz"[..]] {
                let mut want = vec![0u8; lead.len() * 4];
                want.extend_from_slice(&data);
                let mut enc = lead.to_vec();
                let tail = pf::a85_encode(&data, A85Style::NoZ);
                enc.extend_from_slice(&tail);
                t.evaluations += 1;
                t.distinct.insert(fnv(&enc));
                match decode_check(&f, &enc, &want) {
                    Ok(()) => t.outcome("ok"),
                    Err((kind, detail)) => {
                        t.outcome(&kind);
                        t.fail("c05.a85tail", &kind, vec![format!("tail={}", n), format!("lead-z={}", lead.len())], detail, json!({"engine": "c05.a85tail", "lead_z": lead.len(), "bytes_hex": hex(&data)}));
                    }
                }
            }
            let mut k = 0;
            loop {
                if k == n {
                    break;
                }
                idx[k] += 1;
                if idx[k] < bb.len() {
                    break;
                }
                idx[k] = 0;
                k += 1;
            }
            if k == n {
                break;
            }
        }
    }
    tally.merge(t);
    tally.sample(json!({"engine": "c05.a85group", "word": 0xFFFFFFFFu32, "encoded": "s8W-!~>"}));
}

const WS: [u8; 6] = [0, 9, 10, 12, 13, 32];

fn kernel_hex_rl(tally: &mut Tally) {
    let mut t = Tally::new();
    let f = StreamFilter::ASCIIHexDecode;
    let digit = |n: u8, upper: bool| if n < 10 { b'0' + n } else if upper { b'A' + n - 10 } else { b'a' + n - 10 };
    // all 256 pairs x case(hi) x case(lo) x white-space byte placed {none, before, between, after}
    for v in 0..=255u8 {
        for cu in 0..4 {
            for wsi in 0..=WS.len() {
                for place in 0..3 {
                    if wsi == WS.len() && place > 0 {
                        continue;
                    }
                    let mut enc = vec![];
                    let ws = if wsi < WS.len() { Some(WS[wsi]) } else { None };
                    if let (Some(w), 0) = (ws, place) {
                        enc.push(w);
                    }
                    enc.push(digit(v >> 4, cu & 1 == 1));
                    if let (Some(w), 1) = (ws, place) {
                        enc.push(w);
                    }
                    enc.push(digit(v & 15, cu & 2 == 2));
                    if let (Some(w), 2) = (ws, place) {
                        enc.push(w);
                    }
                    enc.push(b'>');
                    t.evaluations += 1;
                    t.distinct.insert(fnv(&enc));
                    match decode_check(&f, &enc, &[v]) {
                        Ok(()) => t.outcome("ok"),
                        Err((kind, detail)) => {
                            t.outcome(&kind);
                            let mut devs = vec![];
                            if let Some(w) = ws {
                                devs.push(format!("ws={:#04x}", w));
                                devs.push(format!("ws-place={}", ["before", "between", "after"][place]));
                            }
                            t.fail("c05.hexpair", &kind, devs, detail, json!({"engine": "c05.hexpair", "encoded_hex": hex(&enc), "want_hex": hex(&[v])}));
                        }
                    }
                }
            }
        }
        // odd final digit: "X>" means X0
        if v & 15 == 0 {
            for prefix in [&b""[..], &b"41"[..]] {
                let mut enc = prefix.to_vec();
                enc.push(digit(v >> 4, true));
                enc.push(b'>');
                let mut want = if prefix.is_empty() { vec![] } else { vec![0x41] };
                want.push(v);
                t.evaluations += 1;
                t.distinct.insert(fnv(&enc));
                match decode_check(&f, &enc, &want) {
                    Ok(()) => t.outcome("ok"),
                    Err((kind, detail)) => {
                        t.outcome(&kind);
                        t.fail("c05.hexpair", &kind, vec!["odd-final-digit".into()], detail, json!({"engine": "c05.hexpair", "encoded_hex": hex(&enc), "want_hex": hex(&want)}));
                    }
                }
            }
        }
    }
    // layout product: n = 0..=6 digits, a white-space run of length 0, 1 or 2 in every gap (before the
    // first digit, between digits, before '>'), for each of two white-space alphabets; odd n leaves the
    // final 0 digit out, as the specification allows
    let digits_src = b"4a7C0f";
    for n in 0..=digits_src.len() {
        let gaps = n + 1;
        let total = 3usize.pow(gaps as u32);
        for code in 0..total {
            for wsa in 0..2usize {
                let mut enc = vec![];
                let mut c = code;
                let mut nws = 0usize;
                for g in 0..gaps {
                    let run = c % 3;
                    c /= 3;
                    for k in 0..run {
                        enc.push(if wsa == 0 { b'\n' } else { WS[(g + k + nws) % WS.len()] });
                        nws += 1;
                    }
                    if g < n {
                        enc.push(digits_src[g]);
                    }
                }
                enc.push(b'>');
                if code == 0 && wsa == 1 {
                    continue;
                }
                let mut ds: Vec<u8> = digits_src[..n].to_vec();
                if n % 2 == 1 {
                    ds.push(b'0');
                }
                let want: Vec<u8> = ds.chunks(2).map(|p| {
                    let h = (p[0] as char).to_digit(16).unwrap() as u8;
                    let l = (p[1] as char).to_digit(16).unwrap() as u8;
                    h << 4 | l
                }).collect();
                t.evaluations += 1;
                t.distinct.insert(fnv(&enc));
                match decode_check(&f, &enc, &want) {
                    Ok(()) => t.outcome("ok"),
                    Err((kind, detail)) => {
                        t.outcome(&kind);
                        let mut devs = vec![format!("digits={}", if n % 2 == 1 { "odd" } else { "even" }), format!("white-space={}", if nws % 2 == 1 { "odd" } else if nws == 0 { "none" } else { "even" })];
                        devs.push(format!("n={}", n));
                        t.fail("c05.hexlayout", &kind, devs, detail, json!({"engine": "c05.hexpair", "encoded_hex": hex(&enc), "want_hex": hex(&want)}));
                    }
                }
            }
        }
    }
    // run-length: every header byte with matching payload, alone and followed by a second run, with and without EOD
    let f = StreamFilter::RunLengthDecode;
    for h in 0..=255u8 {
        if h == 128 {
            continue;
        }
        for second in [false, true] {
            for eod in [true, false] {
                let mut enc = vec![h];
                let mut want = vec![];
                if h < 128 {
                    for i in 0..=h as usize {
                        enc.push((i * 7 + 1) as u8);
                        want.push((i * 7 + 1) as u8);
                    }
                } else {
                    enc.push(0x5a);
                    want.extend(std::iter::repeat(0x5a).take(257 - h as usize));
                }
                if second {
                    enc.extend_from_slice(&[1, 0x61, 0x62]);
                    want.extend_from_slice(&[0x61, 0x62]);
                }
                if eod {
                    enc.push(128);
                }
                t.evaluations += 1;
                t.distinct.insert(fnv(&enc));
                match decode_check(&f, &enc, &want) {
                    Ok(()) => t.outcome("ok"),
                    Err((kind, detail)) => {
                        t.outcome(&kind);
                        let mut devs = vec![if h < 128 { "literal-run".to_string() } else { "repeat-run".to_string() }];
                        if !eod {
                            devs.push("no-eod".into());
                        }
                        t.fail("c05.rlheader", &kind, devs, detail, json!({"engine": "c05.rlheader", "encoded_hex": hex(&enc), "want_hex": hex(&want)}));
                    }
                }
            }
        }
    }
    tally.merge(t);
}

/// PNG row filters through flate_decode: all (left, up, upper-left) triples for Paeth, all pairs for Sub/Up/Avg.
fn kernel_png(tier: Tier, tally: &mut Tally) {
    // image of 2 rows, colors=1 bpc=8; row0 filter None, row1 filter `ft`.
    let run_image = |ft: u8, row0: &[u8], row1: &[u8], t: &mut Tally, what: &dyn Fn() -> Value| {
        let cols = row0.len();
        let mut data = row0.to_vec();
        data.extend_from_slice(row1);
        let pred = pf::png_predict(&data, 1, 8, cols, |r| if r == 0 { 0 } else { ft });
        let enc = pf::flate_encode(&pred, FlateStyle::ZlibFast);
        let f = StreamFilter::FlateDecode(LZWFlateParams { predictor: 15, n_components: 1, bits_per_component: 8, columns: cols as i32, early_change: 1 });
        match decode_check(&f, &enc, &data) {
            Ok(()) => t.outcome("ok"),
            Err((kind, _)) => {
                // find first differing position for the detail
                let got = catch(|| decode(&enc, &f)).ok().and_then(|r| r.ok()).unwrap_or_default();
                let pos = (0..data.len()).find(|&i| got.get(i) != Some(&data[i]));
                t.outcome(&kind);
                t.fail(
                    "c05.pngrow",
                    &kind,
                    vec![format!("rowfilter={}", ["None", "Sub", "Up", "Avg", "Paeth"][ft as usize])],
                    format!("2-row image, {} columns: first wrong byte at {:?} (want {:?} got {:?})", cols, pos, pos.map(|p| data[p]), pos.and_then(|p| got.get(p).copied())),
                    what(),
                );
            }
        }
    };
    // Sub/Up/Avg/None: all pairs (a = left, b = up), x = 0x5a: columns pairs [.., b] / [a, x]
    let mut t = Tally::new();
    for ft in 0..=3u8 {
        let mut row0 = vec![];
        let mut row1 = vec![];
        for a in 0..=255u8 {
            for b in 0..=255u8 {
                row0.extend_from_slice(&[a ^ b, b]);
                row1.extend_from_slice(&[a, 0x5a ^ a.wrapping_mul(3) ^ b]);
            }
        }
        t.evaluations += 65536;
        t.distinct_bulk += 65536;
        run_image(ft, &row0, &row1, &mut t, &|| json!({"engine": "c05.pngrow", "rowfilter": ft, "kind": "allpairs"}));
    }
    tally.merge(t);
    // Paeth triples
    let cs: Vec<u8> = if tier.thorough() { (0..=255u8).collect() } else { vec![0, 1, 2, 3, 63, 64, 65, 126, 127, 128, 129, 130, 191, 192, 193, 253, 254, 255] };
    let parts: Vec<Tally> = cs
        .par_iter()
        .map(|&c| {
            let mut t = Tally::new();
            let mut row0 = vec![];
            let mut row1 = vec![];
            for a in 0..=255u8 {
                for b in 0..=255u8 {
                    row0.extend_from_slice(&[c, b]);
                    row1.extend_from_slice(&[a, 0xa5 ^ a ^ b.wrapping_mul(5) ^ c]);
                }
            }
            t.evaluations += 65536;
            t.distinct_bulk += 65536;
            run_image(4, &row0, &row1, &mut t, &|| json!({"engine": "c05.pngrow", "rowfilter": 4, "kind": "paeth", "c": c}));
            t
        })
        .collect();
    for p in parts {
        tally.merge(p);
    }
    tally.sample(json!({"engine": "c05.pngrow", "rowfilter": 4, "note": "all (left, up) pairs for one upper-left value packed into one 2-row image, Predictor 15"}));
}

// ------------------------------------------------------------------------------------------------
// (c) predictor geometry via the explorer
const PRED_NAMES: &[&str] = &["none", "png10-None", "png11-Sub", "png12-Up", "png13-Avg", "png14-Paeth", "png15-mixed", "tiff2"];
const COLORS: &[&str] = &["1", "2", "3", "4"];
const BPCS: &[&str] = &["8", "1", "2", "4", "16"];
const COLS: &[&str] = &["1", "2", "3", "4", "5"];
const CARRIER: &[&str] = &["flate", "lzw", "lzw-early0", "flate-raw"];
const DATAV: &[&str] = &["ramp", "lcg", "zeros", "ff"];
const ROWS: &[&str] = &["3", "1", "2"];

fn geometry_case(ch: &mut Chooser, t: &mut Tally) {
    let pred = ch.pick_free_named("pred", PRED_NAMES);
    let carrier = ch.pick_free_named("carrier", CARRIER);
    let colors = ch.pick_free_named("colors", COLORS) + 1;
    let bpc: usize = [8, 1, 2, 4, 16][ch.pick_free_named("bpc", BPCS)];
    let columns = ch.pick_free_named("columns", COLS) + 1;
    let datav = ch.pick_free_named("data", DATAV);
    let rows = [3usize, 1, 2][ch.pick_free_named("rows", ROWS)];
    let rb = pf::row_bytes(colors, bpc, columns);
    let n = rb * rows;
    let mut x: u32 = 0xC0FFEE ^ (colors * 131 + bpc * 17 + columns) as u32;
    let data: Vec<u8> = (0..n)
        .map(|i| match datav {
            0 => (i * 29 + 3) as u8,
            1 => {
                x = x.wrapping_mul(1664525).wrapping_add(1013904223);
                (x >> 24) as u8
            }
            2 => 0,
            _ => 0xff,
        })
        .collect();
    // when the row has padding bits (colors*bpc*columns not a multiple of 8) keep them zero: their value is unspecified
    let used_bits = colors * bpc * columns;
    let mut data = data;
    if used_bits % 8 != 0 {
        let mask = 0xffu8 << (8 - used_bits % 8);
        for r in 0..rows {
            data[r * rb + rb - 1] &= mask;
        }
    }
    let (predictor, predicted) = match pred {
        0 => (1, data.clone()),
        1..=5 => (9 + pred as i32, pf::png_predict(&data, colors, bpc, columns, |_| (pred - 1) as u8)),
        6 => (15, pf::png_predict(&data, colors, bpc, columns, |r| [4u8, 1, 3, 2, 0][r % 5])),
        _ => (2, pf::tiff_predict(&data, colors, bpc, columns)),
    };
    let (enc, early) = match carrier {
        0 => (pf::flate_encode(&predicted, FlateStyle::ZlibDefault), 1),
        1 => (pf::lzw_encode(&predicted, true, 0), 1),
        2 => (pf::lzw_encode(&predicted, false, 0), 0),
        _ => (pf::flate_encode(&predicted, FlateStyle::RawDefault), 1),
    };
    let params = LZWFlateParams { predictor, n_components: colors as i32, bits_per_component: bpc as i32, columns: columns as i32, early_change: early };
    let f = if carrier == 1 || carrier == 2 { StreamFilter::LZWDecode(params) } else { StreamFilter::FlateDecode(params) };
    t.evaluations += 1;
    t.distinct.insert(fnv_mix(fnv(&enc), (pred * 1000 + colors * 100 + bpc * 10 + columns) as u64));
    if ch.want_sample {
        println!("filter={:?}\n data={}\n encoded={}", f, show_bytes(&data), show_bytes(&enc));
    }
    match decode_check(&f, &enc, &data) {
        Ok(()) => t.outcome("ok"),
        Err((kind, detail)) => {
            t.outcome(&kind);
            // geometry findings are classified by the parameters, not by the data variant, unless the default data passes
            let devs = ch.deviations();
            t.fail("c05.geometry", &kind, devs, detail, ch.replay_value("c05.geometry"));
        }
    }
    // the same geometry over predicted data that does not end on a row boundary (one byte short, one byte
    // into the last row, one byte extra): a value or an error, never a panic
    let prow = if (10..=15).contains(&predictor) { rb + 1 } else { rb };
    let mut cuts = vec![predicted.len() - 1, predicted.len() - prow + 1, predicted.len() + 1];
    cuts.dedup();
    for cut in cuts {
        let mut p = predicted.clone();
        p.resize(cut, 0x55);
        let enc = match carrier {
            0 => pf::flate_encode(&p, FlateStyle::ZlibDefault),
            1 => pf::lzw_encode(&p, true, 0),
            2 => pf::lzw_encode(&p, false, 0),
            _ => pf::flate_encode(&p, FlateStyle::RawDefault),
        };
        t.evaluations += 1;
        t.distinct.insert(fnv_mix(fnv(&enc), (pred * 1000 + colors * 100 + bpc * 10 + columns) as u64));
        match catch(|| decode(&enc, &f)) {
            Ok(Ok(_)) => t.outcome("value"),
            Ok(Err(_)) => t.outcome("error"),
            Err((loc, msg)) => {
                let kind = panic_kind(&loc);
                t.outcome(&kind);
                let mut devs = ch.deviations();
                devs.push("partial-last-row".into());
                t.fail("c05.geometry", &kind, devs, format!("decoded length {} (row {}): {}", cut, prow, msg), ch.replay_value("c05.geometry"));
            }
        }
    }
}

// ------------------------------------------------------------------------------------------------
// (d) chains of filters through enc::decode
const CHAIN_ENCS: [usize; 5] = [0, 5, 9, 13, 17]; // canonical style of each filter in ENCS
const CHAIN_NAMES: &[&str] = &["-", "hex", "a85", "rl", "lzw", "flate"];
const CHAIN_DATA: &[&str] = &["hello", "empty", "one-zero", "zeros4", "zeros9", "ff300", "ramp256", "lcg1000", "tilde-gt", "text"];

fn chain_data(i: usize) -> Vec<u8> {
    match i {
        0 => b"hello world".to_vec(),
        1 => vec![],
        2 => vec![0],
        3 => vec![0; 4],
        4 => vec![0; 9],
        5 => vec![0xff; 300],
        6 => (0..=255u8).collect(),
        7 => {
            let mut x = 7u32;
            (0..1000)
                .map(|_| {
                    x = x.wrapping_mul(1664525).wrapping_add(1013904223);
                    (x >> 24) as u8
                })
                .collect()
        }
        8 => b"~>>~>\x80\x80".to_vec(),
        _ => b"BT /F1 12 Tf (abc) Tj ET\n".repeat(20),
    }
}

fn chain_case(ch: &mut Chooser, t: &mut Tally) {
    // chain in decode order: f1 is applied first when decoding (i.e. last when encoding)
    let f1 = ch.pick_free_named("f1", &CHAIN_NAMES[1..]);
    let f2 = ch.pick_free_named("f2", CHAIN_NAMES);
    let f3 = if f2 != 0 { ch.pick_free_named("f3", CHAIN_NAMES) } else { 0 };
    let di = ch.pick_free_named("data", CHAIN_DATA);
    let mut chain = vec![CHAIN_ENCS[f1]];
    if f2 != 0 {
        chain.push(CHAIN_ENCS[f2 - 1]);
    }
    if f3 != 0 {
        chain.push(CHAIN_ENCS[f3 - 1]);
    }
    let data = chain_data(di);
    // encode in reverse order
    let mut enc = data.clone();
    for &ei in chain.iter().rev() {
        enc = enc_apply(ENCS[ei].1, &enc).unwrap();
    }
    t.evaluations += 1;
    t.distinct.insert(fnv(&enc));
    let r = catch(|| {
        let mut cur = enc.clone();
        for &ei in &chain {
            cur = decode(&cur, &enc_filter(ENCS[ei].1, Geometry::NONE))?;
        }
        Ok::<_, pdf::error::PdfError>(cur)
    });
    let res = match r {
        Err((loc, msg)) => Err((panic_kind(&loc), msg)),
        Ok(Err(e)) => Err((format!("error:{}", err_variant(&e)), format!("{}", err_root(&e)))),
        Ok(Ok(d)) if d == data => Ok(()),
        Ok(Ok(d)) => Err(("wrong-bytes".to_string(), format!("want={} got={}", show_bytes(&data), show_bytes(&d)))),
    };
    match res {
        Ok(()) => t.outcome("ok"),
        Err((kind, detail)) => {
            t.outcome(&kind);
            t.fail("c05.chain", &kind, ch.deviations(), truncate(&detail, 300), ch.replay_value("c05.chain"));
        }
    }
}

// ------------------------------------------------------------------------------------------------
// (e) corruption: truncations and single-byte substitutions must give Ok or Err, never panic
const CORRUPT_BYTES: [u8; 8] = [0x00, 0x7f, 0x80, 0x81, 0xff, b'~', b'>', b'z'];

fn corruption(tier: Tier, tally: &mut Tally) {
    let mut bases: Vec<Vec<u8>> = vec![vec![], vec![0], vec![0x41], vec![0xff, 0], b"ab".to_vec(), vec![0, 0, 0, 0, 0]];
    bases.push(b"hello hello hello hello".to_vec());
    bases.push((0..200u32).map(|i| (i * 7) as u8).collect());
    if tier.thorough() {
        for a in 0..=255u8 {
            bases.push(vec![a, a.wrapping_mul(3)]);
        }
        bases.push(vec![0x61; 600]);
    }
    let jobs: Vec<(usize, usize)> = (0..bases.len()).flat_map(|b| (0..ENCS.len()).map(move |e| (b, e))).collect();
    let parts: Vec<Tally> = jobs
        .par_iter()
        .map(|&(bi, ei)| {
            let mut t = Tally::new();
            let (name, e) = ENCS[ei];
            let Some(enc) = enc_apply(e, &bases[bi]) else { return t };
            let geos = [Geometry::NONE, Geometry { predictor: 12, colors: 1, bpc: 8, columns: 2 }];
            for (gi, g) in geos.iter().enumerate() {
                if gi > 0 && !matches!(e, Enc::Lzw { .. } | Enc::Flate(_)) {
                    continue;
                }
                let f = enc_filter(e, *g);
                // what the undamaged data decodes to, before any failure happened on this thread
                let reference = catch(|| decode(&enc, &f)).ok().and_then(|r| r.ok());
                let mut try_one = |buf: &[u8], what: &str, t: &mut Tally| {
                    t.evaluations += 1;
                    t.distinct.insert(fnv_mix(fnv(buf), (ei * 2 + gi) as u64));
                    match catch(|| decode(buf, &f)) {
                        Ok(Ok(_)) => t.outcome("value"),
                        Ok(Err(_)) => {
                            t.outcome("error");
                            // a failed decode must leave nothing behind: the undamaged data still decodes to the same bytes
                            if let Some(want) = &reference {
                                let again = catch(|| decode(&enc, &f));
                                if !matches!(&again, Ok(Ok(d)) if d == want) {
                                    let devs = vec![format!("filter={}", filter_name(e)), "after-failed-decode".to_string()];
                                    t.fail("c05.corrupt", "decode-depends-on-earlier-failure", devs, format!("after the failed decode of {} the undamaged {} data no longer decodes to the same bytes: {:?}", show_bytes(buf), name, again.map(|r| r.map(|d| d.len()).map_err(|e| err_variant(&e)))), json!({"engine": "c05.corrupt", "enc": ei, "geometry": gi, "input_hex": hex(buf), "clean_hex": hex(&enc)}));
                                }
                            }
                        }
                        Err((loc, msg)) => {
                            let kind = panic_kind(&loc);
                            t.outcome(&kind);
                            let mut devs = vec![format!("filter={}", filter_name(e))];
                            devs.push(what.split(':').next().unwrap().to_string());
                            t.fail("c05.corrupt", &kind, devs, format!("{} of enc={} data; input={} : {}", what, name, show_bytes(buf), msg), json!({"engine": "c05.corrupt", "enc": ei, "geometry": gi, "input_hex": hex(buf)}));
                        }
                    }
                };
                for n in 0..enc.len() {
                    try_one(&enc[..n], "truncate", &mut t);
                }
                for i in 0..enc.len() {
                    for &c in &CORRUPT_BYTES {
                        if enc[i] == c {
                            continue;
                        }
                        let mut b = enc.clone();
                        b[i] = c;
                        try_one(&b, "substitute", &mut t);
                    }
                }
            }
            t
        })
        .collect();
    for p in parts {
        tally.merge(p);
    }
    tally.sample(json!({"engine": "c05.corrupt", "enc": "rl", "input_hex": "05", "note": "truncated run-length data: literal header without payload"}));
}

/// very long, very compressible data: one code of the compressed form stands for thousands of bytes, so a decoder
/// that hands out its output in pieces has to keep going after the input is used up
fn long_runs(tally: &mut Tally) {
    let jobs: Vec<(u8, usize, usize)> = [(0u8, 1_000_000usize), (0x41, 1_500_000), (0xff, 2_000_000), (0, 3_000_000), (0x20, 70_000)].iter().flat_map(|&(b, n)| (0..4).map(move |c| (b, n, c))).collect();
    let parts: Vec<Tally> = jobs
        .par_iter()
        .map(|&(byte, len, carrier)| {
            let mut t = Tally::new();
            let data = vec![byte; len];
            let (enc, f, name) = match carrier {
                0 => (pf::lzw_encode(&data, true, 0), StreamFilter::LZWDecode(LZWFlateParams { early_change: 1, ..Default::default() }), "lzw"),
                1 => (pf::lzw_encode(&data, false, 0), StreamFilter::LZWDecode(LZWFlateParams { early_change: 0, ..Default::default() }), "lzw-early0"),
                2 => (pf::flate_encode(&data, FlateStyle::ZlibDefault), StreamFilter::FlateDecode(Default::default()), "flate"),
                _ => (pf::rl_encode(&data, RlStyle::Greedy, true), StreamFilter::RunLengthDecode, "rl"),
            };
            t.evaluations += 1;
            t.distinct.insert(fnv_mix(fnv(&enc), carrier as u64));
            match decode_check(&f, &enc, &data) {
                Ok(()) => t.outcome("ok"),
                Err((kind, _)) => {
                    let got = catch(|| decode(&enc, &f)).ok().and_then(|r| r.ok()).map(|d| d.len());
                    t.outcome(&kind);
                    t.fail("c05.longrun", &kind, vec![format!("filter={}", name)], format!("{} bytes of {:#04x} encoded to {} bytes: decoded length {:?}", len, byte, enc.len(), got), json!({"engine": "c05.longrun", "byte": byte, "len": len, "carrier": carrier}));
                }
            }
            t
        })
        .collect();
    for p in parts {
        tally.merge(p);
    }
}

pub fn run(tier: Tier, _seed: u64, tally: &mut Tally) -> CheckMeta {
    let maxlen = if tier.thorough() { 3 } else { 2 };
    long_runs(tally);
    kernel_a85(tier, tally);
    kernel_hex_rl(tally);
    kernel_png(tier, tally);
    short_strings(maxlen, tally);
    explore("c05.geometry", Limits::new(0), tally, geometry_case);
    explore("c05.chain", Limits::new(0), tally, chain_case);
    corruption(tier, tally);
    crate::props::c05file::run_file_chains(tier, tally);
    tally.validated = tally.evaluations;
    if tally.states < tally.evaluations {
        tally.states = tally.evaluations;
        tally.transitions = tally.evaluations;
    }
    CheckMeta {
        prop: "C05",
        level: "model_checking",
        rule: format!(
            "exhaustive kernels ({} ASCII85 groups, all 256 hex pairs x case x white-space placement, all run-length headers, all (left,up) pairs for Sub/Up/Avg and {} for Paeth through flate_decode+Predictor 15); all byte strings of length <= {} x {} independent encoder variants; full product of predictor geometry (8 predictors x 4 carriers x Colors 1-4 x BPC {{1,2,4,8,16}} x Columns 1-5 x 4 data variants x {{1, 2, 3}} rows); runs of 70000 to 3000000 equal bytes through LZW (both EarlyChange values), Flate and RunLength; all filter chains of length <= 3 x 10 buffers via enc::decode and via Stream::data on generated files; every truncation and single-byte substitution (8 values) of encoded buffers, each failed decode followed by a decode of the undamaged data on the same thread (same bytes as before). A case is non-trivial/distinct by the hash of its encoded bytes + parameters (sweeps are distinct by construction).",
            if tier.thorough() { "all 2^32" } else { "all words with <=2 non-zero bytes / <=2 non-'!' digits of" },
            if tier.thorough() { "all 2^24 (left,up,upper-left) triples" } else { "18 boundary upper-left values x all pairs" },
            maxlen,
            ENCS.len()
        ),
        assumptions: vec![
            "independent encoders in harness/src/pdfgen/filters.rs follow ISO 32000-1 7.4 (self-tested against spec vectors and own reference decoders)".into(),
            "padding bits of rows whose bit length is not a multiple of 8 are kept zero (their value is unspecified)".into(),
            "DCT/CCITT/JBIG2/JPX are outside the property's list".into(),
        ],
        exhaustive: true,
        bounds: json!({"short_string_len": maxlen, "chain_len": 3, "rows": 3}),
    }
}

pub fn hex(b: &[u8]) -> String {
    b.iter().map(|x| format!("{:02x}", x)).collect()
}
pub fn unhex(s: &str) -> Vec<u8> {
    (0..s.len() / 2).map(|i| u8::from_str_radix(&s[2 * i..2 * i + 2], 16).unwrap()).collect()
}

pub fn replay(case: &Value, tally: &mut Tally) {
    let engine = case["engine"].as_str().unwrap_or("");
    let picks: Vec<u32> = case["picks"].as_array().map(|a| a.iter().map(|x| x.as_u64().unwrap() as u32).collect()).unwrap_or_default();
    match engine {
        "c05.geometry" => {
            run_one(&picks, tally, geometry_case);
        }
        "c05.chain" => {
            run_one(&picks, tally, chain_case);
        }
        "c05.short" => {
            let ei = case["enc"].as_u64().unwrap() as usize;
            let data = unhex(case["bytes_hex"].as_str().unwrap());
            let enc = enc_apply(ENCS[ei].1, &data).unwrap();
            println!("enc={} data={} encoded={}", ENCS[ei].0, show_bytes(&data), show_bytes(&enc));
            if let Err((kind, detail)) = decode_check(&enc_filter(ENCS[ei].1, Geometry::NONE), &enc, &data) {
                tally.fail("c05.short", &kind, vec![format!("enc={}", ENCS[ei].0)], detail, case.clone());
            }
        }
        "c05.a85group" => {
            let w = case["word"].as_u64().unwrap() as u32;
            let mut e = pf::a85_group(w).to_vec();
            e.extend_from_slice(b"~>");
            println!("word={:#x} encoded={}", w, show_bytes(&e));
            if let Err((kind, detail)) = decode_check(&StreamFilter::ASCII85Decode, &e, &w.to_be_bytes()) {
                tally.fail("c05.a85group", &kind, vec![], detail, case.clone());
            }
        }
        "c05.a85tail" => {
            let data = unhex(case["bytes_hex"].as_str().unwrap());
            let lead = case["lead_z"].as_u64().unwrap() as usize;
            let mut enc = vec![b'z'; lead];
            enc.extend_from_slice(&pf::a85_encode(&data, A85Style::NoZ));
            let mut want = vec![0u8; lead * 4];
            want.extend_from_slice(&data);
            println!("encoded={}", show_bytes(&enc));
            if let Err((kind, detail)) = decode_check(&StreamFilter::ASCII85Decode, &enc, &want) {
                tally.fail("c05.a85tail", &kind, vec![], detail, case.clone());
            }
        }
        "c05.hexpair" | "c05.rlheader" => {
            let enc = unhex(case["encoded_hex"].as_str().unwrap());
            let want = unhex(case["want_hex"].as_str().unwrap());
            let f = if engine == "c05.hexpair" { StreamFilter::ASCIIHexDecode } else { StreamFilter::RunLengthDecode };
            println!("encoded={} want={}", show_bytes(&enc), show_bytes(&want));
            if let Err((kind, detail)) = decode_check(&f, &enc, &want) {
                tally.fail(engine, &kind, vec![], detail, case.clone());
            }
        }
        "c05.corrupt" => {
            let ei = case["enc"].as_u64().unwrap() as usize;
            let gi = case["geometry"].as_u64().unwrap() as usize;
            let buf = unhex(case["input_hex"].as_str().unwrap());
            let g = [Geometry::NONE, Geometry { predictor: 12, colors: 1, bpc: 8, columns: 2 }][gi];
            let f = enc_filter(ENCS[ei].1, g);
            println!("filter={:?} input={}", f, show_bytes(&buf));
            let clean = case["clean_hex"].as_str().map(unhex);
            let before = clean.as_ref().map(|c| catch(|| decode(c, &f)));
            match catch(|| decode(&buf, &f)) {
                Ok(r) => println!("result: {:?}", r.map(|v| v.len()).map_err(|e| err_variant(&e))),
                Err((loc, msg)) => tally.fail("c05.corrupt", &panic_kind(&loc), vec![], msg, case.clone()),
            }
            if let (Some(c), Some(Ok(Ok(want)))) = (clean.as_ref(), before) {
                let again = catch(|| decode(c, &f));
                println!("undamaged data before: {} bytes; after the failed decode: {:?}", want.len(), again.as_ref().map(|r| r.as_ref().map(|d| d.len()).map_err(|e| err_variant(e))).map_err(|e| e.0.clone()));
                if !matches!(&again, Ok(Ok(d)) if d == &want) {
                    tally.fail("c05.corrupt", "decode-depends-on-earlier-failure", vec!["after-failed-decode".into()], "the undamaged data no longer decodes to the same bytes".into(), case.clone());
                }
            }
        }
        "c05.pngrow" => {
            let mut t = Tally::new();
            kernel_png(Tier::Quick, &mut t);
            for f in t.all_failures() {
                tally.add_failure(f.clone());
            }
        }
        "c05.longrun" => long_runs(tally),
        "c05.file" => crate::props::c05file::replay(case, tally),
        _ => println!("unknown engine {}", engine),
    }
}
