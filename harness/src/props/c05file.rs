//! C05 (d2): filter chains named by a stream dictionary in a generated file, read through Stream::data.
use crate::core::*;
use crate::explore::*;
use crate::pdfgen::file::*;
use crate::pdfgen::filters as pf;
use crate::pdfgen::val::*;
use crate::props::c05::*;
use pdf::file::FileOptions;
use pdf::object::{Object, PlainRef, Resolve, Stream};
use serde_json::{json, Value};

const CHAIN_ENCS: [usize; 5] = [0, 5, 9, 13, 17];
const CHAIN_NAMES: &[&str] = &["-", "hex", "a85", "rl", "lzw", "flate"];
const DATA: &[&str] = &["hello", "empty", "zeros9", "ramp256", "text"];
const PRED_AT: &[&str] = &["no-predictor", "predictor-on-1st-lzw/flate", "predictor-on-last-lzw/flate"];
const FILTER_FORM: &[&str] = &["array", "name-if-single"];
const PARMS_FORM: &[&str] = &["array-with-nulls", "dict-if-single", "omitted-if-unneeded", "array-with-empty-dicts"];
const STORAGE: &[&str] = &["direct-length", "indirect-length"];

fn data(i: usize) -> Vec<u8> {
    match i {
        0 => b"hello world".to_vec(),
        1 => vec![],
        2 => vec![0; 9],
        3 => (0..=255u8).collect(),
        _ => b"BT /F1 12 Tf (abc) Tj ET\n".repeat(12),
    }
}

pub fn file_chain_case(ch: &mut Chooser, t: &mut Tally) {
    let f1 = ch.pick_free_named("f1", &CHAIN_NAMES[1..]);
    let f2 = ch.pick_free_named("f2", CHAIN_NAMES);
    let f3 = if f2 != 0 { ch.pick_free_named("f3", CHAIN_NAMES) } else { 0 };
    let di = ch.pick_free_named("data", DATA);
    let pred_at = ch.pick_free_named("pred", PRED_AT);
    let fform = ch.pick_free_named("filter-form", FILTER_FORM);
    let pform = ch.pick_free_named("parms-form", PARMS_FORM);
    let storage = ch.pick_free_named("length", STORAGE);
    let mut chain = vec![CHAIN_ENCS[f1]];
    if f2 != 0 {
        chain.push(CHAIN_ENCS[f2 - 1]);
    }
    if f3 != 0 {
        chain.push(CHAIN_ENCS[f3 - 1]);
    }
    let plain = data(di);
    // which chain position carries the predictor (must be lzw or flate)
    let cands: Vec<usize> = chain.iter().enumerate().filter(|(_, &e)| e == 13 || e == 17).map(|(i, _)| i).collect();
    let pred_pos = match pred_at {
        1 => cands.first().copied(),
        2 => cands.last().copied(),
        _ => None,
    };
    if pred_at != 0 && pred_pos.is_none() {
        return; // not applicable: same as the no-predictor case
    }
    if pred_at == 2 && cands.len() < 2 {
        return;
    }
    // encode in reverse order; the predictor applies to the data entering that filter's encoder
    let columns = 4usize;
    let mut enc = plain.clone();
    let mut skip = false;
    for (pos, &ei) in chain.iter().enumerate().rev() {
        if Some(pos) == pred_pos {
            if enc.len() % columns != 0 || enc.is_empty() {
                skip = true;
                break;
            }
            enc = pf::png_predict(&enc, 1, 8, columns, |_| 2);
        }
        enc = enc_apply(ENCS[ei].1, &enc).unwrap();
    }
    if skip {
        return;
    }
    let names: Vec<Val> = chain.iter().map(|&ei| Val::name(filter_name(ENCS[ei].1))).collect();
    let parm_for = |pos: usize| -> Option<Val> {
        if Some(pos) == pred_pos {
            Some(Val::dict(vec![("Predictor", Val::Int(12)), ("Columns", Val::Int(columns as i64))]))
        } else {
            None
        }
    };
    let single = chain.len() == 1;
    let mut d: Vec<(&str, Val)> = vec![];
    if single && fform == 1 {
        d.push(("Filter", names[0].clone()));
    } else {
        d.push(("Filter", Val::Array(names.clone())));
    }
    let any_parm = pred_pos.is_some();
    match pform {
        0 => {
            d.push(("DecodeParms", Val::Array((0..chain.len()).map(|p| parm_for(p).unwrap_or(Val::Null)).collect())));
        }
        1 => {
            if single {
                if let Some(p) = parm_for(0) {
                    d.push(("DecodeParms", p));
                }
            } else {
                d.push(("DecodeParms", Val::Array((0..chain.len()).map(|p| parm_for(p).unwrap_or(Val::Null)).collect())));
            }
        }
        2 => {
            if any_parm {
                d.push(("DecodeParms", Val::Array((0..chain.len()).map(|p| parm_for(p).unwrap_or(Val::Null)).collect())));
            }
        }
        _ => {
            d.push(("DecodeParms", Val::Array((0..chain.len()).map(|p| parm_for(p).unwrap_or(Val::Dict(vec![]))).collect())));
        }
    }
    if storage == 1 {
        d.push(("Length", Val::r(5)));
    }
    let mut fb = FileBuilder::new(b"");
    let (cat, pages) = minimal_catalog();
    fb.add(1, 0, &cat);
    fb.add(2, 0, &pages);
    fb.add(4, 0, &Val::stream(d, enc.clone()));
    if storage == 1 {
        fb.add(5, 0, &Val::Int(enc.len() as i64));
    }
    fb.finish_table(&[("Root", Val::r(1))], Split::Runs);
    let bytes = fb.bytes();
    t.evaluations += 1;
    t.distinct.insert(fnv(&bytes));
    if ch.want_sample {
        println!("file:\n{}", show_bytes(&bytes));
    }
    let res = catch(|| -> Result<Vec<u8>, pdf::error::PdfError> {
        let file = FileOptions::uncached().load(bytes.clone())?;
        let r = file.resolver();
        let p = r.resolve(PlainRef { id: 4, gen: 0 })?;
        let s = Stream::<()>::from_primitive(p, &r)?;
        Ok(s.data(&r)?.to_vec())
    });
    let verdict = match res {
        Err((loc, msg)) => Err((panic_kind(&loc), msg)),
        Ok(Err(e)) => Err((format!("error:{}", err_variant(&e)), truncate(&format!("{}", err_root(&e)), 200))),
        Ok(Ok(dd)) if dd == plain => Ok(()),
        Ok(Ok(dd)) => Err(("wrong-bytes".into(), format!("want={} got={}", show_bytes(&plain), show_bytes(&dd)))),
    };
    match verdict {
        Ok(()) => t.outcome("ok"),
        Err((kind, detail)) => {
            t.outcome(&kind);
            t.fail("c05.file", &kind, ch.deviations(), detail, ch.replay_value("c05.file"));
        }
    }
}

pub fn run_file_chains(_tier: Tier, tally: &mut Tally) {
    explore("c05.file", Limits::new(0), tally, file_chain_case);
    tally.sample(json!({"engine": "c05.file", "note": "stream 4 0 obj << /Filter [/ASCII85Decode /FlateDecode] /DecodeParms [null << /Predictor 12 /Columns 4 >>] >> read through Stream::data"}));
}

pub fn replay(case: &Value, tally: &mut Tally) {
    let picks: Vec<u32> = case["picks"].as_array().map(|a| a.iter().map(|x| x.as_u64().unwrap() as u32).collect()).unwrap_or_default();
    run_one(&picks, tally, file_chain_case);
}
