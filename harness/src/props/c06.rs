//! C06 — encrypted documents yield their plaintext with either password, and only then.
use crate::core::*;
use crate::explore::*;
use crate::pdfgen::crypt::*;
use crate::pdfgen::docs::*;
use crate::pdfgen::file::*;
use crate::pdfgen::filters as pf;
use crate::pdfgen::val::*;
use pdf::file::FileOptions;
use pdf::object::{Object, PlainRef, Resolve, Stream};
use pdf::primitive::Primitive;
use serde_json::{json, Value};

const VARIANTS: &[&str] = &[
    "R4-AESV2", "R2-RC4-40", "R3-RC4-40", "R3-RC4-48", "R3-RC4-56", "R3-RC4-64", "R3-RC4-72", "R3-RC4-80", "R3-RC4-88", "R3-RC4-96", "R3-RC4-104", "R3-RC4-112", "R3-RC4-120", "R3-RC4-128", "R4-RC4-128", "R5-AESV3", "R6-AESV3",
];
fn variant(i: usize) -> Variant {
    match i {
        0 => Variant::R4Aes,
        1 => Variant::R2,
        2..=13 => Variant::R3(5 + (i - 2)),
        14 => Variant::R4Rc4,
        15 => Variant::R5,
        _ => Variant::R6,
    }
}
const USER_PW: &[&str] = &["u", "empty", "32-bytes", "40-bytes", "non-ascii", "127-bytes", "128-bytes", "2-byte-char-across-byte-127", "3-byte-char-across-byte-127"];
const OWNER_PW: &[&str] = &["o", "same-as-user", "33-bytes", "3-byte-char-across-byte-127"];
const PERMS: &[&str] = &["-4", "-3904", "0"];
const ID0: &[&str] = &["16-bytes", "1-byte", "empty", "40-bytes", "binary-with-delimiters"];
const ENCMETA: &[&str] = &["true", "false"];
const ENCPLACE: &[&str] = &["indirect", "direct-in-trailer"];
const OBJNR: &[&str] = &["4", "255", "256", "65536", "999990"];
const GEN: &[&str] = &["0", "1", "65535"];
const PLEN: &[&str] = &["17", "0", "1", "15", "16", "32", "33"];
const SPELL: &[&str] = &["literal", "hex"];
const SFILTER: &[&str] = &["no-filter", "flate"];
const XREF: &[&str] = &["table", "xref-stream+objstm", "xref-stream+objstm-holding-the-catalog"];

fn user_pw(i: usize, utf8: bool) -> Vec<u8> {
    match i {
        0 => b"u".to_vec(),
        1 => vec![],
        2 => b"0123456789abcdef0123456789abcdef".to_vec(),
        3 => b"0123456789abcdef0123456789abcdefXYZ45678".to_vec(),
        4 => {
            if utf8 {
                "pä".as_bytes().to_vec()
            } else {
                vec![b'p', 0xe4]
            }
        }
        // long passwords: revisions 5 and 6 use the first 127 bytes of the UTF-8 form, the older ones the first 32 bytes
        5 => (0..127).map(|i| b'a' + (i % 26) as u8).collect(),
        6 => (0..128).map(|i| b'A' + (i % 26) as u8).collect(),
        7 => {
            let mut v: Vec<u8> = (0..126).map(|i| b'a' + (i % 26) as u8).collect();
            v.extend_from_slice(if utf8 { "éxyz".as_bytes() } else { &[0xe9, b'x', b'y', b'z'] });
            v
        }
        _ => {
            let mut v: Vec<u8> = (0..126).map(|i| b'k' + (i % 10) as u8).collect();
            v.extend_from_slice(if utf8 { "€tail".as_bytes() } else { &[0x80, b't', b'a', b'i', b'l'] });
            v
        }
    }
}

struct Built {
    bytes: Vec<u8>,
    sec: Security,
    nr: u64,
    gen: u16,
    plain: Vec<u8>,
    meta_plain: Vec<u8>,
    enc_indirect: bool,
    upw: Vec<u8>,
    opw: Vec<u8>,
    compressed_string_obj: Option<u64>,
}

fn build(ch: &mut Chooser) -> Built {
    build_with(ch, None)
}
/// variants whose key derivation differs (R2, R3 at 40 and 128 bit, R4 AES, R5, R6), for the password sweep
const PW_VARIANTS: &[&str] = &["R2-RC4-40", "R3-RC4-40", "R3-RC4-128", "R4-AESV2", "R5-AESV3", "R6-AESV3"];
const N_PASSWORDS: usize = 256;
fn password_names() -> &'static [&'static str] {
    static N: std::sync::OnceLock<Vec<&'static str>> = std::sync::OnceLock::new();
    N.get_or_init(|| (0..N_PASSWORDS).map(|k| &*Box::leak(format!("pw{}", k).into_boxed_str())).collect())
}
fn build_with(ch: &mut Chooser, sweep: Option<(usize, usize)>) -> Built {
    let vi = match sweep {
        Some((v, _)) => VARIANTS.iter().position(|n| *n == PW_VARIANTS[v]).expect("variant name"),
        None => ch.pick_free_named("variant", VARIANTS),
    };
    let v = variant(vi);
    let utf8 = v.r() >= 5;
    let ui = ch.pick_named("user-pw", USER_PW);
    let oi = ch.pick_named("owner-pw", OWNER_PW);
    let pi = ch.pick_named("P", PERMS);
    let idi = ch.pick_named("ID0", ID0);
    // EncryptMetadata is only meaningful for V >= 4; older handlers always encrypt the metadata stream
    let em = ch.pick_named("EncryptMetadata", ENCMETA) == 0 || v.r() < 4;
    let place = ch.pick_named("Encrypt", ENCPLACE);
    let nr: u64 = [4, 255, 256, 65536, 999_990][ch.pick_named("objnr", OBJNR)];
    let gen: u16 = [0, 1, 65535][ch.pick_named("gen", GEN)];
    let plen: usize = [17, 0, 1, 15, 16, 32, 33][ch.pick_named("plain-len", PLEN)];
    let spell = ch.pick_named("string-spelling", SPELL);
    let sfilter = ch.pick_named("stream-filter", SFILTER);
    let xref = ch.pick_named("xref", XREF);
    // V 4: the key length of the crypt filter is its own /Length (bytes); the dictionary's /Length is defined for V 2 and 3 only
    let drop_dict_length = ch.pick_named("dict-Length", &["present", "absent-when-V4"]) == 1 && v.r() == 4;
    let mut upw = user_pw(ui, utf8);
    let mut opw: Vec<u8> = match oi {
        0 => b"o".to_vec(),
        1 => upw.clone(),
        2 => b"O123456789abcdef0123456789abcdefZ".to_vec(),
        _ => {
            let mut v: Vec<u8> = (0..125).map(|i| b'O' + (i % 7) as u8).collect();
            v.extend_from_slice(if utf8 { "€€".as_bytes() } else { &[0x80, 0x80] });
            v
        }
    };
    if let Some((_, k)) = sweep {
        // password sweep: the key derivations of revisions 5 and 6 run a data-dependent number of rounds
        upw = format!("user-{}", k).into_bytes();
        opw = format!("owner-{}", k * 7 + 1).into_bytes();
    }
    let p: i32 = [-4, -3904, 0][pi];
    let id0: Vec<u8> = match idi {
        0 => b"\x01\x02\x03\x04\x05\x06\x07\x08\x09\x0a\x0b\x0c\x0d\x0e\x0f\x10".to_vec(),
        1 => vec![0x7f],
        2 => vec![],
        3 => (0..40u8).map(|i| i.wrapping_mul(37).wrapping_add(3)).collect(),
        _ => b"(\\)\r\n\x00<>\xff%".to_vec(),
    };
    let sec = Security::new(v, &upw, &opw, p, &id0, em);
    let plain: Vec<u8> = (0..plen).map(|i| [b'(', b'A', 0, 0xff, b'\\', b')', b'\r', b'z'][i % 8]).collect();
    let meta_plain = b"<x:xmpmeta>plain metadata</x:xmpmeta>".to_vec();
    let mut fb = FileBuilder::new(b"");
    let crypt = |n: u64, g: u16, d: &[u8]| sec.encrypt(n, g, d);
    fb.crypt = Some(&crypt);
    fb.no_crypt = vec![9];
    let catalog = Val::dict(vec![("Type", Val::name("Catalog")), ("Pages", Val::r(2)), ("Metadata", Val::r(8))]);
    let pages = Val::dict(vec![("Type", Val::name("Pages")), ("Kids", Val::Array(vec![])), ("Count", Val::Int(0))]);
    if xref != 2 {
        fb.add(1, 0, &catalog);
        fb.add(2, 0, &pages);
    }
    // the string object: hand-spelled so that the hex form is exercised
    let ct = sec.encrypt(nr, gen, &plain);
    let mut body = b"<< /S ".to_vec();
    if spell == 0 {
        print_string(&mut body, &ct);
    } else {
        body.push(b'<');
        for b in &ct {
            body.extend_from_slice(format!("{:02x}", b).as_bytes());
        }
        body.push(b'>');
    }
    body.extend_from_slice(b" /Other [ (");
    // a second string, literal with escapes
    let ct2 = sec.encrypt(nr, gen, b"second");
    for &b in &ct2 {
        match b {
            b'(' | b')' | b'\\' => {
                body.push(b'\\');
                body.push(b);
            }
            b'\r' => body.extend_from_slice(b"\\r"),
            _ => body.push(b),
        }
    }
    body.extend_from_slice(b") ] >>");
    fb.add_raw(nr, gen, &body);
    // the stream object
    let sdata = if sfilter == 1 { pf::flate_encode(&plain, pf::FlateStyle::ZlibDefault) } else { plain.clone() };
    let mut sd: Vec<(&str, Val)> = vec![("Marker", Val::str("in stream dict"))];
    if sfilter == 1 {
        sd.push(("Filter", Val::name("FlateDecode")));
    }
    fb.add(nr + 1, gen, &Val::stream(sd, sdata));
    // metadata
    if em {
        fb.add(8, 0, &Val::stream(vec![("Type", Val::name("Metadata")), ("Subtype", Val::name("XML"))], meta_plain.clone()));
    } else {
        fb.no_crypt.push(8);
        fb.add(8, 0, &Val::stream(vec![("Type", Val::name("Metadata")), ("Subtype", Val::name("XML"))], meta_plain.clone()));
    }
    let mut compressed_string_obj = None;
    if xref >= 1 {
        // strings inside object streams are not encrypted individually; the stream as a whole is
        let mut members = vec![(13, Val::dict(vec![("CS", Val::Str(plain.clone()))]))];
        if xref == 2 {
            members.push((1, catalog.clone()));
            members.push((2, pages.clone()));
        }
        fb.add_objstm(12, &members, &ObjStmOpts::default());
        compressed_string_obj = Some(13);
    }
    let mut sec_dict = sec.dict();
    if drop_dict_length {
        if let Val::Dict(entries) = &mut sec_dict {
            entries.retain(|(k, _)| &k[..] != &b"Length"[..]);
        }
    }
    if place == 0 {
        fb.add(9, 0, &sec_dict);
    }
    let encv = if place == 0 { Val::r(9) } else { sec_dict.clone() };
    let extra = [("Root", Val::r(1)), ("Encrypt", encv), ("ID", Val::Array(vec![Val::Str(id0.clone()), Val::Str(id0.clone())]))];
    if xref >= 1 {
        fb.finish_stream(&extra, &XrefStreamOpts::new(14));
    } else {
        fb.finish_table(&extra, Split::Runs);
    }
    let bytes = fb.bytes();
    Built { bytes, sec, nr, gen, plain, meta_plain, enc_indirect: place == 0, upw, opw, compressed_string_obj }
}

fn read_all(b: &Built, pw: &[u8]) -> std::result::Result<(), (String, String)> {
    let file = match FileOptions::uncached().password(pw).load(b.bytes.clone()) {
        Ok(f) => f,
        Err(e) => return Err((format!("open-error:{}", err_variant(&e)), truncate(&format!("{}", err_root(&e)), 160))),
    };
    let r = file.resolver();
    let p = match r.resolve(PlainRef { id: b.nr, gen: b.gen as u64 }) {
        Ok(p) => p,
        Err(e) => return Err((format!("string-object-error:{}", err_variant(&e)), truncate(&format!("{}", err_root(&e)), 160))),
    };
    match &p {
        Primitive::Dictionary(d) => {
            match d.get("S") {
                Some(Primitive::String(s)) if s.as_bytes() == &b.plain[..] => {}
                other => return Err(("string-differs".into(), format!("expected {} got {:?}", show_bytes(&b.plain), other.map(crate::common::show_prim)))),
            }
            match d.get("Other") {
                Some(Primitive::Array(a)) if matches!(a.get(0), Some(Primitive::String(s)) if s.as_bytes() == b"second") => {}
                other => return Err(("second-string-differs".into(), format!("{:?}", other.map(crate::common::show_prim)))),
            }
        }
        other => return Err(("string-object-shape".into(), crate::common::show_prim(other))),
    }
    let sp = match r.resolve(PlainRef { id: b.nr + 1, gen: b.gen as u64 }) {
        Ok(p) => p,
        Err(e) => return Err((format!("stream-object-error:{}", err_variant(&e)), truncate(&format!("{}", err_root(&e)), 160))),
    };
    if let Primitive::Stream(ps) = &sp {
        match ps.info.get("Marker") {
            Some(Primitive::String(s)) if s.as_bytes() == b"in stream dict" => {}
            other => return Err(("stream-dict-string-differs".into(), format!("{:?}", other.map(crate::common::show_prim)))),
        }
    }
    let s = match Stream::<()>::from_primitive(sp, &r) {
        Ok(s) => s,
        Err(e) => return Err((format!("stream-error:{}", err_variant(&e)), String::new())),
    };
    match s.data(&r) {
        Ok(d) if &d[..] == &b.plain[..] => {}
        Ok(d) => return Err(("stream-data-differs".into(), format!("expected {} got {}", show_bytes(&b.plain), show_bytes(&d)))),
        Err(e) => return Err((format!("stream-data-error:{}", err_variant(&e)), truncate(&format!("{}", err_root(&e)), 160))),
    }
    // metadata stream (encrypted or, with EncryptMetadata false, stored in the clear)
    match r.resolve(PlainRef { id: 8, gen: 0 }).and_then(|p| Stream::<()>::from_primitive(p, &r)).and_then(|s| s.data(&r)) {
        Ok(d) if &d[..] == &b.meta_plain[..] => {}
        Ok(d) => return Err(("metadata-differs".into(), format!("got {}", show_bytes(&d)))),
        Err(e) => return Err((format!("metadata-error:{}", err_variant(&e)), String::new())),
    }
    if b.enc_indirect {
        match r.resolve(PlainRef { id: 9, gen: 0 }) {
            Ok(Primitive::Dictionary(d)) => {
                let o = d.get("O").and_then(|p| p.as_string().ok()).map(|s| s.as_bytes().to_vec());
                let u = d.get("U").and_then(|p| p.as_string().ok()).map(|s| s.as_bytes().to_vec());
                if o.as_deref() != Some(&b.sec.o[..]) || u.as_deref() != Some(&b.sec.u[..]) {
                    return Err(("encrypt-dict-strings-modified".into(), "the /O or /U string of the encryption dictionary was changed by decryption".into()));
                }
            }
            Ok(other) => return Err(("encrypt-dict-shape".into(), crate::common::show_prim(&other))),
            Err(e) => return Err((format!("encrypt-dict-error:{}", err_variant(&e)), String::new())),
        }
    }
    if let Some(n) = b.compressed_string_obj {
        match r.resolve(PlainRef { id: n, gen: 0 }) {
            Ok(Primitive::Dictionary(d)) => match d.get("CS") {
                Some(Primitive::String(s)) if s.as_bytes() == &b.plain[..] => {}
                other => return Err(("compressed-string-differs".into(), format!("{:?}", other.map(crate::common::show_prim)))),
            },
            Ok(other) => return Err(("compressed-object-shape".into(), crate::common::show_prim(&other))),
            Err(e) => return Err((format!("compressed-object-error:{}", err_variant(&e)), truncate(&format!("{}", err_root(&e)), 160))),
        }
    }
    Ok(())
}

pub fn password_case(ch: &mut Chooser, t: &mut Tally) {
    let v = ch.pick_free_named("pw-variant", PW_VARIANTS);
    let k = ch.pick_free_named("password", password_names());
    let b = build_with(ch, Some((v, k)));
    judge_built(ch, t, b, "c06.passwords");
}
pub fn crypt_case(ch: &mut Chooser, t: &mut Tally) {
    let b = build(ch);
    judge_built(ch, t, b, "c06.crypt");
}
fn judge_built(ch: &mut Chooser, t: &mut Tally, b: Built, engine: &str) {
    if ch.want_sample {
        println!("file ({} bytes):\n{}", b.bytes.len(), show_bytes(&b.bytes[..b.bytes.len().min(1500)]));
    }
    let mut wrongs: Vec<(&str, Vec<u8>)> = vec![];
    let mut w1 = b.upw.clone();
    if w1.is_empty() {
        w1 = b"x".to_vec();
    } else {
        w1[0] ^= 1;
    }
    wrongs.push(("user-pw-first-byte-changed", w1));
    let mut w2 = b.opw.clone();
    if w2.is_empty() {
        w2 = b"y".to_vec();
    } else {
        w2[0] ^= 1;
    }
    wrongs.push(("owner-pw-first-byte-changed", w2));
    if !b.upw.is_empty() && !b.opw.is_empty() {
        wrongs.push(("empty", vec![]));
    }
    wrongs.push(("other-config-owner", b"ownerpassword".to_vec()));
    for (who, pw) in [("user", b.upw.clone()), ("owner", b.opw.clone())] {
        t.evaluations += 1;
        t.distinct.insert(fnv_mix(fnv(&b.bytes), who.len() as u64));
        let res = catch(|| read_all(&b, &pw));
        let verdict = match res {
            Err((loc, msg)) => Err((panic_kind(&loc), msg)),
            Ok(r) => r,
        };
        match verdict {
            Ok(()) => t.outcome("plaintext"),
            Err((kind, detail)) => {
                t.outcome(&kind);
                let mut devs = ch.deviations();
                if who == "owner" {
                    devs.push("opened-with=owner-password".into());
                }
                t.fail(engine, &kind, devs, format!("opened with {} password: {}", who, detail), ch.replay_value(engine));
            }
        }
    }
    for (what, pw) in wrongs {
        if pw == b.upw || pw == b.opw {
            continue;
        }
        // for R <= 4 only the first 32 bytes of a password are significant
        t.evaluations += 1;
        let res = catch(|| FileOptions::uncached().password(&pw).load(b.bytes.clone()).map(|_| ()));
        let verdict: std::result::Result<(), (String, String)> = match res {
            Err((loc, msg)) => Err((panic_kind(&loc), msg)),
            Ok(Ok(())) => Err(("wrong-password-accepted".into(), format!("password {} ({}) opened the document", show_bytes(&pw), what))),
            Ok(Err(e)) => {
                if err_variant(&e) == "InvalidPassword" {
                    Ok(())
                } else {
                    Err((format!("wrong-password-error:{}", err_variant(&e)), format!("password {} ({}): expected InvalidPassword, got {}", show_bytes(&pw), what, truncate(&format!("{}", err_root(&e)), 120))))
                }
            }
        };
        match verdict {
            Ok(()) => t.outcome("rejected"),
            Err((kind, detail)) => {
                t.outcome(&kind);
                let mut devs = ch.deviations();
                devs.push(format!("wrong-password={}", what));
                t.fail(engine, &kind, devs, detail, ch.replay_value(engine));
            }
        }
    }
}

/// an RC4-encrypted variant of the rich document (used by C17 / C01 / C20 as a seed); user password "user"
pub fn encrypted_rich_doc() -> Option<Vec<u8>> {
    let id0 = b"0123456789abcdef".to_vec();
    let sec = Security::new(Variant::R3(16), b"user", b"owner", -4, &id0, true);
    let mut fb = FileBuilder::new(b"");
    let crypt = |n: u64, g: u16, d: &[u8]| sec.encrypt(n, g, d);
    fb.crypt = Some(&crypt);
    fb.no_crypt = vec![45];
    for (nr, v) in rich_objects() {
        fb.add(nr, 0, &v);
    }
    fb.add(45, 0, &sec.dict());
    fb.finish_table(&[("Root", Val::r(1)), ("Info", Val::r(37)), ("Encrypt", Val::r(45)), ("ID", Val::Array(vec![Val::Str(id0.clone()), Val::Str(id0.clone())]))], Split::Runs);
    Some(fb.bytes())
}

pub fn run(tier: Tier, _seed: u64, tally: &mut Tally) -> CheckMeta {
    let bound = if tier.thorough() { 3 } else { 2 };
    explore("c06.crypt", Limits::new(bound).wall(if tier.thorough() { 3000 } else { 600 }), tally, crypt_case);
    explore("c06.passwords", Limits::new(0), tally, password_case);
    tally.validated = tally.evaluations;
    tally.sample(json!({"variant": "R6-AESV3", "deviation": "plain-len=16", "opened_with": ["user", "owner", "4 wrong passwords"]}));
    tally.sample(json!({"variant": "R3-RC4-56", "deviation": "gen=65535"}));
    CheckMeta {
        prop: "C06",
        level: "model_checking",
        rule: format!("all 17 handler variants (R2; R3 at every key length 40..128; R4 with /V2 and /AESV2; R5; R6) as a free dimension x <= {} deviations among user password (9, incl. 127/128 bytes and multi-byte characters across byte 127), owner password (4), /P (3), /ID[0] (5), EncryptMetadata (2), /Encrypt direct or indirect, object number (5, up to 999990), generation (0, 1, 65535), plaintext length (0, 1, 15, 16, 17, 32, 33), string spelling, stream filter, xref format with a compressed string; every document is produced by the independent encryptor, opened with the user and with the owner password (every string, stream, metadata stream and the /Encrypt dictionary's own strings compared with the plaintext) and with up to four wrong passwords (must be InvalidPassword). Password sweep: {} key-derivation variants x {} user/owner password pairs (everything else default), since the revision 5/6 hashes run a password-dependent number of rounds. Distinct by file hash x password.", bound, PW_VARIANTS.len(), N_PASSWORDS),
        assumptions: vec!["the encryptor's key derivation is validated at start-up against the ten third-party encrypted fixtures in files/".into(), "public-key handlers, /StrF != /StmF and named /Crypt filters are outside the property".into()],
        exhaustive: true,
        bounds: json!({"deviations": bound}),
    }
}

pub fn replay(case: &Value, tally: &mut Tally) {
    let picks: Vec<u32> = case["picks"].as_array().map(|a| a.iter().map(|x| x.as_u64().unwrap() as u32).collect()).unwrap_or_default();
    if case["engine"].as_str() == Some("c06.passwords") {
        run_one(&picks, tally, password_case);
    } else {
        run_one(&picks, tally, crypt_case);
    }
}
