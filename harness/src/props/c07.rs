//! C07 — page n is the n-th leaf of the page tree; attributes come from the nearest ancestor.
use crate::core::*;
use crate::explore::*;
use crate::pdfgen::file::*;
use crate::pdfgen::val::*;
use pdf::file::FileOptions;
use serde_json::{json, Value};
use std::sync::atomic::{AtomicUsize, Ordering};

static MAX_NODES: AtomicUsize = AtomicUsize::new(6);

#[derive(Clone, Debug)]
struct Node {
    nr: u64,
    is_page: bool,
    parent: Option<usize>,
    kids: Vec<usize>,
    media: bool,
    crop: bool,
    res: bool,
}

const ATTR: &[&str] = &["absent", "present"];

fn gen_tree(ch: &mut Chooser, nodes: &mut Vec<Node>, me: usize, remaining: &mut usize) {
    // one choice per potential kid: stop, add a page, add a Pages node (every ordered tree exactly once)
    while *remaining > 0 {
        let k = ch.pick_free_named("kid#", &["none", "page", "pages"]);
        if k == 0 {
            break;
        }
        *remaining -= 1;
        let idx = nodes.len();
        nodes.push(Node { nr: 0, is_page: k == 1, parent: Some(me), kids: vec![], media: false, crop: false, res: false });
        nodes[me].kids.push(idx);
        if k == 2 {
            gen_tree(ch, nodes, idx, remaining);
        }
    }
}

fn leaves(nodes: &[Node], me: usize, out: &mut Vec<usize>) {
    for &k in &nodes[me].kids {
        if nodes[k].is_page {
            out.push(k);
        } else {
            leaves(nodes, k, out);
        }
    }
}
fn count(nodes: &[Node], me: usize) -> usize {
    let mut v = vec![];
    leaves(nodes, me, &mut v);
    v.len()
}
fn nearest(nodes: &[Node], mut me: usize, f: impl Fn(&Node) -> bool) -> Option<usize> {
    loop {
        if f(&nodes[me]) {
            return Some(me);
        }
        match nodes[me].parent {
            Some(p) => me = p,
            None => return None,
        }
    }
}

/// how the boxes are written: a rectangle may give any two diagonally opposite corners, and a box without area is
/// still the node's own entry
const BOX_STYLES: &[&str] = &["lower-left+upper-right", "upper-left+lower-right", "upper-right+lower-left", "no-area"];
fn media_box(style: usize, i: usize) -> [f32; 4] {
    let w = 100.0 + i as f32;
    match style {
        0 => [0.0, 0.0, w, 200.0],
        1 => [0.0, 200.0, w, 0.0],
        2 => [w, 200.0, 0.0, 0.0],
        _ => [w, 7.0, w, 7.0],
    }
}
fn crop_box(style: usize, i: usize) -> [f32; 4] {
    let r = 50.5 + i as f32;
    match style {
        0 => [1.0, 1.0, r, 90.0],
        1 => [1.0, 90.0, r, 1.0],
        2 => [r, 90.0, 1.0, 1.0],
        _ => [r, 3.0, r, 3.0],
    }
}
fn box_val(b: [f32; 4]) -> Val {
    Val::Array(b.iter().map(|x| if x.fract() == 0.0 { Val::Int(*x as i64) } else { Val::real(&format!("{}", x)) }).collect())
}
fn box_is(b: &pdf::object::Rectangle, want: [f32; 4]) -> bool {
    [b.left, b.bottom, b.right, b.top] == want
}
/// where the values of a node's entries are written: any value may be an indirect object of its own
const STORAGE: &[&str] = &["in-place", "kids-arrays-indirect", "boxes-and-resources-indirect", "counts-indirect"];
fn build_file(nodes: &[Node], style: usize, storage: usize) -> Vec<u8> {
    let mut fb = FileBuilder::new(b"");
    let mut next_free = nodes.iter().map(|n| n.nr).max().unwrap_or(1) + 10;
    let mut extra: Vec<(u64, Val)> = vec![];
    let mut place = |v: Val, indirect: bool| -> Val {
        if indirect {
            next_free += 1;
            extra.push((next_free, v));
            Val::r(next_free)
        } else {
            v
        }
    };
    fb.add(1, 0, &Val::dict(vec![("Type", Val::name("Catalog")), ("Pages", Val::r(nodes[0].nr))]));
    for (i, n) in nodes.iter().enumerate() {
        let mut d: Vec<(&str, Val)> = vec![("Type", Val::name(if n.is_page { "Page" } else { "Pages" }))];
        if let Some(p) = n.parent {
            d.push(("Parent", Val::r(nodes[p].nr)));
        }
        if !n.is_page {
            d.push(("Kids", place(Val::Array(n.kids.iter().map(|&k| Val::r(nodes[k].nr)).collect()), storage == 1)));
            d.push(("Count", place(Val::Int(count(nodes, i) as i64), storage == 3)));
        }
        if n.media {
            d.push(("MediaBox", place(box_val(media_box(style, i)), storage == 2)));
        }
        if n.crop {
            d.push(("CropBox", place(box_val(crop_box(style, i)), storage == 2)));
        }
        if n.res {
            let gs = Val::Dict(vec![(format!("G{}", i).into_bytes(), Val::dict(vec![("Type", Val::name("ExtGState")), ("LW", Val::Int(i as i64))]))]);
            d.push(("Resources", place(Val::dict(vec![("ExtGState", gs)]), storage == 2)));
        }
        fb.add(n.nr, 0, &Val::dict(d));
    }
    for (nr, v) in &extra {
        fb.add(*nr, 0, v);
    }
    fb.finish_table(&[("Root", Val::r(1))], Split::Runs);
    fb.bytes()
}

fn check_file(nodes: &[Node], bytes: &[u8], cached: bool, style: usize) -> std::result::Result<(), (String, String)> {
    let mut order = vec![];
    leaves(nodes, 0, &mut order);
    macro_rules! body {
        ($file:expr) => {{
            let file = match $file {
                Ok(f) => f,
                Err(e) => return Err((format!("load-error:{}", err_variant(&e)), truncate(&format!("{}", err_root(&e)), 200))),
            };
            if file.num_pages() as usize != order.len() {
                return Err(("num-pages".into(), format!("num_pages {} but the tree has {} leaves", file.num_pages(), order.len())));
            }
            for (i, &leaf) in order.iter().enumerate() {
                let page = match file.get_page(i as u32) {
                    Ok(p) => p,
                    Err(e) => return Err((format!("get-page-error:{}", err_variant(&e)), format!("page {} of {}: {}", i, order.len(), truncate(&format!("{}", err_root(&e)), 160)))),
                };
                let got = page.get_ref().get_inner().id;
                if got != nodes[leaf].nr {
                    return Err(("wrong-leaf".into(), format!("page {} is object {} but the {}-th leaf in document order is object {}", i, got, i, nodes[leaf].nr)));
                }
                // media box
                let exp_media = nearest(nodes, leaf, |n| n.media);
                match (page.media_box(), exp_media) {
                    (Ok(b), Some(src)) => {
                        if !box_is(&b, media_box(style, src)) {
                            return Err(("media-box-source".into(), format!("page {}: media box {:?} but the nearest node with a /MediaBox is node {} (width {})", i, b, src, 100 + src)));
                        }
                    }
                    (Err(e), None) => {
                        if err_variant(&e) != "MissingEntry" {
                            return Err((format!("media-box-error:{}", err_variant(&e)), "no node has a MediaBox".into()));
                        }
                    }
                    (Ok(b), None) => return Err(("media-box-invented".into(), format!("{:?}", b))),
                    (Err(e), Some(src)) => return Err((format!("media-box-error:{}", err_variant(&e)), format!("expected the box of node {}", src))),
                }
                // crop box falls back to the media box
                let exp_crop = nearest(nodes, leaf, |n| n.crop);
                match (page.crop_box(), exp_crop, exp_media) {
                    (Ok(b), Some(src), _) => {
                        if !box_is(&b, crop_box(style, src)) {
                            return Err(("crop-box-source".into(), format!("page {}: crop box {:?} but nearest /CropBox is on node {}", i, b, src)));
                        }
                    }
                    (Ok(b), None, Some(m)) => {
                        if !box_is(&b, media_box(style, m)) {
                            return Err(("crop-box-fallback".into(), format!("page {}: crop box {:?} should fall back to the media box of node {}", i, b, m)));
                        }
                    }
                    (Err(e), None, None) => {
                        if err_variant(&e) != "MissingEntry" {
                            return Err((format!("crop-box-error:{}", err_variant(&e)), String::new()));
                        }
                    }
                    (Ok(b), None, None) => return Err(("crop-box-invented".into(), format!("{:?}", b))),
                    (Err(e), _, _) => return Err((format!("crop-box-error:{}", err_variant(&e)), format!("page {}", i))),
                }
                let exp_res = nearest(nodes, leaf, |n| n.res);
                match (page.resources(), exp_res) {
                    (Ok(r), Some(src)) => {
                        let key = format!("G{}", src);
                        if r.graphics_states.len() != 1 || !r.graphics_states.keys().any(|k| k.as_str() == key) {
                            return Err(("resources-source".into(), format!("page {}: resources have {:?} but nearest /Resources is on node {}", i, r.graphics_states.keys().collect::<Vec<_>>(), src)));
                        }
                    }
                    (Err(e), None) => {
                        if err_variant(&e) != "MissingEntry" {
                            return Err((format!("resources-error:{}", err_variant(&e)), String::new()));
                        }
                    }
                    (Ok(_), None) => return Err(("resources-invented".into(), String::new())),
                    (Err(e), Some(src)) => return Err((format!("resources-error:{}", err_variant(&e)), format!("expected node {}", src))),
                }
            }
            for extra in 0..3u32 {
                let i = order.len() as u32 + extra;
                match file.get_page(i) {
                    Ok(p) => return Err(("out-of-bounds-page-returned".into(), format!("get_page({}) with {} pages returned object {}", i, order.len(), p.get_ref().get_inner().id))),
                    Err(e) => {
                        if err_variant(&e) != "PageOutOfBounds" {
                            return Err((format!("out-of-bounds-error:{}", err_variant(&e)), format!("get_page({}) with {} pages", i, order.len())));
                        }
                    }
                }
            }
            // the iterator agrees with get_page
            let n = file.pages().filter(|p| p.is_ok()).count();
            if n != order.len() {
                return Err(("pages-iterator".into(), format!("pages() yields {} ok pages, expected {}", n, order.len())));
            }
            Ok(())
        }};
    }
    if cached {
        body!(FileOptions::cached().load(bytes.to_vec()))
    } else {
        body!(FileOptions::uncached().load(bytes.to_vec()))
    }
}

fn judge(engine: &str, nodes: &[Node], ch: &mut Chooser, t: &mut Tally) {
    let style = ch.pick_named("box-corners", BOX_STYLES);
    let storage = ch.pick_named("value-storage", STORAGE);
    let bytes = build_file(nodes, style, storage);
    if ch.want_sample {
        println!("tree: {:?}\nfile:\n{}", nodes.iter().map(|n| (n.nr, n.is_page, n.kids.clone(), n.media, n.crop, n.res)).collect::<Vec<_>>(), String::from_utf8_lossy(&bytes));
    }
    for cached in [false, true] {
        t.evaluations += 1;
        t.distinct.insert(fnv_mix(fnv(&bytes), cached as u64));
        let res = catch(|| check_file(nodes, &bytes, cached, style));
        let verdict = match res {
            Err((loc, msg)) => Err((panic_kind(&loc), msg)),
            Ok(r) => r,
        };
        match verdict {
            Ok(()) => t.outcome("ok"),
            Err((kind, detail)) => {
                t.outcome(&kind);
                let mut devs = ch.deviations();
                if cached {
                    devs.push("config=cached".into());
                }
                let shape: String = shape_of(nodes, 0);
                let mut rv = ch.replay_value(engine);
                rv["max_nodes"] = json!(MAX_NODES.load(Ordering::Relaxed));
                t.fail(engine, &kind, devs, format!("tree {}: {}", shape, detail), rv);
            }
        }
    }
}
fn shape_of(nodes: &[Node], me: usize) -> String {
    if nodes[me].is_page {
        "p".into()
    } else {
        format!("({})", nodes[me].kids.iter().map(|&k| shape_of(nodes, k)).collect::<String>())
    }
}

pub fn tree_case(ch: &mut Chooser, t: &mut Tally) {
    let mut nodes = vec![Node { nr: 0, is_page: false, parent: None, kids: vec![], media: false, crop: false, res: false }];
    let mut remaining = MAX_NODES.load(Ordering::Relaxed) - 1;
    gen_tree(ch, &mut nodes, 0, &mut remaining);
    // object numbers in a scrambled order, so document order differs from numeric order
    let n = nodes.len();
    let m = [7usize, 5, 11, 13].into_iter().find(|m| n % m != 0).unwrap();
    for (i, node) in nodes.iter_mut().enumerate() {
        node.nr = 2 + ((i * m + 3) % n) as u64;
    }
    // by default the root carries a media box and resources (a page must find them somewhere)
    for i in 0..n {
        let default_on = i == 0;
        let m = ch.pick_named("media#", ATTR) == 1;
        nodes[i].media = m != default_on;
        let r = ch.pick_named("res#", ATTR) == 1;
        nodes[i].res = r != default_on;
        nodes[i].crop = ch.pick_named("crop#", ATTR) == 1;
    }
    judge("c07.tree", &nodes, ch, t);
}

const SIDE: &[&str] = &["none", "before", "after", "both"];
const DEPTHS: &[&str] = &["1", "2", "3", "4", "5", "6", "7", "8", "9", "10", "11", "12"];

pub fn chain_case(ch: &mut Chooser, t: &mut Tally) {
    let depth = ch.pick_free_named("depth", DEPTHS) + 1;
    let side = ch.pick_free_named("side-pages", SIDE);
    let attr_level = ch.pick_free("attrs-at-level", depth + 1); // 0 = root only, k = also on level k
    let mut nodes = vec![Node { nr: 0, is_page: false, parent: None, kids: vec![], media: true, crop: false, res: true }];
    let mut cur = 0usize;
    for level in 1..=depth {
        let mut add = |nodes: &mut Vec<Node>, is_page: bool, parent: usize| -> usize {
            let idx = nodes.len();
            nodes.push(Node { nr: 0, is_page, parent: Some(parent), kids: vec![], media: false, crop: false, res: false });
            nodes[parent].kids.push(idx);
            idx
        };
        if side == 1 || side == 3 {
            add(&mut nodes, true, cur);
        }
        let next = add(&mut nodes, level == depth, cur);
        if side == 2 || side == 3 {
            add(&mut nodes, true, cur);
        }
        if level == attr_level && !nodes[next].is_page {
            nodes[next].media = true;
            nodes[next].crop = true;
            nodes[next].res = true;
        }
        cur = next;
    }
    let n = nodes.len();
    let m = [5usize, 7, 11, 13].into_iter().find(|m| n % m != 0).unwrap();
    for (i, node) in nodes.iter_mut().enumerate() {
        node.nr = 2 + ((i * m + 1) % n) as u64;
    }
    judge("c07.chain", &nodes, ch, t);
}

pub fn run(tier: Tier, _seed: u64, tally: &mut Tally) -> CheckMeta {
    let (max_nodes, bound) = if tier.thorough() { (8, 3) } else { (7, 2) };
    MAX_NODES.store(max_nodes, Ordering::Relaxed);
    explore("c07.tree", Limits::new(bound).wall(if tier.thorough() { 3000 } else { 600 }), tally, tree_case);
    explore("c07.chain", Limits::new(0), tally, chain_case);
    tally.validated = tally.evaluations;
    tally.sample(json!({"engine": "c07.tree", "shape": "((p)()p(pp))", "attributes": "MediaBox on root and on node 3, CropBox on node 5"}));
    tally.sample(json!({"engine": "c07.chain", "depth": 12, "side-pages": "both"}));
    CheckMeta {
        prop: "C07",
        level: "model_checking",
        rule: format!("all rooted ordered trees with <= {} nodes (each childless node independently a page or an empty Pages node; full product), accurate /Count and /Parent, object numbers scrambled against document order; <= {} deviations of attribute placement (per node and per attribute MediaBox / CropBox / Resources present or absent, default: only on the root) and of the way the boxes are written (any two opposite corners, a box without area) and of where values are stored (/Kids arrays, boxes and resources, or /Count as indirect objects of their own); plus chains of depth 1..12 with side pages before/after/both and an attribute-carrying level. Every file is opened uncached and cached; num_pages, get_page(i) for all i and count..count+2, media_box, crop_box (fallback), resources and pages() are compared with the reference model (DFS leaf list, nearest tagged ancestor). Distinct by file hash x configuration.", max_nodes, bound),
        assumptions: vec!["object numbers are a permutation of the node indices; tagged values identify the node that supplied an attribute".into()],
        exhaustive: true,
        bounds: json!({"max_nodes": max_nodes, "attribute_deviations": bound, "chain_depth": 12}),
    }
}

pub fn replay(case: &Value, tally: &mut Tally) {
    let picks: Vec<u32> = case["picks"].as_array().map(|a| a.iter().map(|x| x.as_u64().unwrap() as u32).collect()).unwrap_or_default();
    match case["engine"].as_str().unwrap_or("") {
        "c07.chain" => {
            run_one(&picks, tally, chain_case);
        }
        _ => {
            MAX_NODES.store(case["max_nodes"].as_u64().unwrap_or(6) as usize, Ordering::Relaxed);
            run_one(&picks, tally, tree_case);
        }
    }
}
