//! C08 — content-stream operators round-trip and mean what the operator table (ISO 32000-1 Table A.1) says.
use crate::core::*;
use crate::explore::*;
use crate::pdfgen::val::{print, Val};
use crate::props::c04::val_to_prim;
use pdf::content::*;
use pdf::object::{NoResolve, RenderingIntent};
use pdf::primitive::{PdfString, Primitive};
use rayon::prelude::*;
use serde_json::{json, Value};

// ------------------------------------------------------------------------------------------------
// canonical text of an Op (structural; -0 == 0; ints and reals of equal value identified)
fn fl(x: f32) -> String {
    format!("{:?}", x + 0.0)
}
fn pt(p: Point) -> String {
    format!("({},{})", fl(p.x), fl(p.y))
}
fn prim_s(p: &Primitive) -> String {
    match p {
        Primitive::Integer(i) => fl(*i as f32),
        Primitive::Number(x) => fl(*x),
        Primitive::Array(a) => format!("[{}]", a.iter().map(prim_s).collect::<Vec<_>>().join(" ")),
        Primitive::Dictionary(d) => {
            let mut items: Vec<String> = d.iter().map(|(k, v)| format!("/{} {}", k.as_str(), prim_s(v))).collect();
            items.sort();
            format!("<<{}>>", items.join(" "))
        }
        other => crate::common::show_prim(other),
    }
}
fn color_s(c: &Color) -> String {
    match c {
        Color::Gray(g) => format!("Gray({})", fl(*g)),
        Color::Rgb(c) => format!("Rgb({},{},{})", fl(c.red), fl(c.green), fl(c.blue)),
        Color::Cmyk(c) => format!("Cmyk({},{},{},{})", fl(c.cyan), fl(c.magenta), fl(c.yellow), fl(c.key)),
        Color::Other(a) => format!("Other[{}]", a.iter().map(prim_s).collect::<Vec<_>>().join(" ")),
    }
}
fn matrix_s(m: &Matrix) -> String {
    format!("[{} {} {} {} {} {}]", fl(m.a), fl(m.b), fl(m.c), fl(m.d), fl(m.e), fl(m.f))
}
pub fn canon(op: &Op) -> String {
    match op {
        Op::BeginMarkedContent { tag, properties } => format!("BeginMarkedContent({},{})", tag.as_str(), properties.as_ref().map(prim_s).unwrap_or_else(|| "-".into())),
        Op::EndMarkedContent => "EndMarkedContent".into(),
        Op::MarkedContentPoint { tag, properties } => format!("MarkedContentPoint({},{})", tag.as_str(), properties.as_ref().map(prim_s).unwrap_or_else(|| "-".into())),
        Op::Close => "Close".into(),
        Op::MoveTo { p } => format!("MoveTo{}", pt(*p)),
        Op::LineTo { p } => format!("LineTo{}", pt(*p)),
        Op::CurveTo { c1, c2, p } => format!("CurveTo{}{}{}", pt(*c1), pt(*c2), pt(*p)),
        Op::Rect { rect } => format!("Rect({},{},{},{})", fl(rect.x), fl(rect.y), fl(rect.width), fl(rect.height)),
        Op::EndPath => "EndPath".into(),
        Op::Stroke => "Stroke".into(),
        Op::FillAndStroke { winding } => format!("FillAndStroke({:?})", winding),
        Op::Fill { winding } => format!("Fill({:?})", winding),
        Op::Shade { name } => format!("Shade({})", name.as_str()),
        Op::Clip { winding } => format!("Clip({:?})", winding),
        Op::Save => "Save".into(),
        Op::Restore => "Restore".into(),
        Op::Transform { matrix } => format!("Transform{}", matrix_s(matrix)),
        Op::LineWidth { width } => format!("LineWidth({})", fl(*width)),
        Op::Dash { pattern, phase } => format!("Dash([{}],{})", pattern.iter().map(|x| fl(*x)).collect::<Vec<_>>().join(" "), fl(*phase)),
        Op::LineJoin { join } => format!("LineJoin({:?})", join),
        Op::LineCap { cap } => format!("LineCap({:?})", cap),
        Op::MiterLimit { limit } => format!("MiterLimit({})", fl(*limit)),
        Op::Flatness { tolerance } => format!("Flatness({})", fl(*tolerance)),
        Op::GraphicsState { name } => format!("GraphicsState({})", name.as_str()),
        Op::StrokeColor { color } => format!("StrokeColor({})", color_s(color)),
        Op::FillColor { color } => format!("FillColor({})", color_s(color)),
        Op::FillColorSpace { name } => format!("FillColorSpace({})", name.as_str()),
        Op::StrokeColorSpace { name } => format!("StrokeColorSpace({})", name.as_str()),
        Op::RenderingIntent { intent } => format!("RenderingIntent({})", intent.to_str()),
        Op::BeginText => "BeginText".into(),
        Op::EndText => "EndText".into(),
        Op::CharSpacing { char_space } => format!("CharSpacing({})", fl(*char_space)),
        Op::WordSpacing { word_space } => format!("WordSpacing({})", fl(*word_space)),
        Op::TextScaling { horiz_scale } => format!("TextScaling({})", fl(*horiz_scale)),
        Op::Leading { leading } => format!("Leading({})", fl(*leading)),
        Op::TextFont { name, size } => format!("TextFont({},{})", name.as_str(), fl(*size)),
        Op::TextRenderMode { mode } => format!("TextRenderMode({})", *mode as u8),
        Op::TextRise { rise } => format!("TextRise({})", fl(*rise)),
        Op::MoveTextPosition { translation } => format!("MoveTextPosition{}", pt(*translation)),
        Op::SetTextMatrix { matrix } => format!("SetTextMatrix{}", matrix_s(matrix)),
        Op::TextNewline => "TextNewline".into(),
        Op::TextDraw { text } => format!("TextDraw({})", show_bytes(text.as_bytes())),
        Op::TextDrawAdjusted { array } => format!(
            "TextDrawAdjusted[{}]",
            array
                .iter()
                .map(|a| match a {
                    TextDrawAdjusted::Text(t) => format!("({})", show_bytes(t.as_bytes())),
                    TextDrawAdjusted::Spacing(s) => fl(*s),
                })
                .collect::<Vec<_>>()
                .join(" ")
        ),
        Op::XObject { name } => format!("XObject({})", name.as_str()),
        Op::InlineImage { image } => {
            let filters: Vec<String> = image.inner.filters.iter().map(|f| format!("{:?}", f).split(|c: char| !c.is_alphanumeric()).next().unwrap_or("").to_string()).collect();
            let data = match catch(|| image.inner.data(&NoResolve)) {
                Ok(Ok(d)) => show_bytes(&d),
                Ok(Err(e)) => format!("error:{}", err_variant(&e)),
                Err((loc, _)) => format!("panic:{}", loc),
            };
            format!(
                "InlineImage({}x{} bpc={:?} cs={} mask={} decode={:?} interpolate={} intent={} filters=[{}] data={})",
                image.width,
                image.height,
                image.bits_per_component,
                image.color_space.as_ref().map(|c| format!("{:?}", c)).unwrap_or_else(|| "-".into()),
                image.image_mask,
                image.decode,
                image.interpolate,
                image.intent.map(|i| i.to_str()).unwrap_or("-"),
                filters.join(","),
                data
            )
        }
    }
}
pub fn canon_seq(ops: &[Op]) -> Vec<String> {
    ops.iter().map(canon).collect()
}

// ------------------------------------------------------------------------------------------------
// operator-level reference AST, its printer and the reference interpreter (operator table semantics)

#[derive(Clone, Debug)]
pub enum R {
    /// operator with numeric operands only: (keyword, operands)
    Num(&'static str, Vec<f32>),
    /// name operand(s) then numbers
    Name(&'static str, &'static str, Vec<f32>),
    NoArg(&'static str),
    Str(&'static str, Vec<u8>),
    Quote2(f32, f32, Vec<u8>),
    TJ(Vec<(Option<Vec<u8>>, f32)>),
    Dash(Vec<f32>, f32),
    ColorOther(&'static str, Vec<Val>),
    Marked(&'static str, &'static str, Option<Val>),
    /// index into `inline_images()`
    InlineImage(usize),
}

/// inline image spellings: (text from BI to EI, the operation it denotes in canonical form)
pub fn inline_images() -> Vec<(Vec<u8>, String)> {
    use crate::pdfgen::filters as enc;
    let gray = |sep: &[u8]| {
        let mut t = b"BI /W 2 /H 1 /CS /G /BPC 8 ID \x10\xf0".to_vec();
        t.extend_from_slice(sep);
        t.extend_from_slice(b"EI");
        (t, "InlineImage(2x1 bpc=Some(8) cs=DeviceGray mask=false decode=None interpolate=false intent=- filters=[] data=\\x10\\xf0)".to_string())
    };
    let mut v = vec![gray(b"\n"), gray(b" "), gray(b"\r"), gray(b"\t")];
    // full key names, data that contains the letters EI without the white-space that would end it
    v.push((
        b"BI /Width 3 /Height 1 /ColorSpace /DeviceRGB /BitsPerComponent 8 /Interpolate true /Intent /Perceptual ID aEIbxEI.E\nEI".to_vec(),
        "InlineImage(3x1 bpc=Some(8) cs=DeviceRGB mask=false decode=None interpolate=true intent=Perceptual filters=[] data=aEIbxEI.E)".to_string(),
    ));
    // stencil mask with a decode array
    v.push((b"BI /W 8 /H 1 /IM true /D [1 0] ID \xa5\nEI".to_vec(), "InlineImage(8x1 bpc=None cs=- mask=true decode=Some([1.0, 0.0]) interpolate=false intent=- filters=[] data=\\xa5)".to_string()));
    // abbreviated filter, hexadecimal data with its end marker
    v.push((b"BI /W 2 /H 1 /CS /G /BPC 8 /F /AHx ID 10f0>\nEI".to_vec(), "InlineImage(2x1 bpc=Some(8) cs=DeviceGray mask=false decode=None interpolate=false intent=- filters=[ASCIIHexDecode] data=\\x10\\xf0)".to_string()));
    // a filter chain with abbreviated names
    let raw = [1u8, 2, 3, 250, 251, 252];
    let mut t = b"BI /W 2 /H 1 /CS /RGB /BPC 8 /F [/A85 /Fl] ID ".to_vec();
    t.extend_from_slice(&enc::a85_encode(&enc::flate_encode(&raw, enc::FlateStyle::ZlibDefault), enc::A85Style::Plain));
    t.extend_from_slice(b"\nEI");
    v.push((t, format!("InlineImage(2x1 bpc=Some(8) cs=DeviceRGB mask=false decode=None interpolate=false intent=- filters=[ASCII85Decode,FlateDecode] data={})", show_bytes(&raw))));
    // decode parameters: one dictionary for one filter, an array (null for the filter without parameters) for a chain
    let px = [10u8, 20, 30, 40, 50, 60];
    let predicted = enc::flate_encode(&enc::png_predict(&px, 1, 8, 3, |_| 2), enc::FlateStyle::ZlibDefault);
    let mut t = b"BI /W 3 /H 2 /CS /G /BPC 8 /F /AHx ID ".to_vec();
    t.clear();
    t.extend_from_slice(b"BI /W 3 /H 2 /CS /G /BPC 8 /F [/AHx /Fl] /DP [null << /Predictor 12 /Columns 3 >>] ID ");
    t.extend_from_slice(&enc::hex_encode(&predicted, enc::HexStyle::Lower, true));
    t.extend_from_slice(b"\nEI");
    v.push((t, format!("InlineImage(3x2 bpc=Some(8) cs=DeviceGray mask=false decode=None interpolate=false intent=- filters=[ASCIIHexDecode,FlateDecode] data={})", show_bytes(&px))));
    let mut t = b"BI /W 3 /H 2 /CS /G /BPC 8 /F /A85 ID ".to_vec();
    t.clear();
    t.extend_from_slice(b"BI /W 3 /H 2 /CS /G /BPC 8 /F [/A85 /Fl] /DecodeParms [null << /Predictor 12 /Columns 3 >>] ID ");
    t.extend_from_slice(&enc::a85_encode(&predicted, enc::A85Style::Plain));
    t.extend_from_slice(b"\nEI");
    v.push((t, format!("InlineImage(3x2 bpc=Some(8) cs=DeviceGray mask=false decode=None interpolate=false intent=- filters=[ASCII85Decode,FlateDecode] data={})", show_bytes(&px))));
    // indexed colour space with abbreviated names
    v.push((
        b"BI /W 8 /H 1 /CS [/I /RGB 1 <000000ffffff>] /BPC 1 ID \xa5 EI".to_vec(),
        format!("InlineImage(8x1 bpc=Some(1) cs={:?} mask=false decode=None interpolate=false intent=- filters=[] data=\\xa5)", pdf::object::ColorSpace::Indexed(Box::new(pdf::object::ColorSpace::DeviceRGB), 1, vec![0u8, 0, 0, 255, 255, 255].into())),
    ));
    v
}

fn num_val(x: f32) -> Val {
    if x.fract() == 0.0 && x.abs() < 1e6 {
        Val::Int(x as i64)
    } else {
        // decimal expansion without exponent
        let s = format!("{}", x);
        if s.contains('.') {
            Val::Real(s)
        } else {
            Val::Real(format!("{}.0", s))
        }
    }
}
pub fn r_text(r: &R) -> Vec<u8> {
    let mut out: Vec<u8> = vec![];
    let mut put = |v: &Val, out: &mut Vec<u8>| {
        out.extend_from_slice(&print(v));
        out.push(b' ');
    };
    match r {
        R::Num(k, n) => {
            for x in n {
                put(&num_val(*x), &mut out);
            }
            out.extend_from_slice(k.as_bytes());
        }
        R::Name(k, name, n) => {
            put(&Val::name(name), &mut out);
            for x in n {
                put(&num_val(*x), &mut out);
            }
            out.extend_from_slice(k.as_bytes());
        }
        R::NoArg(k) => out.extend_from_slice(k.as_bytes()),
        R::Str(k, s) => {
            put(&Val::Str(s.clone()), &mut out);
            out.extend_from_slice(k.as_bytes());
        }
        R::Quote2(a, b, s) => {
            put(&num_val(*a), &mut out);
            put(&num_val(*b), &mut out);
            put(&Val::Str(s.clone()), &mut out);
            out.push(b'"');
        }
        R::TJ(items) => {
            let arr = Val::Array(items.iter().map(|(t, n)| match t { Some(t) => Val::Str(t.clone()), None => num_val(*n) }).collect());
            put(&arr, &mut out);
            out.extend_from_slice(b"TJ");
        }
        R::Dash(p, ph) => {
            put(&Val::Array(p.iter().map(|x| num_val(*x)).collect()), &mut out);
            put(&num_val(*ph), &mut out);
            out.push(b'd');
        }
        R::ColorOther(k, vals) => {
            for v in vals {
                put(v, &mut out);
            }
            out.extend_from_slice(k.as_bytes());
        }
        R::Marked(k, tag, props) => {
            put(&Val::name(tag), &mut out);
            if let Some(p) = props {
                put(p, &mut out);
            }
            out.extend_from_slice(k.as_bytes());
        }
        R::InlineImage(i) => out.extend_from_slice(&inline_images()[*i].0),
    }
    out.push(b'\n');
    out
}

#[derive(Default, Clone, Copy)]
struct PathState {
    cur: Option<Point>,
    start: Option<Point>,
}
fn p(x: f32, y: f32) -> Point {
    Point { x, y }
}
/// expected operations for a sequence of operators, as canonical strings ("?..." marks an operation the object model cannot express)
pub fn interpret(seq: &[R]) -> Vec<String> {
    let mut st = PathState::default();
    let mut out: Vec<String> = vec![];
    let mut push = |op: Op, out: &mut Vec<String>| out.push(canon(&op));
    use Winding::*;
    for r in seq {
        match r {
            R::Num(k, n) => match *k {
                "w" => push(Op::LineWidth { width: n[0] }, &mut out),
                "J" => push(Op::LineCap { cap: [LineCap::Butt, LineCap::Round, LineCap::Square][n[0] as usize] }, &mut out),
                "j" => push(Op::LineJoin { join: [LineJoin::Miter, LineJoin::Round, LineJoin::Bevel][n[0] as usize] }, &mut out),
                "M" => push(Op::MiterLimit { limit: n[0] }, &mut out),
                "i" => push(Op::Flatness { tolerance: n[0] }, &mut out),
                "cm" => push(Op::Transform { matrix: Matrix { a: n[0], b: n[1], c: n[2], d: n[3], e: n[4], f: n[5] } }, &mut out),
                "m" => {
                    st.cur = Some(p(n[0], n[1]));
                    st.start = st.cur;
                    push(Op::MoveTo { p: p(n[0], n[1]) }, &mut out)
                }
                "l" => {
                    st.cur = Some(p(n[0], n[1]));
                    push(Op::LineTo { p: p(n[0], n[1]) }, &mut out)
                }
                "c" => {
                    st.cur = Some(p(n[4], n[5]));
                    push(Op::CurveTo { c1: p(n[0], n[1]), c2: p(n[2], n[3]), p: p(n[4], n[5]) }, &mut out)
                }
                "v" => {
                    let c1 = st.cur.unwrap_or(p(0.0, 0.0));
                    st.cur = Some(p(n[2], n[3]));
                    push(Op::CurveTo { c1, c2: p(n[0], n[1]), p: p(n[2], n[3]) }, &mut out)
                }
                "y" => {
                    st.cur = Some(p(n[2], n[3]));
                    push(Op::CurveTo { c1: p(n[0], n[1]), c2: p(n[2], n[3]), p: p(n[2], n[3]) }, &mut out)
                }
                "re" => {
                    st.cur = Some(p(n[0], n[1]));
                    st.start = st.cur;
                    push(Op::Rect { rect: ViewRect { x: n[0], y: n[1], width: n[2], height: n[3] } }, &mut out)
                }
                "Tc" => push(Op::CharSpacing { char_space: n[0] }, &mut out),
                "Tw" => push(Op::WordSpacing { word_space: n[0] }, &mut out),
                "Tz" => push(Op::TextScaling { horiz_scale: n[0] }, &mut out),
                "TL" => push(Op::Leading { leading: n[0] }, &mut out),
                "Tr" => out.push(format!("TextRenderMode({})", n[0] as u8)),
                "Ts" => push(Op::TextRise { rise: n[0] }, &mut out),
                "Td" => push(Op::MoveTextPosition { translation: p(n[0], n[1]) }, &mut out),
                "TD" => {
                    push(Op::Leading { leading: -n[1] }, &mut out);
                    push(Op::MoveTextPosition { translation: p(n[0], n[1]) }, &mut out)
                }
                "Tm" => push(Op::SetTextMatrix { matrix: Matrix { a: n[0], b: n[1], c: n[2], d: n[3], e: n[4], f: n[5] } }, &mut out),
                "G" => push(Op::StrokeColor { color: Color::Gray(n[0]) }, &mut out),
                "g" => push(Op::FillColor { color: Color::Gray(n[0]) }, &mut out),
                "RG" => push(Op::StrokeColor { color: Color::Rgb(Rgb { red: n[0], green: n[1], blue: n[2] }) }, &mut out),
                "rg" => push(Op::FillColor { color: Color::Rgb(Rgb { red: n[0], green: n[1], blue: n[2] }) }, &mut out),
                "K" => push(Op::StrokeColor { color: Color::Cmyk(Cmyk { cyan: n[0], magenta: n[1], yellow: n[2], key: n[3] }) }, &mut out),
                "k" => push(Op::FillColor { color: Color::Cmyk(Cmyk { cyan: n[0], magenta: n[1], yellow: n[2], key: n[3] }) }, &mut out),
                "d0" => out.push(format!("?GlyphWidth({},{})", fl(n[0]), fl(n[1]))),
                "d1" => out.push(format!("?GlyphWidthAndBBox({})", n.iter().map(|x| fl(*x)).collect::<Vec<_>>().join(","))),
                other => panic!("table: {}", other),
            },
            R::Name(k, name, n) => match *k {
                "gs" => push(Op::GraphicsState { name: (*name).into() }, &mut out),
                "ri" => push(Op::RenderingIntent { intent: RenderingIntent::from_str(name).unwrap() }, &mut out),
                "Tf" => push(Op::TextFont { name: (*name).into(), size: n[0] }, &mut out),
                "CS" => push(Op::StrokeColorSpace { name: (*name).into() }, &mut out),
                "cs" => push(Op::FillColorSpace { name: (*name).into() }, &mut out),
                "sh" => push(Op::Shade { name: (*name).into() }, &mut out),
                "Do" => push(Op::XObject { name: (*name).into() }, &mut out),
                other => panic!("table: {}", other),
            },
            R::NoArg(k) => match *k {
                "q" => push(Op::Save, &mut out),
                "Q" => push(Op::Restore, &mut out),
                "h" => {
                    st.cur = st.start;
                    push(Op::Close, &mut out)
                }
                "S" => push(Op::Stroke, &mut out),
                "s" => {
                    st.cur = st.start;
                    push(Op::Close, &mut out);
                    push(Op::Stroke, &mut out)
                }
                "f" | "F" => push(Op::Fill { winding: NonZero }, &mut out),
                "f*" => push(Op::Fill { winding: EvenOdd }, &mut out),
                "B" => push(Op::FillAndStroke { winding: NonZero }, &mut out),
                "B*" => push(Op::FillAndStroke { winding: EvenOdd }, &mut out),
                "b" => {
                    st.cur = st.start;
                    push(Op::Close, &mut out);
                    push(Op::FillAndStroke { winding: NonZero }, &mut out)
                }
                "b*" => {
                    st.cur = st.start;
                    push(Op::Close, &mut out);
                    push(Op::FillAndStroke { winding: EvenOdd }, &mut out)
                }
                "n" => push(Op::EndPath, &mut out),
                "W" => push(Op::Clip { winding: NonZero }, &mut out),
                "W*" => push(Op::Clip { winding: EvenOdd }, &mut out),
                "BT" => push(Op::BeginText, &mut out),
                "ET" => push(Op::EndText, &mut out),
                "T*" => push(Op::TextNewline, &mut out),
                "EMC" => push(Op::EndMarkedContent, &mut out),
                "BX" | "EX" => {}
                other => panic!("table: {}", other),
            },
            R::Str(k, s) => {
                let text = PdfString::new(s.as_slice().into());
                match *k {
                    "Tj" => push(Op::TextDraw { text }, &mut out),
                    "'" => {
                        push(Op::TextNewline, &mut out);
                        push(Op::TextDraw { text }, &mut out)
                    }
                    other => panic!("table: {}", other),
                }
            }
            R::Quote2(aw, ac, s) => {
                push(Op::WordSpacing { word_space: *aw }, &mut out);
                push(Op::CharSpacing { char_space: *ac }, &mut out);
                push(Op::TextNewline, &mut out);
                push(Op::TextDraw { text: PdfString::new(s.as_slice().into()) }, &mut out)
            }
            R::TJ(items) => push(
                Op::TextDrawAdjusted { array: items.iter().map(|(t, n)| match t { Some(t) => TextDrawAdjusted::Text(PdfString::new(t.as_slice().into())), None => TextDrawAdjusted::Spacing(*n) }).collect() },
                &mut out,
            ),
            R::Dash(pat, ph) => push(Op::Dash { pattern: pat.clone(), phase: *ph }, &mut out),
            R::ColorOther(k, vals) => {
                let args: Vec<Primitive> = vals.iter().map(val_to_prim).collect();
                match *k {
                    "SC" | "SCN" => push(Op::StrokeColor { color: Color::Other(args) }, &mut out),
                    _ => push(Op::FillColor { color: Color::Other(args) }, &mut out),
                }
            }
            R::Marked(k, tag, props) => {
                let properties = props.as_ref().map(val_to_prim);
                match *k {
                    "MP" | "DP" => push(Op::MarkedContentPoint { tag: (*tag).into(), properties }, &mut out),
                    _ => push(Op::BeginMarkedContent { tag: (*tag).into(), properties }, &mut out),
                }
            }
            R::InlineImage(i) => out.push(inline_images()[*i].1.clone()),
        }
    }
    out
}

/// the operator table: every operator keyword with 1-3 operand sets
pub fn table() -> Vec<(&'static str, R)> {
    let mut t: Vec<(&'static str, R)> = vec![];
    let mut add = |r: R| {
        let k: &'static str = match &r {
            R::Num(k, _) | R::NoArg(k) | R::Str(k, _) | R::Name(k, _, _) | R::ColorOther(k, _) | R::Marked(k, _, _) => k,
            R::Quote2(..) => "\"",
            R::TJ(_) => "TJ",
            R::Dash(..) => "d",
            R::InlineImage(_) => "BI",
        };
        t.push((k, r));
    };
    for (k, sets) in [
        ("w", vec![vec![2.0], vec![0.5]]),
        ("J", vec![vec![0.0], vec![1.0], vec![2.0]]),
        ("j", vec![vec![0.0], vec![1.0], vec![2.0]]),
        ("M", vec![vec![10.0], vec![1.5]]),
        ("i", vec![vec![0.0], vec![50.5]]),
        ("cm", vec![vec![1.0, 0.0, 0.0, 1.0, 72.0, 720.5], vec![0.5, -0.25, 2.0, 3.0, -4.0, 5.0]]),
        ("m", vec![vec![10.0, 20.0], vec![-1.5, 0.25]]),
        ("l", vec![vec![30.0, 40.0], vec![0.5, -7.0]]),
        ("c", vec![vec![1.0, 2.0, 3.0, 4.0, 5.0, 6.0], vec![0.5, 1.5, 2.5, 3.5, 4.5, 5.5]]),
        ("v", vec![vec![3.0, 4.0, 5.0, 6.0], vec![0.25, 1.0, 2.0, 8.5]]),
        ("y", vec![vec![1.0, 2.0, 5.0, 6.0], vec![0.25, 1.0, 2.0, 8.5]]),
        ("re", vec![vec![10.0, 10.0, 100.0, 50.0], vec![0.5, -2.0, 3.25, 4.0]]),
        ("Tc", vec![vec![0.0], vec![1.25]]),
        ("Tw", vec![vec![2.0], vec![-0.5]]),
        ("Tz", vec![vec![100.0], vec![87.5]]),
        ("TL", vec![vec![14.0], vec![-3.5]]),
        ("Tr", vec![vec![0.0], vec![1.0], vec![2.0], vec![3.0], vec![4.0], vec![5.0], vec![6.0], vec![7.0]]),
        ("Ts", vec![vec![5.0], vec![-2.5]]),
        ("Td", vec![vec![10.0, -14.0], vec![0.5, 0.25]]),
        ("TD", vec![vec![10.0, -14.0], vec![3.0, 3.0], vec![0.0, 7.5]]),
        ("Tm", vec![vec![1.0, 0.0, 0.0, 1.0, 100.0, 200.0], vec![12.0, 0.5, -0.5, 12.0, 0.0, 0.0]]),
        ("G", vec![vec![0.5], vec![1.0]]),
        ("g", vec![vec![0.0], vec![0.25]]),
        ("RG", vec![vec![1.0, 0.0, 0.5]]),
        ("rg", vec![vec![0.25, 0.5, 0.75]]),
        ("K", vec![vec![0.0, 0.25, 0.5, 1.0]]),
        ("k", vec![vec![1.0, 0.5, 0.25, 0.0]]),
        ("d0", vec![vec![500.0, 0.0]]),
        ("d1", vec![vec![500.0, 0.0, 0.0, -10.0, 480.0, 700.0]]),
    ] {
        for n in sets {
            add(R::Num(k, n));
        }
    }
    add(R::Name("gs", "GS1", vec![]));
    add(R::Name("ri", "Perceptual", vec![]));
    add(R::Name("ri", "AbsoluteColorimetric", vec![]));
    add(R::Name("Tf", "F1", vec![12.0]));
    add(R::Name("Tf", "F2", vec![9.5]));
    add(R::Name("CS", "DeviceRGB", vec![]));
    add(R::Name("cs", "Pattern", vec![]));
    add(R::Name("sh", "Sh1", vec![]));
    add(R::Name("Do", "Im1", vec![]));
    for k in ["q", "Q", "h", "S", "s", "f", "F", "f*", "B", "B*", "b", "b*", "n", "W", "W*", "BT", "ET", "T*", "EMC", "BX", "EX"] {
        add(R::NoArg(k));
    }
    add(R::Str("Tj", b"Hello".to_vec()));
    add(R::Str("Tj", vec![0, 1, 0xff, b'(', b'\\']));
    add(R::Str("'", b"next line".to_vec()));
    add(R::Quote2(1.5, 0.25, b"quoted".to_vec()));
    add(R::TJ(vec![(Some(b"A".to_vec()), 0.0), (None, -120.0), (Some(b"B".to_vec()), 0.0), (None, 0.5)]));
    add(R::TJ(vec![]));
    add(R::Dash(vec![3.0, 1.5], 0.0));
    add(R::Dash(vec![], 2.0));
    add(R::ColorOther("SC", vec![Val::real("0.5")]));
    add(R::ColorOther("SCN", vec![Val::Int(1), Val::Int(0), Val::real("0.25"), Val::name("P1")]));
    add(R::ColorOther("sc", vec![Val::Int(0), Val::Int(1)]));
    add(R::ColorOther("scn", vec![Val::name("P2")]));
    add(R::Marked("MP", "Tag", None));
    add(R::Marked("DP", "Tag", Some(Val::dict(vec![("MCID", Val::Int(3))]))));
    add(R::Marked("DP", "Tag", Some(Val::name("Props"))));
    add(R::Marked("BMC", "Span", None));
    add(R::Marked("BDC", "Span", Some(Val::dict(vec![("MCID", Val::Int(0)), ("Lang", Val::str("en"))]))));
    add(R::Marked("BDC", "OC", Some(Val::name("MC0"))));
    for i in 0..inline_images().len() {
        add(R::InlineImage(i));
    }
    t
}

fn check_program(seq: &[R]) -> std::result::Result<(), (String, String)> {
    let mut text = vec![];
    for r in seq {
        text.extend_from_slice(&r_text(r));
    }
    let expect = interpret(seq);
    match catch(|| parse_ops(&text, &NoResolve)) {
        Err((loc, msg)) => Err((panic_kind(&loc), format!("`{}`: {}", show_bytes(&text), msg))),
        Ok(Err(e)) => Err((format!("error:{}", err_variant(&e)), format!("`{}`: {}", show_bytes(&text), truncate(&format!("{}", err_root(&e)), 120)))),
        Ok(Ok(ops)) => {
            let got = canon_seq(&ops);
            if got == expect {
                Ok(())
            } else {
                let kind = if got.len() < expect.len() { "operation-missing" } else if got.len() > expect.len() { "extra-operation" } else { "wrong-operation" };
                Err((kind.into(), format!("`{}` parsed as {:?}, the operator table says {:?}", show_bytes(&text), got, expect)))
            }
        }
    }
}

fn engine_table(tally: &mut Tally) {
    let tab = table();
    // (a) every operator alone
    for (i, (k, r)) in tab.iter().enumerate() {
        tally.evaluations += 1;
        tally.distinct.insert(fnv(&r_text(r)));
        match check_program(std::slice::from_ref(r)) {
            Ok(()) => tally.outcome("ok"),
            Err((kind, detail)) => {
                tally.outcome(&kind);
                let mut devs = vec![format!("op={}", k)];
                if let R::Num("Tr", n) = r {
                    devs.push(format!("mode={}", n[0]));
                }
                tally.fail("c08.table", &kind, devs, detail, json!({"engine": "c08.table", "program": [i]}));
            }
        }
    }
    // (b) every ordered pair
    let n = tab.len();
    let parts: Vec<Tally> = (0..n)
        .into_par_iter()
        .map(|i| {
            let mut t = Tally::new();
            for j in 0..n {
                let seq = [tab[i].1.clone(), tab[j].1.clone()];
                t.evaluations += 1;
                t.distinct.insert(fnv_mix(i as u64, j as u64 + 1000));
                match check_program(&seq) {
                    Ok(()) => t.outcome("ok"),
                    Err((kind, detail)) => {
                        t.outcome(&kind);
                        t.fail("c08.table", &kind, vec![format!("op={}", tab[i].0), format!("op={}", tab[j].0)], detail, json!({"engine": "c08.table", "program": [i, j]}));
                    }
                }
            }
            t
        })
        .collect();
    for p in parts {
        tally.merge(p);
    }
}

// ------------------------------------------------------------------------------------------------
// (c) serialize_ops then parse_ops over sequences of Op

pub fn op_alphabet() -> Vec<(&'static str, Op)> {
    use Winding::*;
    let s = |t: &str| PdfString::new(t.as_bytes().into());
    vec![
        ("MoveTo", Op::MoveTo { p: p(1.0, 2.0) }),
        ("LineTo", Op::LineTo { p: p(3.0, 4.5) }),
        ("CurveTo", Op::CurveTo { c1: p(9.0, 9.0), c2: p(5.0, 6.0), p: p(7.0, 8.0) }),
        ("CurveTo:c1=current", Op::CurveTo { c1: p(1.0, 2.0), c2: p(5.0, 6.0), p: p(7.0, 8.0) }),
        ("CurveTo:c2=p", Op::CurveTo { c1: p(0.5, 0.25), c2: p(7.0, 8.0), p: p(7.0, 8.0) }),
        // first control point equal to a point an earlier operation of the alphabet leaves behind (LineTo's point, a curve's end point,
        // Rect's corner): whether the writer may use the v shorthand depends on which of them is the current point
        ("CurveTo:c1=lineto", Op::CurveTo { c1: p(3.0, 4.5), c2: p(5.0, 6.0), p: p(7.0, 8.0) }),
        ("CurveTo:c1=curve-end", Op::CurveTo { c1: p(7.0, 8.0), c2: p(5.0, 6.0), p: p(9.0, 9.5) }),
        ("CurveTo:c1=rect-corner", Op::CurveTo { c1: p(0.0, 1.0), c2: p(5.0, 6.0), p: p(7.0, 8.0) }),
        ("Rect", Op::Rect { rect: ViewRect { x: 0.0, y: 1.0, width: 10.0, height: 2147483648.0 } }),
        ("Close", Op::Close),
        ("Stroke", Op::Stroke),
        ("FillAndStroke", Op::FillAndStroke { winding: NonZero }),
        ("FillAndStroke*", Op::FillAndStroke { winding: EvenOdd }),
        ("Fill", Op::Fill { winding: NonZero }),
        ("Fill*", Op::Fill { winding: EvenOdd }),
        ("EndPath", Op::EndPath),
        ("Clip", Op::Clip { winding: NonZero }),
        ("Clip*", Op::Clip { winding: EvenOdd }),
        ("Shade", Op::Shade { name: "Sh1".into() }),
        ("Save", Op::Save),
        ("Restore", Op::Restore),
        ("Transform", Op::Transform { matrix: Matrix { a: 1.0, b: 0.0, c: -0.0, d: 1.0, e: 1e-7, f: 3.4e38 } }),
        ("LineWidth", Op::LineWidth { width: 0.5 }),
        ("Dash", Op::Dash { pattern: vec![3.0, 0.5], phase: 1.0 }),
        ("Dash:empty", Op::Dash { pattern: vec![], phase: 0.0 }),
        ("LineJoin", Op::LineJoin { join: LineJoin::Bevel }),
        ("LineCap", Op::LineCap { cap: LineCap::Round }),
        ("MiterLimit", Op::MiterLimit { limit: 10.0 }),
        ("Flatness", Op::Flatness { tolerance: 1.0 }),
        ("GraphicsState", Op::GraphicsState { name: "GS1".into() }),
        ("StrokeColor:Gray", Op::StrokeColor { color: Color::Gray(0.5) }),
        ("StrokeColor:Rgb", Op::StrokeColor { color: Color::Rgb(Rgb { red: 1.0, green: 0.0, blue: 0.25 }) }),
        ("StrokeColor:Cmyk", Op::StrokeColor { color: Color::Cmyk(Cmyk { cyan: 0.0, magenta: 1.0, yellow: 0.5, key: 0.25 }) }),
        ("StrokeColor:Other", Op::StrokeColor { color: Color::Other(vec![Primitive::Number(0.5), Primitive::Name("P1".into())]) }),
        ("FillColor:Gray", Op::FillColor { color: Color::Gray(-1.0) }),
        ("FillColor:Rgb", Op::FillColor { color: Color::Rgb(Rgb { red: 0.0, green: 1.0, blue: 0.5 }) }),
        ("FillColor:Cmyk", Op::FillColor { color: Color::Cmyk(Cmyk { cyan: 1.0, magenta: 0.0, yellow: 0.0, key: 0.0 }) }),
        ("FillColor:Other", Op::FillColor { color: Color::Other(vec![Primitive::Integer(1), Primitive::Integer(0)]) }),
        ("FillColorSpace", Op::FillColorSpace { name: "Cs 1".into() }),
        ("StrokeColorSpace", Op::StrokeColorSpace { name: "DeviceRGB".into() }),
        ("RenderingIntent", Op::RenderingIntent { intent: RenderingIntent::Saturation }),
        ("BeginText", Op::BeginText),
        ("EndText", Op::EndText),
        ("CharSpacing", Op::CharSpacing { char_space: 0.25 }),
        ("WordSpacing", Op::WordSpacing { word_space: 2.0 }),
        ("TextScaling", Op::TextScaling { horiz_scale: 90.0 }),
        ("Leading", Op::Leading { leading: 14.0 }),
        ("Leading:-3", Op::Leading { leading: -3.0 }),
        ("TextFont", Op::TextFont { name: "F1".into(), size: 12.0 }),
        ("TextRenderMode", Op::TextRenderMode { mode: TextMode::FillThenStroke }),
        ("TextRise", Op::TextRise { rise: -2.0 }),
        ("MoveTextPosition", Op::MoveTextPosition { translation: p(10.0, -14.0) }),
        ("MoveTextPosition:3,3", Op::MoveTextPosition { translation: p(3.0, 3.0) }),
        ("MoveTextPosition:-14,10", Op::MoveTextPosition { translation: p(-14.0, 10.0) }),
        ("SetTextMatrix", Op::SetTextMatrix { matrix: Matrix { a: 12.0, b: 0.0, c: 0.0, d: 12.0, e: 72.0, f: 700.5 } }),
        ("TextNewline", Op::TextNewline),
        ("TextDraw", Op::TextDraw { text: s("Hi (there)\\") }),
        ("TextDraw:binary", Op::TextDraw { text: PdfString::new([0u8, 13, 10, 0xff][..].into()) }),
        // as many closing as opening parentheses, but not nested: what follows the first `)` must not become operands
        ("TextDraw:parentheses-out-of-order", Op::TextDraw { text: s("a) 1 0 0 rg (b") }),
        ("TextDrawAdjusted", Op::TextDrawAdjusted { array: vec![TextDrawAdjusted::Text(s("A")), TextDrawAdjusted::Spacing(-50.0), TextDrawAdjusted::Text(s("B")), TextDrawAdjusted::Spacing(0.5)] }),
        ("TextDrawAdjusted:parentheses", Op::TextDrawAdjusted { array: vec![TextDrawAdjusted::Text(s(")(")), TextDrawAdjusted::Spacing(-120.0), TextDrawAdjusted::Text(s("((")), TextDrawAdjusted::Text(s("))"))] }),
        ("XObject", Op::XObject { name: "Im1".into() }),
        ("BeginMarkedContent", Op::BeginMarkedContent { tag: "Span".into(), properties: None }),
        ("BeginMarkedContent:props", Op::BeginMarkedContent { tag: "P".into(), properties: Some(Primitive::Name("MC0".into())) }),
        ("EndMarkedContent", Op::EndMarkedContent),
        ("MarkedContentPoint", Op::MarkedContentPoint { tag: "Pt".into(), properties: None }),
        ("MarkedContentPoint:props", Op::MarkedContentPoint { tag: "Pt".into(), properties: Some(val_to_prim(&Val::dict(vec![("MCID", Val::Int(1))]))) }),
        ("InlineImage", parsed_inline(0)),
        ("InlineImage:rgb", parsed_inline(4)),
        ("InlineImage:mask", parsed_inline(5)),
        ("InlineImage:filters", parsed_inline(7)),
        ("InlineImage:indexed", parsed_inline(10)),
        ("InlineImage:parms", parsed_inline(9)),
        ("InlineImage:built", built_inline()),
        // names that contain the number sign: written verbatim, `#41` would read back as `A` and `#2 ` as a broken escape
        // (appended at the end: recorded replays address the alphabet by index)
        ("XObject:name-with-#41", Op::XObject { name: "Im#41".into() }),
        ("GraphicsState:name-with-#", Op::GraphicsState { name: "GS#2".into() }),
        ("TextFont:name-with-#231", Op::TextFont { name: "F#231".into(), size: 9.0 }),
        ("BeginMarkedContent:tag-with-#", Op::BeginMarkedContent { tag: "T#20#".into(), properties: Some(Primitive::Name("#".into())) }),
    ]
}
/// an inline image operation as the parser produces it
fn parsed_inline(i: usize) -> Op {
    let mut text = inline_images()[i].0.clone();
    text.push(b'\n');
    match parse_ops(&text, &NoResolve) {
        Ok(mut ops) if ops.len() == 1 => ops.remove(0),
        _ => built_inline(),
    }
}
/// an inline image operation as an API user would build it (typed entries only)
fn built_inline() -> Op {
    use pdf::object::{ColorSpace, ImageDict, ImageXObject, Stream};
    let dict = ImageDict { width: 2, height: 2, color_space: Some(ColorSpace::DeviceGray), bits_per_component: Some(8), ..Default::default() };
    Op::InlineImage { image: std::sync::Arc::new(ImageXObject { inner: Stream::from_compressed(dict, vec![0u8, 0x45, 0x49, 0xff], vec![]) }) }
}

fn roundtrip_ops(ops: &[Op]) -> std::result::Result<bool, (String, String)> {
    let want = canon_seq(ops);
    let bytes = match catch(|| serialize_ops(ops)) {
        Err((loc, msg)) => return Err((panic_kind(&loc), msg)),
        // the property is about sequences the serializer accepts: it rejects inline images (and nothing else)
        Ok(Err(_)) if ops.iter().any(|o| matches!(o, Op::InlineImage { .. })) => return Ok(false),
        Ok(Err(e)) => return Err((format!("serialize-error:{}", err_variant(&e)), String::new())),
        Ok(Ok(b)) => b,
    };
    match catch(|| parse_ops(&bytes, &NoResolve)) {
        Err((loc, msg)) => Err((panic_kind(&loc), format!("written `{}`: {}", show_bytes(&bytes), msg))),
        Ok(Err(e)) => Err((format!("error:{}", err_variant(&e)), format!("{:?} written `{}`: {}", want, show_bytes(&bytes), truncate(&format!("{}", err_root(&e)), 120)))),
        Ok(Ok(back)) => {
            let got = canon_seq(&back);
            if got == want {
                Ok(true)
            } else {
                Err(("sequence-differs".into(), format!("{:?} written `{}` read back {:?}", want, show_bytes(&bytes), got)))
            }
        }
    }
}

fn engine_sequences(tier: Tier, tally: &mut Tally) {
    let alpha = op_alphabet();
    let n = alpha.len();
    let depth = 3;
    let parts: Vec<Tally> = (0..n)
        .into_par_iter()
        .map(|i| {
            let mut t = Tally::new();
            let mut run = |idx: &[usize], t: &mut Tally| {
                let ops: Vec<Op> = idx.iter().map(|&k| alpha[k].1.clone()).collect();
                t.evaluations += 1;
                t.distinct_bulk += 1;
                match roundtrip_ops(&ops) {
                    Ok(true) => t.outcome("ok"),
                    Ok(false) => t.outcome("serializer-rejects-inline-image"),
                    Err((kind, detail)) => {
                        t.outcome(&kind);
                        let mut devs: Vec<String> = idx.iter().map(|&k| format!("op={}", alpha[k].0)).collect();
                        devs.sort();
                        devs.dedup();
                        t.fail("c08.sequence", &kind, devs, detail, json!({"engine": "c08.sequence", "ops": idx}));
                    }
                }
            };
            run(&[i], &mut t);
            for j in 0..n {
                run(&[i, j], &mut t);
                if depth >= 3 {
                    for k in 0..n {
                        run(&[i, j, k], &mut t);
                    }
                }
            }
            t
        })
        .collect();
    for p in parts {
        tally.merge(p);
    }
    // longer sequences over the shorthand-sensitive sub-alphabets
    let subs: Vec<Vec<&str>> = vec![
        vec!["Close", "Stroke", "FillAndStroke", "FillAndStroke*", "Fill"],
        vec!["WordSpacing", "CharSpacing", "TextNewline", "TextDraw", "Leading", "Leading:-3", "MoveTextPosition", "MoveTextPosition:3,3", "MoveTextPosition:-14,10"],
        vec!["MoveTo", "LineTo", "CurveTo", "CurveTo:c1=current", "CurveTo:c2=p", "Rect", "Close"],
        // path construction mixed with the painting operators that fuse with Close (s, b, b*): current point across a painted path
        vec!["MoveTo", "LineTo", "Rect", "Close", "Stroke", "FillAndStroke", "CurveTo:c1=current", "CurveTo:c1=lineto", "CurveTo:c1=curve-end", "CurveTo:c1=rect-corner"],
    ];
    let maxlen = if tier.thorough() { 6 } else { 5 };
    for sub in subs {
        let idxs: Vec<usize> = sub.iter().map(|name| alpha.iter().position(|(n, _)| n == name).unwrap()).collect();
        let m = idxs.len();
        let firsts: Vec<usize> = (0..m).collect();
        let parts: Vec<Tally> = firsts
            .par_iter()
            .map(|&f| {
                let mut t = Tally::new();
                for len in 4..=maxlen {
                    if m.pow(len as u32 - 1) > 3_000_000 {
                        t.caps_hit.push(format!("c08.sequence: sub-alphabet of {} at length {} skipped", m, len));
                        continue;
                    }
                    let mut counter = vec![0usize; len - 1];
                    loop {
                        let mut idx = vec![idxs[f]];
                        idx.extend(counter.iter().map(|&c| idxs[c]));
                        let ops: Vec<Op> = idx.iter().map(|&k| alpha[k].1.clone()).collect();
                        t.evaluations += 1;
                        t.distinct_bulk += 1;
                        match roundtrip_ops(&ops) {
                            Ok(true) => t.outcome("ok"),
                            Ok(false) => t.outcome("serializer-rejects-inline-image"),
                            Err((kind, detail)) => {
                                t.outcome(&kind);
                                let mut devs: Vec<String> = idx.iter().map(|&k| format!("op={}", alpha[k].0)).collect();
                                devs.sort();
                                devs.dedup();
                                t.fail("c08.sequence", &kind, devs, detail, json!({"engine": "c08.sequence", "ops": idx}));
                            }
                        }
                        let mut k = 0;
                        loop {
                            if k == counter.len() {
                                break;
                            }
                            counter[k] += 1;
                            if counter[k] < m {
                                break;
                            }
                            counter[k] = 0;
                            k += 1;
                        }
                        if k == counter.len() {
                            break;
                        }
                    }
                }
                t
            })
            .collect();
        for p in parts {
            tally.merge(p);
        }
    }
    // operand values
    let vals = [0.0f32, 1.0, -1.0, 0.5, 2147483648.0, 1e-7, 3.4e38, -0.0, 16777217.0, 0.1];
    let mut t = Tally::new();
    for &a in &vals {
        for &b in &vals {
            let seqs: Vec<Vec<Op>> = vec![
                vec![Op::MoveTo { p: p(a, b) }, Op::LineTo { p: p(b, a) }],
                vec![Op::LineWidth { width: a }, Op::MiterLimit { limit: b }],
                vec![Op::Rect { rect: ViewRect { x: a, y: b, width: b, height: a } }],
                vec![Op::Leading { leading: a }, Op::MoveTextPosition { translation: p(b, -a) }],
                vec![Op::Leading { leading: a }, Op::MoveTextPosition { translation: p(-a, b) }],
                vec![Op::FillColor { color: Color::Gray(a) }, Op::StrokeColor { color: Color::Rgb(Rgb { red: a, green: b, blue: a }) }],
                vec![Op::TextDrawAdjusted { array: vec![TextDrawAdjusted::Spacing(a), TextDrawAdjusted::Spacing(b)] }],
                vec![Op::Dash { pattern: vec![a, b], phase: a }],
                vec![Op::FillColor { color: Color::Other(vec![Primitive::Number(a), Primitive::Number(b)]) }],
            ];
            for (si, ops) in seqs.iter().enumerate() {
                t.evaluations += 1;
                t.distinct.insert(fnv_mix(fnv_mix(a.to_bits() as u64, b.to_bits() as u64), si as u64));
                match roundtrip_ops(ops) {
                    Ok(_) => t.outcome("ok"),
                    Err((kind, detail)) => {
                        t.outcome(&kind);
                        t.fail("c08.values", &kind, vec![format!("shape={}", si)], detail, json!({"engine": "c08.values", "a": a.to_bits(), "b": b.to_bits(), "shape": si}));
                    }
                }
            }
        }
    }
    tally.merge(t);
}

pub fn run(tier: Tier, _seed: u64, tally: &mut Tally) -> CheckMeta {
    engine_table(tally);
    engine_sequences(tier, tally);
    tally.states = tally.evaluations;
    tally.transitions = tally.evaluations;
    tally.validated = tally.evaluations;
    tally.sample(json!({"engine": "c08.table", "program": "10 10 100 50 re\n3 4 5 6 v\n", "expected": ["Rect(10,10,100,50)", "CurveTo(10,10)(3,4)(5,6)"]}));
    tally.sample(json!({"engine": "c08.sequence", "ops": ["Leading(14)", "MoveTextPosition(10,-14)"], "written": "10 -14 TD"}));
    let n_tab = table().len();
    let n_alpha = op_alphabet().len();
    CheckMeta {
        prop: "C08",
        level: "model_checking",
        rule: format!("operator table: {} operator instances (every keyword of ISO 32000-1 Table A.1 with 1-8 operand sets) parsed alone and in every ordered pair ({} programs) against a reference interpreter that tracks the current point per the specification; serialize_ops -> parse_ops over all sequences of length <= 3 of a {}-symbol Op alphabet ({} sequences) and all sequences of length 4..{} over four shorthand-sensitive sub-alphabets; operand value pairs over 10 boundary reals x 9 shapes. Comparison is structural (canonical text; -0 == 0; int == real).", n_tab, n_tab * n_tab, n_alpha, n_alpha + n_alpha * n_alpha + n_alpha * n_alpha * n_alpha, if tier.thorough() { 6 } else { 5 }),
        assumptions: vec!["the serializer rejects inline images with an error (outside 'sequences the serializer accepts'); any other serialisation error is a violation".into(), "BX/EX are state markers without an operation".into()],
        exhaustive: true,
        bounds: json!({"sequence_len": 3, "sub_alphabet_len": if tier.thorough() { 6 } else { 5 }}),
    }
}

pub fn replay(case: &Value, tally: &mut Tally) {
    match case["engine"].as_str().unwrap_or("") {
        "c08.table" => {
            let tab = table();
            let seq: Vec<R> = case["program"].as_array().unwrap().iter().map(|i| tab[i.as_u64().unwrap() as usize].1.clone()).collect();
            let text: Vec<u8> = seq.iter().flat_map(|r| r_text(r)).collect();
            println!("program: {}", show_bytes(&text));
            if let Err((kind, detail)) = check_program(&seq) {
                tally.fail("c08.table", &kind, vec![], detail, case.clone());
            }
        }
        "c08.sequence" => {
            let alpha = op_alphabet();
            let ops: Vec<Op> = case["ops"].as_array().unwrap().iter().map(|i| alpha[i.as_u64().unwrap() as usize].1.clone()).collect();
            println!("ops: {:?}", canon_seq(&ops));
            if let Err((kind, detail)) = roundtrip_ops(&ops) {
                tally.fail("c08.sequence", &kind, vec![], detail, case.clone());
            }
        }
        _ => {
            let mut t = Tally::new();
            engine_sequences(Tier::Quick, &mut t);
            for f in t.all_failures() {
                if f.engine == "c08.values" {
                    tally.add_failure(f.clone());
                }
            }
        }
    }
}
