//! C09 — a reload sees exactly the saved modifications and nothing else changes (operation histories).
use crate::common::*;
use crate::core::*;
use crate::explore::*;
use crate::pdfgen::file::*;
use crate::pdfgen::filters as pf;
use crate::pdfgen::val::*;
use crate::props::c04::{prim_eq, val_to_prim};
use pdf::file::{FileOptions, NoCache, NoLog, Storage, SyncCache, Trailer};
use pdf::object::{Object, ParseOptions, PlainRef, Ref, Resolve, Updater};
use pdf::primitive::Primitive;
use serde_json::{json, Value};
use std::collections::BTreeMap;
use std::sync::atomic::{AtomicUsize, Ordering};

static DEPTH: AtomicUsize = AtomicUsize::new(3);

const BASES: &[&str] = &["classic", "xref-stream+objstm", "junk-before-header", "two-revisions"];
const CACHE: &[&str] = &["uncached", "cached"];

pub fn base_file(kind: usize) -> Vec<u8> {
    let prefix: &[u8] = if kind == 2 { &[b'j'; 100] } else { b"" };
    let mut fb = FileBuilder::new(prefix);
    let (cat, pages) = minimal_catalog();
    fb.add(1, 0, &cat);
    fb.add(2, 0, &pages);
    fb.add(3, 0, &Val::dict(vec![("Base", Val::Int(3))]));
    fb.add(4, 0, &Val::stream(vec![("Kind", Val::name("Plain"))], b"abc".to_vec()));
    let five = Val::dict(vec![("Base", Val::Int(5)), ("Keep", Val::str("five"))]);
    if kind == 1 {
        fb.add_objstm(8, &[(5, five), (9, Val::Int(99))], &ObjStmOpts::default());
    } else {
        fb.add(5, 0, &five);
        fb.add(9, 0, &Val::Int(99));
    }
    fb.add(6, 0, &Val::dict(vec![("Base", Val::Int(6))]));
    fb.add(7, 0, &Val::stream(vec![("Filter", Val::name("FlateDecode"))], pf::flate_encode(b"untouched stream data", pf::FlateStyle::ZlibDefault)));
    let extra = [("Root", Val::r(1)), ("ID", Val::Array(vec![Val::str("base-id-0"), Val::str("base-id-1")]))];
    if kind == 1 {
        fb.finish_stream(&extra, &XrefStreamOpts::new(10));
    } else {
        fb.finish_table(&extra, Split::Runs);
    }
    if kind == 3 {
        fb.add(3, 0, &Val::dict(vec![("Base", Val::Int(3)), ("Rev", Val::Int(2))]));
        // the second revision frees object 9
        fb.free(9, 1);
        fb.finish_table(&extra, Split::Runs);
    }
    fb.bytes()
}

#[derive(Clone, Copy, Debug, PartialEq)]
enum OpKind {
    Stop,
    Create(usize),
    /// a typed value whose conversion creates a further indirect object (an indexed colour space with a large table)
    CreateNested,
    Update(usize, usize), // target, value
    Promise,
    Fulfil(usize),
    Read(usize),
    Save,
    Offend,
    Unoffend,
}
const OPS: &[(&str, OpKind)] = &[
    ("stop", OpKind::Stop),
    ("save", OpKind::Save),
    ("create:int", OpKind::Create(0)),
    ("create:dictA", OpKind::Create(2)),
    ("create:stream", OpKind::Create(4)),
    ("create:stream-of-70000-bytes", OpKind::Create(5)),
    ("create:name", OpKind::Create(1)),
    ("create:typed-value-with-nested-object", OpKind::CreateNested),
    ("update:direct3<-dictA", OpKind::Update(0, 2)),
    ("update:direct3<-dictB", OpKind::Update(0, 3)),
    ("update:direct3<-int", OpKind::Update(0, 0)),
    ("update:compressed5<-dictA", OpKind::Update(1, 2)),
    ("update:stream4<-name", OpKind::Update(2, 1)),
    ("update:stream4<-stream", OpKind::Update(2, 4)),
    ("update:last-created<-dictB", OpKind::Update(3, 3)),
    ("update:last-fulfilled<-int", OpKind::Update(4, 0)),
    ("update:object0<-dictA", OpKind::Update(5, 2)),
    ("update:object9<-dictA", OpKind::Update(6, 2)),
    ("promise", OpKind::Promise),
    ("fulfil<-dictA", OpKind::Fulfil(2)),
    ("fulfil<-name", OpKind::Fulfil(1)),
    ("get:direct3", OpKind::Read(0)),
    ("get:compressed5", OpKind::Read(1)),
    ("get:last-created", OpKind::Read(3)),
    ("get:stream4", OpKind::Read(2)),
    ("offend:update6<-infile-stream", OpKind::Offend),
    ("unoffend:update6<-dict", OpKind::Unoffend),
];
fn op_names() -> &'static [&'static str] {
    static N: std::sync::OnceLock<Vec<&'static str>> = std::sync::OnceLock::new();
    N.get_or_init(|| OPS.iter().map(|(n, _)| *n).collect())
}

fn value(i: usize) -> Val {
    match i {
        0 => Val::Int(7),
        1 => Val::name("New Name"),
        // the text has as many closing as opening parentheses, but the first one closes before any opens
        2 => Val::dict(vec![("A", Val::Int(1)), ("T", Val::Str(b"1) first (of two".to_vec()))]),
        3 => Val::dict(vec![("B", Val::Int(2))]),
        4 => Val::stream(vec![("S", Val::Int(1))], b"xyz".to_vec()),
        // a stream that moves everything written after it beyond 64 KiB (the field widths of the cross-reference
        // stream that `save` writes depend on the largest offset)
        _ => Val::stream(vec![("S", Val::Int(2))], (0..70_000u32).map(|i| (i * 31 % 251) as u8).collect()),
    }
}
fn value_prim(i: usize) -> Primitive {
    match value(i) {
        Val::Stream(d, data) => {
            let mut dict = pdf::primitive::Dictionary::new();
            for (k, v) in &d {
                dict.insert(std::str::from_utf8(k).unwrap(), val_to_prim(v));
            }
            // a generated stream
            let s = pdf::object::Stream::new(dict, data);
            s.to_pdf_stream(&mut pdf::object::NoUpdate).map(Primitive::Stream).unwrap()
        }
        v => val_to_prim(&v),
    }
}

/// compare what the document returns for `r` with the model value
fn check_ref(res: &impl Resolve, r: PlainRef, want: &Val, typed: bool) -> std::result::Result<(), String> {
    let got = if typed { res.get::<Primitive>(Ref::new(r)).map(|rc| (*rc).clone()) } else { res.resolve(r) };
    match got {
        Err(e) => Err(format!("object {} unreadable ({}): {}", r.id, if typed { "get" } else { "resolve" }, err_variant(&e))),
        Ok(p) => {
            let want_ident = match want {
                Val::Stream(d, data) => {
                    // the writer adds /Length
                    Val::Stream(d.clone(), data.clone())
                }
                v => v.clone(),
            };
            cmp_prim(&p, &want_ident, true, res).map_err(|m| format!("object {} ({}): {}", r.id, if typed { "get" } else { "resolve" }, m))?;
            if let (Val::Stream(d, data), true) = (want, typed) {
                // decoded data through Stream::data (stream cache); only for unfiltered model streams
                if !d.iter().any(|(k, _)| k == b"Filter") {
                    match pdf::object::Stream::<()>::from_primitive(p, res).and_then(|s| s.data(res)) {
                        Ok(got) if &got[..] == &data[..] => {}
                        Ok(got) => return Err(format!("object {}: Stream::data gives {} expected {}", r.id, show_bytes(&got), show_bytes(data))),
                        Err(e) => return Err(format!("object {}: Stream::data fails: {}", r.id, err_variant(&e))),
                    }
                }
            }
            Ok(())
        }
    }
}

macro_rules! run_history {
    ($ch:expr, $t:expr, $bytes:expr, $oc:expr, $sc:expr, $descr:expr) => {{
        let ch: &mut Chooser = $ch;
        let base_bytes: Vec<u8> = $bytes;
        let mut verdict: std::result::Result<(), (String, String)> = Ok(());
        'run: {
            let mut st = match Storage::with_cache(base_bytes.clone(), ParseOptions::strict(), $oc, $sc, NoLog) {
                Ok(s) => s,
                Err(e) => {
                    verdict = Err((format!("base-open-error:{}", err_variant(&e)), String::new()));
                    break 'run;
                }
            };
            let tdict = match st.load_storage_and_trailer() {
                Ok(t) => t,
                Err(e) => {
                    verdict = Err((format!("base-load-error:{}", err_variant(&e)), String::new()));
                    break 'run;
                }
            };
            let mut trailer = match Trailer::from_primitive(Primitive::Dictionary(tdict), &st.resolver()) {
                Ok(t) => t,
                Err(e) => {
                    verdict = Err((format!("base-trailer-error:{}", err_variant(&e)), String::new()));
                    break 'run;
                }
            };
            // reference model: last written value per reference; base values for untouched objects
            let mut model: BTreeMap<u64, Val> = BTreeMap::new();
            let base_doc = crate::refread::RefDoc::open(&base_bytes).expect("base readable");
            for nr in [3u64, 4, 5, 6, 7, 9] {
                // (object 9 is free in the two-revision base)
                match base_doc.get(nr) {
                    Ok(Val::Null) => {}
                    Ok(v) => {
                        model.insert(nr, v);
                    }
                    Err(e) => panic!("base object {}: {}", nr, e),
                }
            }
            let mut written: Vec<u64> = vec![];
            let mut last_created: Option<PlainRef> = None;
            let mut last_fulfilled: Option<PlainRef> = None;
            let mut open_promises: Vec<pdf::file::PromisedRef<Primitive>> = vec![];
            let mut offended = false;
            let mut prev_bytes = base_bytes.clone();
            let depth = DEPTH.load(Ordering::Relaxed);
            for _step in 0..depth {
                let oi = ch.pick_free_named("op#", op_names());
                let (name, op) = OPS[oi];
                $descr.push(name);
                let mut after_save: Option<Vec<u8>> = None;
                match op {
                    OpKind::Stop => break,
                    OpKind::Create(v) => match st.create(value_prim(v)) {
                        Ok(rc) => {
                            let r = rc.get_ref().get_inner();
                            model.insert(r.id, value(v));
                            written.push(r.id);
                            last_created = Some(r);
                        }
                        Err(e) => {
                            verdict = Err((format!("create-error:{}", err_variant(&e)), String::new()));
                            break 'run;
                        }
                    },
                    OpKind::CreateNested => {
                        let table: Vec<u8> = (0..768u32).map(|i| (i % 251) as u8).collect();
                        let cs = pdf::object::ColorSpace::Indexed(Box::new(pdf::object::ColorSpace::DeviceRGB), 255, table.clone().into());
                        match st.create(cs) {
                            Ok(rc) => {
                                let outer = rc.get_ref().get_inner();
                                // the value must be [/Indexed /DeviceRGB 255 <reference to another new object holding the table>]
                                let inner = match st.resolver().resolve(outer) {
                                    Ok(Primitive::Array(a)) if a.len() == 4 => match &a[3] {
                                        Primitive::Reference(r) if r.id != outer.id => Some(*r),
                                        _ => None,
                                    },
                                    _ => None,
                                };
                                match inner {
                                    Some(inner) => {
                                        model.insert(outer.id, Val::Array(vec![Val::name("Indexed"), Val::name("DeviceRGB"), Val::Int(255), Val::Ref(inner.id, 0)]));
                                        model.insert(inner.id, Val::Stream(vec![], table));
                                        written.push(outer.id);
                                        written.push(inner.id);
                                        last_created = Some(outer);
                                    }
                                    None => {
                                        verdict = Err(("created-nested-object-wrong".into(), format!("created colour space {} reads as {:?}", outer.id, st.resolver().resolve(outer).map(|p| crate::common::show_prim(&p)).map_err(|e| err_variant(&e)))));
                                        break 'run;
                                    }
                                }
                            }
                            Err(e) => {
                                verdict = Err((format!("create-error:{}", err_variant(&e)), String::new()));
                                break 'run;
                            }
                        }
                    }
                    OpKind::Update(target, v) => {
                        let r = match target {
                            0 => PlainRef { id: 3, gen: 0 },
                            1 => PlainRef { id: 5, gen: 0 },
                            2 => PlainRef { id: 4, gen: 0 },
                            3 => match last_created {
                                Some(r) => r,
                                None => break 'run, // not applicable: ill-formed history
                            },
                            4 => match last_fulfilled {
                                Some(r) => r,
                                None => break 'run,
                            },
                            5 => PlainRef { id: 0, gen: 65535 },
                            _ => PlainRef { id: 9, gen: if !matches!(base_doc.get(9), Ok(Val::Null)) { 0 } else { 1 } },
                        };
                        // updating a free object number may be refused (the document then stays as it was); it must not panic
                        let target_is_free = !model.contains_key(&r.id) && matches!(base_doc.get(r.id), Ok(Val::Null));
                        match st.update(r, value_prim(v)) {
                            Err(_) if target_is_free => {}
                            Ok(rc) => {
                                let back = rc.get_ref().get_inner();
                                if back.id != r.id {
                                    // the caller is handed a different reference; the one it passed must still resolve to the new value
                                    model.insert(back.id, value(v));
                                    written.push(back.id);
                                }
                                model.insert(r.id, value(v));
                                written.push(r.id);
                            }
                            Err(e) => {
                                verdict = Err((format!("update-error:{}", err_variant(&e)), String::new()));
                                break 'run;
                            }
                        }
                    }
                    OpKind::Promise => {
                        open_promises.push(st.promise::<Primitive>());
                    }
                    OpKind::Fulfil(v) => {
                        let Some(pr) = open_promises.pop() else { break 'run };
                        let r = pr.get_inner();
                        match st.fulfill(pr, value_prim(v)) {
                            Ok(rc) => {
                                let back = rc.get_ref().get_inner();
                                if back.id != r.id {
                                    verdict = Err(("fulfil-returns-other-ref".into(), format!("promised {} fulfilled as {}", r.id, back.id)));
                                    break 'run;
                                }
                                model.insert(r.id, value(v));
                                written.push(r.id);
                                last_fulfilled = Some(r);
                            }
                            Err(e) => {
                                verdict = Err((format!("fulfil-error:{}", err_variant(&e)), String::new()));
                                break 'run;
                            }
                        }
                    }
                    OpKind::Read(target) => {
                        let r = match target {
                            0 => PlainRef { id: 3, gen: 0 },
                            1 => PlainRef { id: 5, gen: 0 },
                            2 => PlainRef { id: 4, gen: 0 },
                            _ => match last_created {
                                Some(r) => r,
                                None => break 'run,
                            },
                        };
                        // a typed load through the (possibly cached) document
                        if let Err(m) = check_ref(&st.resolver(), r, &model[&r.id], true) {
                            verdict = Err(("read-before-save-wrong".into(), m));
                            break 'run;
                        }
                    }
                    OpKind::Offend => {
                        // an in-file stream value cannot be serialised by the writer
                        let p = match st.resolver().resolve(PlainRef { id: 7, gen: 0 }) {
                            Ok(p @ Primitive::Stream(_)) => p,
                            _ => break 'run,
                        };
                        if st.update(PlainRef { id: 6, gen: 0 }, p).is_err() {
                            break 'run;
                        }
                        offended = true;
                    }
                    OpKind::Unoffend => {
                        if !offended {
                            break 'run;
                        }
                        match st.update(PlainRef { id: 6, gen: 0 }, value_prim(3)) {
                            Ok(_) => {
                                model.insert(6, value(3));
                                written.push(6);
                                offended = false;
                            }
                            Err(e) => {
                                verdict = Err((format!("update-error:{}", err_variant(&e)), String::new()));
                                break 'run;
                            }
                        }
                    }
                    OpKind::Save => {
                        if !open_promises.is_empty() {
                            break 'run; // a promise that is never fulfilled is outside the property
                        }
                        match st.save(&mut trailer) {
                            Ok(bytes) => {
                                if offended {
                                    verdict = Err(("unserialisable-object-saved".into(), "save succeeded although an object cannot be serialised".into()));
                                    break 'run;
                                }
                                after_save = Some(bytes.to_vec());
                            }
                            Err(e) => {
                                if !offended {
                                    verdict = Err((format!("save-error:{}", err_variant(&e)), format!("history {:?}: {}", $descr, truncate(&format!("{}", err_root(&e)), 160))));
                                    break 'run;
                                }
                                // expected failure; the document must stay usable
                            }
                        }
                    }
                }
                // every read through the open document reflects every write (untyped and typed)
                {
                    let res = st.resolver();
                    for (&nr, want) in &model {
                        if offended && nr == 6 {
                            continue;
                        }
                        if let Err(m) = check_ref(&res, PlainRef { id: nr, gen: 0 }, want, false) {
                            verdict = Err(("open-document-read-wrong".into(), format!("after {:?}: {}", $descr, m)));
                            break 'run;
                        }
                    }
                    for &nr in &written {
                        if offended && nr == 6 {
                            continue;
                        }
                        if let Err(m) = check_ref(&res, PlainRef { id: nr, gen: 0 }, &model[&nr], true) {
                            verdict = Err(("open-document-typed-read-wrong".into(), format!("after {:?}: {}", $descr, m)));
                            break 'run;
                        }
                    }
                }
                if let Some(bytes) = after_save {
                    if !bytes.starts_with(&prev_bytes) {
                        verdict = Err(("previous-revision-modified".into(), format!("after {:?}: the previous {} bytes are not a prefix of the output", $descr, prev_bytes.len())));
                        break 'run;
                    }
                    // independent structural check
                    match crate::refread::RefDoc::open(&bytes) {
                        Err(m) => {
                            verdict = Err(("saved-file-structure".into(), format!("after {:?}: {}", $descr, m)));
                            break 'run;
                        }
                        Ok(doc) => {
                            let problems = doc.validate(false);
                            if !problems.is_empty() {
                                let kind = if problems.iter().any(|p| p.contains("xref entry") || p.contains("expected")) { "saved-file-offsets" } else { "saved-file-invalid" };
                                verdict = Err((kind.into(), format!("after {:?}: {}", $descr, truncate(&problems.join("; "), 300))));
                                break 'run;
                            }
                            for (&nr, want) in &model {
                                match doc.get(nr) {
                                    Ok(v) => {
                                        if !vals_equal(&v, want) {
                                            verdict = Err(("saved-file-content".into(), format!("after {:?}: independent reader finds object {} = {} expected {}", $descr, nr, show_val(&v), show_val(want))));
                                            break 'run;
                                        }
                                    }
                                    Err(m) => {
                                        verdict = Err(("saved-file-structure".into(), format!("after {:?}: object {}: {}", $descr, nr, m)));
                                        break 'run;
                                    }
                                }
                            }
                        }
                    }
                    // reload with the library
                    match FileOptions::uncached().load(bytes.clone()) {
                        Err(e) => {
                            verdict = Err((format!("reload-error:{}", err_variant(&e)), format!("after {:?}: {}", $descr, truncate(&format!("{}", err_root(&e)), 160))));
                            break 'run;
                        }
                        Ok(file) => {
                            let res = file.resolver();
                            for (&nr, want) in &model {
                                if let Err(m) = check_ref(&res, PlainRef { id: nr, gen: 0 }, want, false) {
                                    let kind = if written.contains(&nr) { "reload-written-object-wrong" } else { "reload-untouched-object-changed" };
                                    verdict = Err((kind.into(), format!("after {:?}: {}", $descr, m)));
                                    break 'run;
                                }
                            }
                            // stream data of the untouched compressed stream
                            match res.resolve(PlainRef { id: 7, gen: 0 }).and_then(|p| pdf::object::Stream::<()>::from_primitive(p, &res)).and_then(|s| s.data(&res)) {
                                Ok(d) if &d[..] == b"untouched stream data" => {}
                                Ok(d) => {
                                    verdict = Err(("reload-untouched-stream-data".into(), show_bytes(&d)));
                                    break 'run;
                                }
                                Err(e) => {
                                    verdict = Err((format!("reload-untouched-stream-error:{}", err_variant(&e)), String::new()));
                                    break 'run;
                                }
                            }
                        }
                    }
                    prev_bytes = bytes;
                }
            }
        }
        verdict
    }};
}

fn vals_equal(a: &Val, b: &Val) -> bool {
    match (a, b) {
        (Val::Int(x), Val::Real(t)) | (Val::Real(t), Val::Int(x)) => *x as f32 == real_value(t),
        (Val::Real(s), Val::Real(t)) => real_value(s) == real_value(t),
        (Val::Array(x), Val::Array(y)) => x.len() == y.len() && x.iter().zip(y).all(|(p, q)| vals_equal(p, q)),
        (Val::Dict(x), Val::Dict(y)) => dict_equal(x, y, false),
        (Val::Stream(x, dx), Val::Stream(y, dy)) => dx == dy && dict_equal(x, y, true),
        _ => a == b,
    }
}
fn dict_equal(x: &[(Vec<u8>, Val)], y: &[(Vec<u8>, Val)], skip_length: bool) -> bool {
    let f = |d: &[(Vec<u8>, Val)]| -> Vec<(Vec<u8>, Val)> { d.iter().filter(|(k, _)| !(skip_length && k == b"Length")).cloned().collect() };
    let (x, y) = (f(x), f(y));
    x.len() == y.len() && x.iter().all(|(k, v)| y.iter().any(|(k2, v2)| k == k2 && vals_equal(v, v2)))
}

// ------------------------------------------------------------------------------------------------
// the same kind of history through the File interface (File as Updater, save_to a path): the glue a user actually calls

const FILE_OPS: &[&str] = &["stop", "save_to", "create:dictA", "update:direct3<-dictB", "update:compressed5<-dictA", "promise+fulfil<-name", "update:last-created<-int"];

fn scratch_path() -> std::path::PathBuf {
    let dir = std::env::var("CARGO_TARGET_DIR").map(std::path::PathBuf::from).unwrap_or_else(|_| std::env::current_exe().unwrap().parent().unwrap().to_path_buf()).join("scratch");
    let _ = std::fs::create_dir_all(&dir);
    dir.join(format!("c09-{}-{:?}.pdf", std::process::id(), std::thread::current().id()).replace(['(', ')'], ""))
}

macro_rules! run_file_history {
    ($ch:expr, $file:expr, $base_bytes:expr, $descr:expr) => {{
        let ch: &mut Chooser = $ch;
        let mut file = $file;
        let base_bytes: Vec<u8> = $base_bytes;
        let mut verdict: std::result::Result<(), (String, String)> = Ok(());
        let path = scratch_path();
        'run: {
            let mut model: BTreeMap<u64, Val> = BTreeMap::new();
            let base_doc = crate::refread::RefDoc::open(&base_bytes).expect("base readable");
            for nr in [3u64, 4, 5, 6, 7, 9] {
                match base_doc.get(nr) {
                    Ok(Val::Null) => {}
                    Ok(v) => {
                        model.insert(nr, v);
                    }
                    Err(e) => panic!("base object {}: {}", nr, e),
                }
            }
            let mut written: Vec<u64> = vec![];
            let mut last_created: Option<PlainRef> = None;
            let mut prev_bytes = base_bytes.clone();
            let mut dirty = false;
            for step in 0..4 {
                // the last step is always a save, so that every history is checked on disk
                let oi = if step == 3 { 1 } else { ch.pick_free_named("file-op#", FILE_OPS) };
                $descr.push(FILE_OPS[oi]);
                match oi {
                    0 => {
                        if !dirty {
                            break 'run;
                        }
                        continue;
                    }
                    1 => {
                        if let Err(e) = file.save_to(&path) {
                            verdict = Err((format!("save-error:{}", err_variant(&e)), format!("history {:?}: {}", $descr, truncate(&format!("{}", err_root(&e)), 160))));
                            break 'run;
                        }
                        dirty = false;
                        let bytes = std::fs::read(&path).unwrap_or_default();
                        if !bytes.starts_with(&prev_bytes) {
                            verdict = Err(("previous-revision-modified".into(), format!("after {:?}: the previous {} bytes are not a prefix of the file written by save_to", $descr, prev_bytes.len())));
                            break 'run;
                        }
                        match crate::refread::RefDoc::open(&bytes) {
                            Err(m) => {
                                verdict = Err(("saved-file-structure".into(), format!("after {:?}: {}", $descr, m)));
                                break 'run;
                            }
                            Ok(doc) => {
                                let problems = doc.validate(false);
                                if !problems.is_empty() {
                                    verdict = Err(("saved-file-invalid".into(), format!("after {:?}: {}", $descr, truncate(&problems.join("; "), 300))));
                                    break 'run;
                                }
                            }
                        }
                        match FileOptions::uncached().load(bytes.clone()) {
                            Err(e) => {
                                verdict = Err((format!("reload-error:{}", err_variant(&e)), format!("after {:?}: {}", $descr, truncate(&format!("{}", err_root(&e)), 160))));
                                break 'run;
                            }
                            Ok(re) => {
                                let res = re.resolver();
                                for (&nr, want) in &model {
                                    if let Err(m) = check_ref(&res, PlainRef { id: nr, gen: 0 }, want, false) {
                                        let kind = if written.contains(&nr) { "reload-written-object-wrong" } else { "reload-untouched-object-changed" };
                                        verdict = Err((kind.into(), format!("after {:?}: {}", $descr, m)));
                                        break 'run;
                                    }
                                }
                                if re.num_pages() != file.num_pages() {
                                    verdict = Err(("reload-page-count".into(), format!("{} vs {}", re.num_pages(), file.num_pages())));
                                    break 'run;
                                }
                            }
                        }
                        prev_bytes = bytes;
                    }
                    2 => match file.create(value_prim(2)) {
                        Ok(rc) => {
                            let r = rc.get_ref().get_inner();
                            model.insert(r.id, value(2));
                            written.push(r.id);
                            last_created = Some(r);
                            dirty = true;
                        }
                        Err(e) => {
                            verdict = Err((format!("create-error:{}", err_variant(&e)), String::new()));
                            break 'run;
                        }
                    },
                    3 | 4 | 6 => {
                        let (r, v) = match oi {
                            3 => (PlainRef { id: 3, gen: 0 }, 3),
                            4 => (PlainRef { id: 5, gen: 0 }, 2),
                            _ => match last_created {
                                Some(r) => (r, 0),
                                None => break 'run,
                            },
                        };
                        // (the merge of two dictionary updates of one object is a recorded finding of the storage-level engine)
                        if matches!(model.get(&r.id), Some(Val::Dict(_))) && written.contains(&r.id) && v != 0 {
                            break 'run;
                        }
                        match file.update(r, value_prim(v)) {
                            Ok(_) => {
                                model.insert(r.id, value(v));
                                written.push(r.id);
                                dirty = true;
                            }
                            Err(e) => {
                                verdict = Err((format!("update-error:{}", err_variant(&e)), String::new()));
                                break 'run;
                            }
                        }
                    }
                    _ => {
                        let pr = file.promise::<Primitive>();
                        let r = pr.get_inner();
                        match file.fulfill(pr, value_prim(1)) {
                            Ok(_) => {
                                model.insert(r.id, value(1));
                                written.push(r.id);
                                dirty = true;
                            }
                            Err(e) => {
                                verdict = Err((format!("fulfil-error:{}", err_variant(&e)), String::new()));
                                break 'run;
                            }
                        }
                    }
                }
                // reads through the open File reflect every write
                let res = file.resolver();
                for (&nr, want) in &model {
                    if let Err(m) = check_ref(&res, PlainRef { id: nr, gen: 0 }, want, false) {
                        verdict = Err(("open-document-read-wrong".into(), format!("after {:?}: {}", $descr, m)));
                        break 'run;
                    }
                }
            }
        }
        let _ = std::fs::remove_file(&path);
        verdict
    }};
}

pub fn file_case(ch: &mut Chooser, t: &mut Tally) {
    let base = ch.pick_free_named("base", BASES);
    let cached = ch.pick_free_named("cache", CACHE);
    let bytes = base_file(base);
    let mut descr: Vec<&'static str> = vec![];
    let res = catch(|| {
        if cached == 1 {
            match FileOptions::cached().load(bytes.clone()) {
                Ok(f) => run_file_history!(ch, f, bytes.clone(), descr),
                Err(e) => Err((format!("base-open-error:{}", err_variant(&e)), String::new())),
            }
        } else {
            match FileOptions::uncached().load(bytes.clone()) {
                Ok(f) => run_file_history!(ch, f, bytes.clone(), descr),
                Err(e) => Err((format!("base-open-error:{}", err_variant(&e)), String::new())),
            }
        }
    });
    t.evaluations += 1;
    t.distinct.insert(fnv(format!("file{}{}{:?}", base, cached, descr).as_bytes()));
    let verdict = match res {
        Err((loc, msg)) => Err((panic_kind(&loc), format!("history {:?}: {}", descr, msg))),
        Ok(v) => v,
    };
    match verdict {
        Ok(()) => t.outcome("ok"),
        Err((kind, detail)) => {
            t.outcome(&kind);
            let mut devs: Vec<String> = descr.iter().filter(|d| **d != "stop").map(|d| format!("op={}", d)).collect();
            devs.sort();
            devs.dedup();
            if base != 0 {
                devs.push(format!("base={}", BASES[base]));
            }
            if cached == 1 {
                devs.push("cache=cached".into());
            }
            t.fail("c09.file", &kind, devs, format!("base {} {}: {}", BASES[base], CACHE[cached], detail), ch.replay_value("c09.file"));
        }
    }
}

pub fn history_case(ch: &mut Chooser, t: &mut Tally) {
    let base = ch.pick_free_named("base", BASES);
    let cached = ch.pick_free_named("cache", CACHE);
    let bytes = base_file(base);
    let mut descr: Vec<&'static str> = vec![];
    let res = catch(|| {
        if cached == 1 {
            run_history!(ch, t, bytes.clone(), SyncCache::new(), SyncCache::new(), descr)
        } else {
            run_history!(ch, t, bytes.clone(), NoCache, NoCache, descr)
        }
    });
    let _ = prim_eq;
    t.evaluations += 1;
    t.distinct.insert(fnv(format!("{}{}{:?}", base, cached, descr).as_bytes()));
    if ch.want_sample {
        println!("base={} cache={} history={:?}", BASES[base], CACHE[cached], descr);
    }
    let verdict = match res {
        Err((loc, msg)) => Err((panic_kind(&loc), format!("history {:?}: {}", descr, msg))),
        Ok(v) => v,
    };
    match verdict {
        Ok(()) => t.outcome("ok"),
        Err((kind, detail)) => {
            t.outcome(&kind);
            let mut rv = ch.replay_value("c09.history");
            rv["depth"] = json!(DEPTH.load(Ordering::Relaxed));
            t.fail("c09.history", &kind, ch.deviations(), format!("base {} {}: {}", BASES[base], CACHE[cached], detail), rv);
        }
    }
}

pub fn run(tier: Tier, _seed: u64, tally: &mut Tally) -> CheckMeta {
    let depth = if tier.thorough() { 5 } else { 4 };
    DEPTH.store(depth, Ordering::Relaxed);
    explore("c09.history", Limits::new(0).wall(if tier.thorough() { 3000 } else { 600 }), tally, history_case);
    explore("c09.file", Limits::new(0), tally, file_case);
    tally.validated = tally.evaluations;
    tally.sample(json!({"base": "xref-stream+objstm", "cache": "cached", "history": ["get:compressed5", "update:compressed5<-dictA", "save"]}));
    tally.sample(json!({"base": "junk-before-header", "history": ["create:int", "save", "update:last-created<-dictB", "save"]}));
    tally.sample(json!({"base": "classic", "history": ["offend:update6<-infile-stream", "save", "unoffend:update6<-dict", "save"]}));
    CheckMeta {
        prop: "C09",
        level: "model_checking",
        rule: format!("every history of <= {} operations over a {}-symbol alphabet (create of 4 value kinds and of a typed value whose conversion creates a second object, update of a direct / compressed / stream / created / fulfilled object, of object 0 and of an object number that is free in one base and in use in the others (a refused update must leave the document as it was), promise, fulfil, typed reads, save, an update with an unserialisable value and its repair) x 4 base files (classic, xref stream + object stream, junk before the header, two revisions the second of which frees an object) x {{uncached, SyncCache}} executed on a real Storage; after every step every tracked reference is read (resolve and typed get) and compared with a map reference model; after every successful save the previous bytes must be a prefix, the independent structural reader must accept the output and find the model values, and a reload must resolve written references to the last value and untouched objects (incl. stream data) to their old value; a save with an unserialisable object must fail and a later save succeed. Ill-formed histories (fulfil without promise, save with an open promise) are skipped. The same through the File interface (File as Updater, save_to a path, reload from the path): all histories of <= 3 operations over 6 operations followed by a save, same bases and caches.", depth, OPS.len() - 1),
        assumptions: vec!["a promise that is never fulfilled before save is outside the property".into()],
        exhaustive: true,
        bounds: json!({"depth": depth}),
    }
}

pub fn replay(case: &Value, tally: &mut Tally) {
    let picks: Vec<u32> = case["picks"].as_array().map(|a| a.iter().map(|x| x.as_u64().unwrap() as u32).collect()).unwrap_or_default();
    DEPTH.store(case["depth"].as_u64().unwrap_or(3) as usize, Ordering::Relaxed);
    if case["engine"].as_str() == Some("c09.file") {
        run_one(&picks, tally, file_case);
    } else {
        run_one(&picks, tally, history_case);
    }
}
