//! C10 — documents built from scratch reload with the same pages and are valid PDF.
use crate::core::*;
use crate::explore::*;
use crate::props::c08::{canon_seq, op_alphabet};
use pdf::build::{CatalogBuilder, PageBuilder, PdfBuilder};
use pdf::content::*;
use pdf::file::FileOptions;
use pdf::font::{Font, FontData, FontType, TFont};
use pdf::object::*;
use pdf::primitive::{Date, Dictionary, PdfString, Primitive, TimeRel};
use serde_json::{json, Value};

const NPAGES: &[&str] = &["1-page", "0-pages", "2-pages", "3-pages"];
const OPSETS: &[&str] = &["marker-only", "empty", "path+paint", "text", "colors+state", "shorthand-s-b", "shorthand-quote", "shorthand-TD", "shorthand-v-y", "marked-content", "inline-images", "text-that-names-keywords"];
const BOX: &[&str] = &["letter", "absent", "non-integer", "negative-origin", "tiny-and-huge-coordinates"];
const OPTBOX: &[&str] = &["absent", "present", "non-integer", "tiny-and-huge-coordinates"];
const ROTATE: &[&str] = &["0", "90", "-90", "270"];
const OTHER: &[&str] = &["none", "int", "nested-dict", "name", "string+array", "tiny-real", "names-with-number-signs-and-delimiters"];
const RES: &[&str] = &["none", "font", "ext-gstate", "both", "colour-spaces"];
const INFO: &[&str] = &["none", "title-only", "all-fields", "strings-with-unpaired-parentheses"];
const PRIM: &[&str] = &["none", "metadata-dict"];

fn pt(x: f32, y: f32) -> Point {
    Point { x, y }
}
fn opset(i: usize, marker: usize) -> Vec<Op> {
    let alpha = op_alphabet();
    let get = |n: &str| alpha.iter().find(|(k, _)| *k == n).map(|(_, o)| o.clone()).unwrap();
    let mark = Op::TextDraw { text: PdfString::new(format!("page-marker-{}", marker).as_bytes().into()) };
    let mut ops = vec![Op::BeginText, mark, Op::EndText];
    match i {
        0 => {}
        1 => return vec![],
        2 => ops.extend([get("MoveTo"), get("LineTo"), get("CurveTo"), get("Rect"), get("Fill*"), get("Save"), get("Transform"), get("Restore")]),
        3 => ops.extend([Op::BeginText, get("TextFont"), get("CharSpacing"), get("TextScaling"), get("SetTextMatrix"), get("TextDraw"), get("TextDrawAdjusted"), get("TextRise"), Op::EndText]),
        4 => ops.extend([get("FillColor:Rgb"), get("StrokeColor:Cmyk"), get("LineWidth"), get("Dash"), get("LineCap"), get("LineJoin"), get("GraphicsState"), get("RenderingIntent"), get("FillColorSpace"), get("FillColor:Other")]),
        5 => ops.extend([get("MoveTo"), get("LineTo"), Op::Close, Op::Stroke, get("MoveTo"), Op::Close, get("FillAndStroke"), get("MoveTo"), Op::Close, get("FillAndStroke*")]),
        6 => ops.extend([Op::BeginText, get("WordSpacing"), get("CharSpacing"), Op::TextNewline, get("TextDraw"), Op::TextNewline, get("TextDraw:binary"), Op::EndText]),
        7 => ops.extend([Op::BeginText, Op::Leading { leading: 14.0 }, Op::MoveTextPosition { translation: pt(10.0, -14.0) }, Op::Leading { leading: 3.0 }, Op::MoveTextPosition { translation: pt(-3.0, 5.0) }, Op::EndText]),
        8 => ops.extend([get("MoveTo"), get("CurveTo:c1=current"), get("CurveTo:c2=p"), get("Rect"), Op::CurveTo { c1: pt(0.0, 1.0), c2: pt(2.0, 2.0), p: pt(3.0, 3.0) }, Op::Close, Op::CurveTo { c1: pt(1.0, 2.0), c2: pt(2.0, 2.0), p: pt(3.0, 3.0) }, Op::Stroke]),
        9 => ops.extend([get("BeginMarkedContent:props"), get("MarkedContentPoint:props"), get("XObject"), Op::EndMarkedContent]),
        10 => ops.extend([get("InlineImage"), get("Save"), get("InlineImage:filters"), get("InlineImage:indexed"), get("InlineImage:built"), get("InlineImage:mask"), get("InlineImage:parms"), get("Restore")]),
        // the data of a content stream may contain any bytes, the words that delimit objects and streams included
        _ => ops.extend([
            Op::BeginText,
            Op::TextDraw { text: PdfString::new(b"the word endstream, then endobj, xref, trailer and startxref"[..].into()) },
            Op::TextDraw { text: PdfString::new(b"\nendstream\nendobj\n9 0 obj\n<< /Length 1 >>\nstream\n"[..].into()) },
            Op::EndText,
            Op::BeginMarkedContent { tag: "endstream".into(), properties: None },
            Op::EndMarkedContent,
        ]),
    }
    ops
}
fn rect(kind: usize) -> Option<Rectangle> {
    match kind {
        0 => Some(Rectangle { left: 0.0, bottom: 0.0, right: 612.0, top: 792.0 }),
        1 => None,
        2 => Some(Rectangle { left: 0.5, bottom: 0.25, right: 595.276, top: 841.89 }),
        3 => Some(Rectangle { left: -10.0, bottom: -20.0, right: 100.0, top: 2147483648.0 }),
        // magnitudes at which float formatting switches notation
        _ => Some(Rectangle { left: 0.00005, bottom: -0.0000001, right: 3e16, top: 1e20 }),
    }
}
fn rect_eq(a: &Option<Rectangle>, b: &Option<Rectangle>) -> bool {
    match (a, b) {
        (None, None) => true,
        (Some(a), Some(b)) => a.left == b.left && a.bottom == b.bottom && a.right == b.right && a.top == b.top,
        _ => false,
    }
}

struct PageSpec {
    ops: Vec<Op>,
    media: Option<Rectangle>,
    crop: Option<Rectangle>,
    trim: Option<Rectangle>,
    rotate: i32,
    other: Dictionary,
    res: usize,
    metadata: Option<Primitive>,
}

pub fn builder_case(ch: &mut Chooser, t: &mut Tally) {
    let np = [1usize, 0, 2, 3][ch.pick_named("pages", NPAGES)];
    let info_kind = ch.pick_named("info", INFO);
    let mut specs: Vec<PageSpec> = vec![];
    for k in 0..np {
        let os = ch.pick_named("ops#", OPSETS);
        let mb = ch.pick_named("media-box#", BOX);
        let cb = ch.pick_named("crop-box#", OPTBOX);
        let tb = ch.pick_named("trim-box#", OPTBOX);
        let rot = [0, 90, -90, 270][ch.pick_named("rotate#", ROTATE)];
        let oth = ch.pick_named("other#", OTHER);
        let res = ch.pick_named("resources#", RES);
        let md = ch.pick_named("metadata#", PRIM);
        let mut other = Dictionary::new();
        match oth {
            1 => {
                other.insert("UserUnit", Primitive::Integer(2));
            }
            2 => {
                let mut inner = Dictionary::new();
                inner.insert("Deep", Primitive::Array(vec![Primitive::Integer(1), Primitive::Number(0.5), Primitive::Null]));
                let mut d = Dictionary::new();
                d.insert("App Data", Primitive::Dictionary(inner));
                other.insert("PieceInfo", Primitive::Dictionary(d));
            }
            3 => {
                other.insert("Tabs", Primitive::Name("S".into()));
            }
            5 => {
                other.insert("UserUnit", Primitive::Number(0.000075));
            }
            6 => {
                // names are arbitrary byte sequences: number signs (also followed by two hex digits or by nothing),
                // delimiters, white space and non-ASCII characters must come back as they were given
                other.insert("Rev#41", Primitive::Name("a#b/c(d)%e f<g>[h]{i}\u{7f}\u{e9}#".into()));
                other.insert("#", Primitive::Array(vec![Primitive::Name("#23".into()), Primitive::Name("##".into()), Primitive::Name("Layer#2A".into()), Primitive::Name("".into())]));
            }
            4 => {
                other.insert("Custom", Primitive::Array(vec![Primitive::String(PdfString::new(b"a (string) \\ with \r specials"[..].into())), Primitive::String(PdfString::new(b"b) (a"[..].into())), Primitive::Boolean(true)]));
            }
            _ => {}
        }
        let optbox = |k: usize| match k {
            0 => None,
            1 => Some(Rectangle { left: 10.0, bottom: 20.0, right: 300.0, top: 400.0 }),
            2 => Some(Rectangle { left: 0.1, bottom: 0.2, right: 99.9, top: 100.125 }),
            _ => Some(Rectangle { left: 0.00002, bottom: 0.00005, right: 1e16, top: 123456789012345680000.0 }),
        };
        let metadata = if md == 1 {
            let mut d = Dictionary::new();
            d.insert("Note", Primitive::String(PdfString::new(b"meta"[..].into())));
            Some(Primitive::Dictionary(d))
        } else {
            None
        };
        specs.push(PageSpec { ops: opset(os, k), media: rect(mb), crop: optbox(cb), trim: optbox(tb), rotate: rot, other, res, metadata });
    }
    let info = match info_kind {
        0 => None,
        1 => Some(InfoDict { title: Some(PdfString::new(b"Only a (title)"[..].into())), ..Default::default() }),
        3 => Some(InfoDict { title: Some(PdfString::new(b"1) scope (draft"[..].into())), subject: Some(PdfString::new(b")("[..].into())), keywords: Some(PdfString::new(b"((a) \\ )b( \\"[..].into())), ..Default::default() }),
        _ => Some(InfoDict {
            title: Some(PdfString::new(b"T"[..].into())),
            author: Some(PdfString::new(vec![0xfe, 0xff, 0, b'A'].as_slice().into())),
            subject: Some(PdfString::new(b"S"[..].into())),
            keywords: Some(PdfString::new(b"k1, k2"[..].into())),
            creator: Some(PdfString::new(b"C"[..].into())),
            producer: Some(PdfString::new(b"P"[..].into())),
            creation_date: Some(Date { year: 2024, month: 2, day: 29, hour: 23, minute: 59, second: 58, rel: TimeRel::Later, tz_hour: 1, tz_minute: 30 }),
            mod_date: Some(Date { year: 1999, month: 12, day: 31, hour: 0, minute: 0, second: 0, rel: TimeRel::Universal, tz_hour: 0, tz_minute: 0 }),
            trapped: Some(Trapped::False),
        }),
    };
    t.evaluations += 1;
    let res = catch(|| -> std::result::Result<Vec<u8>, (String, String)> {
        let mut builder = PdfBuilder::new(FileOptions::uncached());
        let mut pages = vec![];
        for s in &specs {
            let mut resources = Resources::default();
            if s.res == 1 || s.res == 3 {
                let font = Font {
                    subtype: FontType::Type1,
                    name: Some("Helvetica".into()),
                    data: FontData::Type1(TFont { base_font: Some("Helvetica".into()), first_char: Some(32), last_char: Some(33), widths: Some(vec![278.0, 333.5]), font_descriptor: None }),
                    encoding: None,
                    to_unicode: None,
                    _other: Dictionary::new(),
                };
                let rc = builder.storage.create(font).map_err(|e| (format!("create-font-error:{}", err_variant(&e)), String::new()))?;
                resources.fonts.insert("F1".into(), rc.into());
            }
            if s.res == 2 || s.res == 3 {
                let mut d = Dictionary::new();
                d.insert("LW", Primitive::Number(2.5));
                d.insert("Type", Primitive::Name("ExtGState".into()));
                let gs = GraphicsStateParameters::from_primitive(Primitive::Dictionary(d), &NoResolve).map_err(|e| (format!("gs-error:{}", err_variant(&e)), String::new()))?;
                resources.graphics_states.insert("GS1".into(), gs);
            }
            if s.res == 4 {
                for (name, cs) in colour_spaces() {
                    resources.color_spaces.insert(name.into(), cs);
                }
            }
            pages.push(PageBuilder {
                ops: s.ops.clone(),
                media_box: s.media,
                crop_box: s.crop,
                trim_box: s.trim,
                resources,
                rotate: s.rotate,
                metadata: s.metadata.clone(),
                lgi: None,
                vp: None,
                other: s.other.clone(),
            });
        }
        if let Some(i) = info {
            builder = builder.info(i);
        }
        builder.build(CatalogBuilder::from_pages(pages)).map_err(|e| (format!("build-error:{}", err_variant(&e)), truncate(&format!("{}", err_root(&e)), 200)))
    });
    let bytes = match res {
        Err((loc, msg)) => Err((panic_kind(&loc), msg)),
        Ok(r) => r,
    };
    let verdict: std::result::Result<(), (String, String)> = match bytes {
        Err(e) => Err(e),
        Ok(bytes) => {
            t.distinct.insert(fnv(&bytes));
            if ch.want_sample {
                println!("built file:\n{}", show_bytes(&bytes[..bytes.len().min(3000)]));
            }
            let r = catch(|| check_built(&bytes, &specs, info_kind));
            match r {
                Err((loc, msg)) => Err((panic_kind(&loc), msg)),
                Ok(v) => v,
            }
        }
    };
    match verdict {
        Ok(()) => t.outcome("ok"),
        Err((kind, detail)) => {
            t.outcome(&kind);
            t.fail("c10.builder", &kind, ch.deviations(), detail, ch.replay_value("c10.builder"));
        }
    }
}

/// colour spaces the model can hold without needing other objects
fn colour_spaces() -> Vec<(&'static str, ColorSpace)> {
    let mut cal = Dictionary::new();
    cal.insert("WhitePoint", Primitive::Array(vec![Primitive::Number(0.9505), Primitive::Integer(1), Primitive::Number(1.089)]));
    cal.insert("Gamma", Primitive::Number(2.2));
    vec![
        ("CsGray", ColorSpace::DeviceGray),
        ("CsRgb", ColorSpace::DeviceRGB),
        ("CsCmyk", ColorSpace::DeviceCMYK),
        ("CsPattern", ColorSpace::Pattern),
        ("CsCal", ColorSpace::CalGray(cal)),
        ("CsSmall", ColorSpace::Indexed(Box::new(ColorSpace::DeviceGray), 3, vec![0u8, 85, 170, 255].into())),
        ("CsBig", ColorSpace::Indexed(Box::new(ColorSpace::DeviceRGB), 255, (0..768u32).map(|i| (i % 251) as u8).collect::<Vec<u8>>().into())),
        ("CsOther", ColorSpace::Other(vec![Primitive::Name("Lab".into()), Primitive::Dictionary(Dictionary::new())])),
    ]
}

fn check_built(bytes: &[u8], specs: &[PageSpec], info_kind: usize) -> std::result::Result<(), (String, String)> {
    // (2) independent structural check
    let doc = crate::refread::RefDoc::open(bytes).map_err(|m| ("structure".to_string(), m))?;
    let problems = doc.validate(true);
    if !problems.is_empty() {
        let kind = if problems.iter().any(|p| p.contains("/Size")) {
            "structure:size"
        } else if problems.iter().any(|p| p.contains("undefined object")) {
            "structure:dangling-reference"
        } else if problems.iter().any(|p| p.contains("Length")) {
            "structure:length"
        } else {
            "structure:other"
        };
        return Err((kind.into(), truncate(&problems.join("; "), 400)));
    }
    if !bytes.starts_with(b"%PDF-") {
        return Err(("structure:header".into(), "header is not first".into()));
    }
    // (1) reload with the library
    let file = FileOptions::uncached().load(bytes.to_vec()).map_err(|e| (format!("reload-error:{}", err_variant(&e)), truncate(&format!("{}", err_root(&e)), 200)))?;
    if file.num_pages() as usize != specs.len() {
        return Err(("page-count".into(), format!("{} pages built, {} found", specs.len(), file.num_pages())));
    }
    let r = file.resolver();
    for (i, s) in specs.iter().enumerate() {
        let page = file.get_page(i as u32).map_err(|e| (format!("get-page-error:{}", err_variant(&e)), format!("page {}", i)))?;
        let ops = match page.contents.as_ref() {
            Some(c) => c.operations(&r).map_err(|e| (format!("ops-error:{}", err_variant(&e)), format!("page {}: {}", i, truncate(&format!("{}", err_root(&e)), 160))))?,
            None => vec![],
        };
        let (want, got) = (canon_seq(&s.ops), canon_seq(&ops));
        if want != got {
            let kind = if got.iter().any(|g| g.contains("page-marker")) && !got.contains(&format!("TextDraw(page-marker-{})", i)) { "page-order" } else { "ops-differ" };
            return Err((kind.into(), format!("page {}: built {:?} reloaded {:?}", i, want, got)));
        }
        if !rect_eq(&page.media_box, &s.media) {
            return Err(("media-box".into(), format!("page {}: {:?} vs {:?}", i, page.media_box, s.media)));
        }
        if !rect_eq(&page.crop_box, &s.crop) {
            return Err(("crop-box".into(), format!("page {}: {:?} vs {:?}", i, page.crop_box, s.crop)));
        }
        if !rect_eq(&page.trim_box, &s.trim) {
            return Err(("trim-box".into(), format!("page {}: {:?} vs {:?}", i, page.trim_box, s.trim)));
        }
        if page.rotate != s.rotate {
            return Err(("rotate".into(), format!("page {}: {} vs {}", i, page.rotate, s.rotate)));
        }
        // extra entries
        for (k, v) in s.other.iter() {
            match page.other.get(k.as_str()) {
                Some(p) if crate::props::c04::prim_eq(p, v) => {}
                other => return Err(("other-entries".into(), format!("page {}: /{} built {} reloaded {:?}", i, k.as_str(), crate::common::show_prim(v), other.map(crate::common::show_prim)))),
            }
        }
        if page.other.len() != s.other.len() {
            return Err(("other-entries".into(), format!("page {}: {} extra entries built, {} reloaded: {}", i, s.other.len(), page.other.len(), crate::common::show_dict(&page.other))));
        }
        match (&page.metadata, &s.metadata) {
            (None, None) => {}
            (Some(a), Some(b)) if crate::props::c04::prim_eq(a, b) => {}
            (a, b) => return Err(("metadata-entry".into(), format!("page {}: {:?} vs {:?}", i, a.as_ref().map(crate::common::show_prim), b.as_ref().map(crate::common::show_prim)))),
        }
        let res = page.resources().map_err(|e| (format!("resources-error:{}", err_variant(&e)), format!("page {}", i)))?;
        let want_font = s.res == 1 || s.res == 3;
        let want_gs = s.res == 2 || s.res == 3;
        if s.res == 4 {
            for (name, cs) in colour_spaces() {
                match res.color_spaces.get(name) {
                    Some(got) if format!("{:?}", got) == format!("{:?}", cs) => {}
                    got => return Err(("colour-space".into(), format!("page {}: /{} built {:?} reloaded {:?}", i, name, cs, got))),
                }
            }
            if res.color_spaces.len() != colour_spaces().len() {
                return Err(("colour-space".into(), format!("page {}: {} colour spaces", i, res.color_spaces.len())));
            }
        }
        if res.fonts.len() != want_font as usize || res.graphics_states.len() != want_gs as usize {
            return Err(("resources".into(), format!("page {}: fonts {} gs {}", i, res.fonts.len(), res.graphics_states.len())));
        }
        if want_font {
            let f = res.fonts.values().next().unwrap().load(&r).map_err(|e| (format!("font-error:{}", err_variant(&e)), String::new()))?;
            let w = f.widths(&r).map_err(|e| (format!("font-widths-error:{}", err_variant(&e)), String::new()))?;
            match w {
                Some(w) if w.get(32) == 278.0 && w.get(33) == 333.5 && w.get(34) == 0.0 => {}
                _ => return Err(("font-widths".into(), format!("page {}", i))),
            }
        }
        if want_gs && res.graphics_states.values().next().unwrap().line_width != Some(2.5) {
            return Err(("ext-gstate".into(), format!("page {}", i)));
        }
    }
    if file.get_page(specs.len() as u32).is_ok() {
        return Err(("extra-page".into(), String::new()));
    }
    // info
    let info = file.trailer.info_dict.as_ref();
    match (info_kind, info) {
        (0, None) => {}
        (0, Some(i)) => {
            if i.title.is_some() || i.author.is_some() {
                return Err(("info-invented".into(), String::new()));
            }
        }
        (_, None) => return Err(("info-missing".into(), String::new())),
        (1, Some(i)) => {
            if i.title.as_ref().map(|s| s.as_bytes().to_vec()) != Some(b"Only a (title)".to_vec()) || i.author.is_some() || i.creation_date.is_some() {
                return Err(("info-differs".into(), format!("{:?}", i)));
            }
        }
        (3, Some(i)) => {
            let s = |x: &Option<PdfString>| x.as_ref().map(|s| s.as_bytes().to_vec());
            if s(&i.title) != Some(b"1) scope (draft".to_vec()) || s(&i.subject) != Some(b")(".to_vec()) || s(&i.keywords) != Some(b"((a) \\ )b( \\".to_vec()) || i.author.is_some() {
                return Err(("info-differs".into(), format!("{:?}", i)));
            }
        }
        (_, Some(i)) => {
            let s = |x: &Option<PdfString>| x.as_ref().map(|s| s.as_bytes().to_vec());
            let ok = s(&i.title) == Some(b"T".to_vec())
                && s(&i.author) == Some(vec![0xfe, 0xff, 0, b'A'])
                && s(&i.subject) == Some(b"S".to_vec())
                && s(&i.keywords) == Some(b"k1, k2".to_vec())
                && s(&i.creator) == Some(b"C".to_vec())
                && s(&i.producer) == Some(b"P".to_vec())
                && i.creation_date == Some(Date { year: 2024, month: 2, day: 29, hour: 23, minute: 59, second: 58, rel: TimeRel::Later, tz_hour: 1, tz_minute: 30 })
                && i.mod_date == Some(Date { year: 1999, month: 12, day: 31, hour: 0, minute: 0, second: 0, rel: TimeRel::Universal, tz_hour: 0, tz_minute: 0 })
                && matches!(i.trapped, Some(Trapped::False));
            if !ok {
                return Err(("info-differs".into(), format!("{:?}", i)));
            }
        }
    }
    Ok(())
}

pub fn run(tier: Tier, _seed: u64, tally: &mut Tally) -> CheckMeta {
    let bound = if tier.thorough() { 5 } else { 4 };
    explore("c10.builder", Limits::new(bound).wall(if tier.thorough() { 3000 } else { 600 }), tally, builder_case);
    tally.validated = tally.evaluations;
    tally.sample(json!({"pages": 2, "deviations": ["ops=shorthand-TD", "other=nested-dict"], "oracles": ["reload: order by marker, boxes, rotation, extras, ops, info", "independent structural reader"]}));
    CheckMeta {
        prop: "C10",
        level: "model_checking",
        rule: format!("PdfBuilder inputs with <= {} deviations from 'one page, marker text only, letter media box': number of pages (0..3), per page: 11 operation sets (from the C08 alphabet incl. every shorthand trigger), media/crop/trim box (absent, integer, non-integer, negative/huge, coordinates below 1e-4 and above 1e16), rotation, 5 kinds of extra entries, resources (font created through the updater, ext-gstate, both, eight colour spaces incl. an indexed table too large for a string), metadata entry; info dictionary (none, title only, all fields incl. dates and trapped). Each build is (1) reloaded with the library: page count, order by marker, boxes, rotation, extras, operation sequences, resources, info; (2) read by the independent structural reader: header first, startxref -> xref section, every in-use entry -> matching object header, /Size above every number, every /Length = byte count, no reference to an undefined object. Distinct by hash of the built bytes.", bound),
        assumptions: vec!["operation sets only use operations the serializer accepts (no inline images)".into()],
        exhaustive: true,
        bounds: json!({"deviations": bound, "pages": 3}),
    }
}

pub fn replay(case: &Value, tally: &mut Tally) {
    let picks: Vec<u32> = case["picks"].as_array().map(|a| a.iter().map(|x| x.as_u64().unwrap() as u32).collect()).unwrap_or_default();
    run_one(&picks, tally, builder_case);
}
