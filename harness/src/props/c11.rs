//! C11 — an object's value does not depend on how it is stored (direct vs. object stream; /Length forms).
use crate::common::*;
use crate::core::*;
use crate::explore::*;
use crate::pdfgen::crypt::*;
use crate::pdfgen::file::*;
use crate::pdfgen::val::*;
use crate::props::c03;
use crate::props::c04::val_to_prim;
use pdf::primitive::Primitive;
use pdf::file::FileOptions;
use pdf::object::{Object, PlainRef, Resolve, Stream};
use serde_json::{json, Value};

const POSITION: &[&str] = &["middle", "only", "first", "last"];
const TRAILING: &[&str] = &["LF", "SP", "none-after-last", "CRLF"];
const FILTER: &[&str] = &["none", "flate", "hex", "a85+flate", "lzw", "hex+flate-with-predictor(parms [null <<..>>])"];
const PAD: &[&str] = &["first-at-header-end", "first-beyond-header", "first-member-directly-after-the-last-offset"];
const NEIGH: &[&str] = &["dict", "int", "real", "str", "name", "bool", "null", "ref", "arr"];
const XREF: &[&str] = &["one-section", "objstm-added-by-update"];
const ENCRYPTION: &[&str] = &["none", "rc4-128", "aes-128", "aes-256"];

fn neigh(i: usize, salt: i64) -> Val {
    match i {
        0 => Val::dict(vec![("N", Val::Int(salt))]),
        1 => Val::Int(salt),
        2 => Val::real("2.5"),
        3 => Val::str("nb"),
        4 => Val::name("Nb"),
        5 => Val::Bool(false),
        6 => Val::Null,
        7 => Val::Ref(1, 0),
        _ => Val::Array(vec![Val::Int(salt)]),
    }
}

pub fn twin_case(ch: &mut Chooser, t: &mut Tally) {
    let cat = c03::catalogue();
    let vi = ch.pick_free_named("val", cat.names);
    let pos = ch.pick_free_named("pos", POSITION);
    let trailing = ch.pick_free_named("trailing", TRAILING);
    let filter = ch.pick_named("objstm-filter", FILTER);
    let pad = ch.pick_named("first", PAD);
    let before = ch.pick_named("neighbour-before", NEIGH);
    let after = ch.pick_named("neighbour-after", NEIGH);
    let xref = ch.pick_named("xref", XREF);
    let encryption = ch.pick_named("encryption", ENCRYPTION);
    let v = &cat.vals[vi].1;
    let mut fb = FileBuilder::new(b"");
    // an encrypted document: the strings of an ordinary object are encrypted one by one, those of a compressed object
    // are not (the object stream as a whole is)
    let id0 = b"0123456789abcdef".to_vec();
    let sec = match encryption {
        0 => None,
        1 => Some(Security::new(Variant::R3(16), b"user", b"owner", -4, &id0, true)),
        2 => Some(Security::new(Variant::R4Aes, b"user", b"owner", -4, &id0, true)),
        _ => Some(Security::new(Variant::R6, b"user", b"owner", -4, &id0, true)),
    };
    let crypt = |n: u64, g: u16, d: &[u8]| sec.as_ref().unwrap().encrypt(n, g, d);
    let mut extra: Vec<(&str, Val)> = vec![("Root", Val::r(1))];
    if let Some(sec) = &sec {
        fb.crypt = Some(&crypt);
        extra.push(("Encrypt", sec.dict()));
        extra.push(("ID", Val::Array(vec![Val::Str(id0.clone()), Val::Str(id0.clone())])));
    }
    let (catalog, pages) = minimal_catalog();
    fb.add(1, 0, &catalog);
    fb.add(2, 0, &pages);
    fb.add(4, 0, v);
    let mut members: Vec<(u64, Val)> = vec![];
    if pos == 0 || pos == 3 {
        members.push((8, neigh(before, 8)));
    }
    members.push((5, v.clone()));
    if pos == 0 || pos == 2 {
        members.push((9, neigh(after, 9)));
    }
    let raw: Vec<(u64, Vec<u8>)> = members.iter().map(|(n, v)| (*n, print(v))).collect();
    // trailing white-space per member; "none" only after the last member
    let tr: &'static [u8] = match trailing {
        0 => b"\n",
        1 => b" ",
        2 => b"",
        _ => b"\r\n",
    };
    let mut raw2 = vec![];
    for (i, (n, b)) in raw.iter().enumerate() {
        let mut b = b.clone();
        if i + 1 < raw.len() {
            b.extend_from_slice(if trailing == 2 { b" " } else { tr });
        } else {
            b.extend_from_slice(tr);
        }
        raw2.push((*n, b));
    }
    let opts = ObjStmOpts {
        filter: [ObjStmFilter::None, ObjStmFilter::Flate, ObjStmFilter::Hex, ObjStmFilter::A85Flate, ObjStmFilter::Lzw, ObjStmFilter::HexFlatePredictor][filter],
        trailing: b"",
        first_pad: match pad {
            1 => 3,
            2 => {
                // no white-space between the table of offsets and the first member: legal when that member begins
                // with a delimiter
                if !matches!(raw2[0].1.first(), Some(b'<' | b'[' | b'(' | b'/')) {
                    return;
                }
                usize::MAX
            }
            _ => 0,
        },
        extends: None,
    };
    if xref == 1 {
        fb.finish_table(&extra, Split::Runs);
    }
    fb.add_objstm_raw(7, &raw2, &opts);
    fb.finish_stream(&extra, &XrefStreamOpts::new(10));
    let bytes = fb.bytes();
    t.evaluations += 1;
    t.distinct.insert(fnv(&bytes));
    if ch.want_sample {
        println!("value {}\nfile:\n{}", show_val(v), show_bytes(&bytes[..bytes.len().min(1200)]));
    }
    let res = catch(|| -> std::result::Result<(), (String, String)> {
        let file = match FileOptions::uncached().password(if encryption == 0 { b"" } else { b"user" }).load(bytes.clone()) {
            Ok(f) => f,
            Err(e) => return Err((format!("load-error:{}", err_variant(&e)), truncate(&format!("{}", err_root(&e)), 200))),
        };
        let r = file.resolver();
        let direct = match r.resolve(PlainRef { id: 4, gen: 0 }) {
            Ok(p) => p,
            Err(e) => return Err((format!("direct-error:{}", err_variant(&e)), truncate(&format!("{}", err_root(&e)), 200))),
        };
        if let Err(m) = cmp_prim(&direct, v, false, &r) {
            return Err(("direct-wrong-value".into(), m));
        }
        let comp = match r.resolve(PlainRef { id: 5, gen: 0 }) {
            Ok(p) => p,
            Err(e) => return Err((format!("compressed-error:{}", err_variant(&e)), format!("direct twin reads {}, compressed twin: {}", show_prim(&direct), truncate(&format!("{}", err_root(&e)), 200)))),
        };
        if comp != direct {
            return Err(("compressed-differs".into(), format!("direct twin {} compressed twin {}", show_prim(&direct), show_prim(&comp))));
        }
        // the neighbours too
        for (n, nv) in &members {
            if *n == 5 {
                continue;
            }
            match r.resolve(PlainRef { id: *n, gen: 0 }) {
                Ok(p) => {
                    if let Err(m) = cmp_prim(&p, nv, false, &r) {
                        return Err(("neighbour-wrong-value".into(), m));
                    }
                }
                Err(e) => return Err((format!("neighbour-error:{}", err_variant(&e)), truncate(&format!("{}", err_root(&e)), 200))),
            }
        }
        Ok(())
    });
    let verdict = match res {
        Err((loc, msg)) => Err((panic_kind(&loc), msg)),
        Ok(r) => r,
    };
    match verdict {
        Ok(()) => t.outcome("ok"),
        Err((kind, detail)) => {
            t.outcome(&kind);
            t.fail("c11.twin", &kind, ch.deviations(), detail, ch.replay_value("c11.twin"));
        }
    }
}

// ------------------------------------------------------------------------------------------------
const LENGTH: &[&str] = &["direct-int", "ref-direct-before", "ref-direct-after", "ref-compressed", "ref-compressed-flate"];
const SDATA: &[&str] = &["abc", "empty", "binary-with-endstream", "flate-encoded"];
const SEOL: &[&str] = &["LF", "CRLF"];

/// the twins once more, through a document that is being modified: typed read, replace, typed read again. What the
/// reference yields must not depend on how the old version was stored
pub fn update_twin_case(ch: &mut Chooser, t: &mut Tally) {
    use pdf::object::Updater;
    let cached = ch.pick_free_named("cache", &["cached", "uncached"]) == 0;
    let first_read = ch.pick_free_named("read-before-the-update", &["typed", "raw", "none"]);
    let newv = ch.pick_free_named("new-value", &["int", "dict", "name"]);
    let which = ch.pick_free_named("twin", &["ordinary-object", "object-stream-member"]);
    let old = Val::dict(vec![("V", Val::Int(1))]);
    let new_val = [Val::Int(2), Val::dict(vec![("V", Val::Int(2)), ("W", Val::name("x"))]), Val::name("replaced")][newv].clone();
    let mut fb = FileBuilder::new(b"");
    let (catalog, pages) = minimal_catalog();
    fb.add(1, 0, &catalog);
    fb.add(2, 0, &pages);
    fb.add(4, 0, &old);
    fb.add_objstm(7, &[(8, Val::Int(8)), (5, old.clone())], &ObjStmOpts::default());
    fb.finish_stream(&[("Root", Val::r(1))], &XrefStreamOpts::new(10));
    let bytes = fb.bytes();
    t.evaluations += 1;
    t.distinct.insert(fnv_mix(fnv(&bytes), (cached as u64) * 18 + first_read as u64 * 6 + newv as u64 * 2 + which as u64));
    macro_rules! body {
        ($file:expr) => {{
            let mut file = match $file {
                Ok(f) => f,
                Err(e) => return Err((format!("load-error:{}", err_variant(&e)), String::new())),
            };
            let read = |file: &pdf::file::File<Vec<u8>, _, _, _>, id: u64, typed: bool| -> String {
                let r = file.resolver();
                let p = if typed { r.get::<Primitive>(pdf::object::Ref::new(PlainRef { id, gen: 0 })).map(|p| (*p).clone()) } else { r.resolve(PlainRef { id, gen: 0 }) };
                match p {
                    Ok(p) => show_prim(&p),
                    Err(e) => format!("ERR:{}", err_variant(&e)),
                }
            };
            if first_read < 2 {
                let (a, b) = (read(&file, 4, first_read == 0), read(&file, 5, first_read == 0));
                if a != b {
                    return Err(("twins-differ-before-update".into(), format!("direct {} compressed {}", a, b)));
                }
            }
            // one twin is replaced per run (an update of the other one would clear the caches and hide what this one leaves)
            let id = [4u64, 5][which];
            if let Err(e) = file.update(PlainRef { id, gen: 0 }, val_to_prim(&new_val)) {
                return Err((format!("update-error:{}", err_variant(&e)), format!("object {}", id)));
            }
            let want = show_prim(&val_to_prim(&new_val));
            for typed in [true, false] {
                let got = read(&file, id, typed);
                if got != want {
                    return Err(("value-after-update-depends-on-storage".into(), format!("{} read of the twin that was stored {}: {} (the new value is {}, which is what the other twin reads after the same steps)", if typed { "typed" } else { "raw" }, ["as an ordinary object", "in an object stream"][which], got, want)));
                }
            }
            Ok(())
        }};
    }
    let res = catch(|| -> std::result::Result<(), (String, String)> {
        if cached {
            body!(FileOptions::cached().load(bytes.clone()))
        } else {
            body!(FileOptions::uncached().load(bytes.clone()))
        }
    });
    let verdict = match res {
        Err((loc, msg)) => Err((panic_kind(&loc), msg)),
        Ok(r) => r,
    };
    match verdict {
        Ok(()) => t.outcome("ok"),
        Err((kind, detail)) => {
            t.outcome(&kind);
            t.fail("c11.update", &kind, ch.deviations(), detail, ch.replay_value("c11.update"));
        }
    }
}

pub fn length_case(ch: &mut Chooser, t: &mut Tally) {
    let lf = ch.pick_free_named("length", LENGTH);
    let di = ch.pick_free_named("data", SDATA);
    let eol = ch.pick_free_named("eol", SEOL);
    let plain: Vec<u8> = match di {
        0 => b"abc".to_vec(),
        1 => vec![],
        2 => b"\x00endstream\nendobj\n\xff".to_vec(),
        _ => b"hello hello hello hello".to_vec(),
    };
    let (raw, filter) = if di == 3 {
        (crate::pdfgen::filters::flate_encode(&plain, crate::pdfgen::filters::FlateStyle::ZlibDefault), Some(Val::name("FlateDecode")))
    } else {
        (plain.clone(), None)
    };
    let mut fb = FileBuilder::new(b"");
    if eol == 1 {
        fb.eol = b"\r\n";
    }
    let (catalog, pages) = minimal_catalog();
    fb.add(1, 0, &catalog);
    fb.add(2, 0, &pages);
    let len_val = Val::Int(raw.len() as i64);
    if lf == 1 {
        fb.add(6, 0, &len_val);
    }
    let mut d: Vec<(&str, Val)> = vec![("Length", if lf == 0 { len_val.clone() } else { Val::r(6) })];
    if let Some(f) = filter {
        d.push(("Filter", f));
    }
    // hand-framed so that the EOL after `stream` is the chosen one
    let mut body = print(&Val::dict(d));
    body.extend_from_slice(if eol == 1 { b"\r\nstream\r\n" } else { b"\nstream\n" });
    body.extend_from_slice(&raw);
    body.extend_from_slice(if eol == 1 { b"\r\nendstream" } else { b"\nendstream" });
    fb.add_raw(4, 0, &body);
    if lf == 2 {
        fb.add(6, 0, &len_val);
    }
    if lf >= 3 {
        let opts = ObjStmOpts { filter: if lf == 4 { ObjStmFilter::Flate } else { ObjStmFilter::None }, ..Default::default() };
        fb.add_objstm(7, &[(8, Val::name("Other")), (6, len_val.clone())], &opts);
        fb.finish_stream(&[("Root", Val::r(1))], &XrefStreamOpts::new(10));
    } else {
        fb.finish_table(&[("Root", Val::r(1))], Split::Runs);
    }
    let bytes = fb.bytes();
    t.evaluations += 1;
    t.distinct.insert(fnv(&bytes));
    if ch.want_sample {
        println!("file:\n{}", show_bytes(&bytes));
    }
    let res = catch(|| -> std::result::Result<(), (String, String)> {
        let file = match FileOptions::uncached().load(bytes.clone()) {
            Ok(f) => f,
            Err(e) => return Err((format!("load-error:{}", err_variant(&e)), truncate(&format!("{}", err_root(&e)), 200))),
        };
        let r = file.resolver();
        let p = match r.resolve(PlainRef { id: 4, gen: 0 }) {
            Ok(p) => p,
            Err(e) => return Err((format!("error:{}", err_variant(&e)), truncate(&format!("{}", err_root(&e)), 200))),
        };
        let s = match Stream::<()>::from_primitive(p.clone(), &r) {
            Ok(s) => s,
            Err(e) => return Err((format!("stream-error:{}", err_variant(&e)), truncate(&format!("{}", err_root(&e)), 200))),
        };
        let rawgot = match &p {
            pdf::primitive::Primitive::Stream(ps) => ps.raw_data(&r),
            _ => return Err(("not-a-stream".into(), show_prim(&p))),
        };
        match rawgot {
            Ok(d) if &d[..] == &raw[..] => {}
            Ok(d) => return Err(("raw-data-differs".into(), format!("expected {} got {}", show_bytes(&raw), show_bytes(&d)))),
            Err(e) => return Err((format!("raw-error:{}", err_variant(&e)), String::new())),
        }
        match s.data(&r) {
            Ok(d) if &d[..] == &plain[..] => Ok(()),
            Ok(d) => Err(("data-differs".into(), format!("expected {} got {}", show_bytes(&plain), show_bytes(&d)))),
            Err(e) => Err((format!("data-error:{}", err_variant(&e)), String::new())),
        }
    });
    let verdict = match res {
        Err((loc, msg)) => Err((panic_kind(&loc), msg)),
        Ok(r) => r,
    };
    match verdict {
        Ok(()) => t.outcome("ok"),
        Err((kind, detail)) => {
            t.outcome(&kind);
            t.fail("c11.length", &kind, ch.deviations(), detail, ch.replay_value("c11.length"));
        }
    }
}

pub fn run(tier: Tier, _seed: u64, tally: &mut Tally) -> CheckMeta {
    let bound = if tier.thorough() { 2 } else { 1 };
    explore("c11.twin", Limits::new(bound).wall(if tier.thorough() { 2400 } else { 600 }), tally, twin_case);
    explore("c11.length", Limits::new(0), tally, length_case);
    explore("c11.update", Limits::new(0), tally, update_twin_case);
    tally.validated = tally.evaluations;
    tally.sample(json!({"engine": "c11.twin", "value": "int:7", "pos": "last", "trailing": "none-after-last", "objstm_data": "8 0 5 10\n<< /N 8 >> 7"}));
    tally.sample(json!({"engine": "c11.length", "length": "ref-compressed", "data": "abc"}));
    CheckMeta {
        prop: "C11",
        level: "model_checking",
        rule: format!("full product of {} values (C03 catalogue: every kind, all kind pairs, depth 20) x position in the object stream {{middle, only, first, last}} x trailing white-space {{LF, SP, none after the last member, CRLF}}, with <= {} deviations among object-stream filter {{flate, hex, a85+flate, lzw, hex+flate with a predictor and /DecodeParms [null <<..>>]}}, /First beyond the header or directly after the last offset (no separator, first member beginning with a delimiter), neighbour kinds before/after (8 alternatives each), object stream added by an incremental update, the document encrypted {{RC4-128, AES-128, AES-256}} (strings of the ordinary twin encrypted one by one, those of the compressed twin only as part of the object stream); each document holds the value as direct object 4 and compressed object 5 and both are resolved and compared with the producer's value. Streams: full product of /Length form {{direct, reference to a direct integer before/after the stream, reference to a compressed integer (plain / flate object stream)}} x data x EOL. Twins in a document that is being modified: {{cached, uncached}} x {{typed, raw, no}} read before the update x 3 new values x which twin: the twin is replaced through Updater::update and read again (typed and raw): the new value, whichever way the old one was stored. Distinct by file hash.", c03::catalogue().vals.len(), bound),
        assumptions: vec!["members of an object stream are separated by white-space except after the last one".into()],
        exhaustive: true,
        bounds: json!({"deviations": bound}),
    }
}

pub fn replay(case: &Value, tally: &mut Tally) {
    let picks: Vec<u32> = case["picks"].as_array().map(|a| a.iter().map(|x| x.as_u64().unwrap() as u32).collect()).unwrap_or_default();
    match case["engine"].as_str().unwrap_or("") {
        "c11.twin" => {
            run_one(&picks, tally, twin_case);
        }
        "c11.update" => {
            run_one(&picks, tally, update_twin_case);
        }
        _ => {
            run_one(&picks, tally, length_case);
        }
    }
}
