//! C12 — caches are invisible: cached and uncached documents answer identically, call by call.
use crate::common::*;
use crate::core::*;
use crate::pdfgen::docs::*;
use crate::pdfgen::file::*;
use crate::pdfgen::filters as pf;
use crate::pdfgen::val::*;
use crate::sched::SeqCache;
use crate::walker::{OCResult, SCResult};
use pdf::file::{Cache, File, FileOptions, NoCache, NoLog, SyncCache};
use pdf::font::Font;
use pdf::object::*;
use rayon::prelude::*;
use serde_json::{json, Value};

#[derive(Clone, Copy, Debug, PartialEq, Eq, Hash)]
pub enum Kind {
    Resolve,
    GetPagesNode,
    GetFont,
    GetXObject,
    GetStream,
    GetObjStm,
    /// the generic views: get::<Primitive>, get::<Dictionary>, get::<i32>
    GetPrimitive,
    GetDict,
    GetInt,
    /// get::<CryptDict>: the typed view of the encryption dictionary
    GetCryptDict,
    StreamData,
    RawImageData,
    ImageData,
    GetPage,
}
pub type Call = (Kind, u64);

pub fn call_name(c: &Call) -> String {
    format!("{:?}({})", c.0, c.1)
}

/// document: the rich document plus an image with [/ASCII85Decode /FlateDecode] (object 50) and an object stream
pub const DEEP_LEN: u64 = 70;
pub const DEEP_FIRST: u64 = 100;

/// variant 2: a small document with a chain of DEEP_LEN page-tree nodes linked through /Parent (every typed load of a
/// node loads all nodes above it, one inside the other), so that how deep a load nests depends on what is cached
fn deep_doc() -> Vec<u8> {
    let mut fb = FileBuilder::new(b"");
    fb.add(1, 0, &Val::dict(vec![("Type", Val::name("Catalog")), ("Pages", Val::r(2))]));
    fb.add(2, 0, &Val::dict(vec![("Type", Val::name("Pages")), ("Kids", Val::Array(vec![Val::r(3)])), ("Count", Val::Int(1)), ("MediaBox", Val::ints(&[0, 0, 9, 9]))]));
    fb.add(3, 0, &Val::dict(vec![("Type", Val::name("Page")), ("Parent", Val::r(2)), ("Resources", Val::dict(vec![]))]));
    for i in 0..DEEP_LEN {
        let mut d = vec![("Type", Val::name("Pages")), ("Kids", Val::Array(vec![])), ("Count", Val::Int(0)), ("Level", Val::Int(i as i64))];
        if i > 0 {
            d.push(("Parent", Val::r(DEEP_FIRST + i - 1)));
        }
        fb.add(DEEP_FIRST + i, 0, &Val::dict(d));
    }
    // page-tree nodes whose /Parent references form cycles (of two and of three): an error in strict mode; in tolerant
    // mode the optional /Parent that closes the cycle is dropped, wherever the load happened to enter the cycle
    fb.add(10, 0, &Val::dict(vec![("Type", Val::name("Pages")), ("Parent", Val::r(11)), ("Kids", Val::Array(vec![])), ("Count", Val::Int(0))]));
    fb.add(11, 0, &Val::dict(vec![("Type", Val::name("Pages")), ("Parent", Val::r(10)), ("Kids", Val::Array(vec![])), ("Count", Val::Int(0))]));
    fb.add(12, 0, &Val::dict(vec![("Type", Val::name("Pages")), ("Parent", Val::r(13)), ("Kids", Val::Array(vec![])), ("Count", Val::Int(0))]));
    fb.add(13, 0, &Val::dict(vec![("Type", Val::name("Pages")), ("Parent", Val::r(14)), ("Kids", Val::Array(vec![])), ("Count", Val::Int(0))]));
    fb.add(14, 0, &Val::dict(vec![("Type", Val::name("Pages")), ("Parent", Val::r(12)), ("Kids", Val::Array(vec![])), ("Count", Val::Int(0))]));
    // two stream objects that both call themselves `20 0 obj` (as an object and its replacement do in an updated file);
    // the table sends number 20 to the second and number 22 to the first
    fb.add(20, 0, &Val::stream(vec![], b"first object named 20".to_vec()));
    let first = fb.section.get(&20).cloned().unwrap();
    fb.add(20, 0, &Val::stream(vec![("Filter", Val::name("ASCIIHexDecode"))], b"7365636f6e64>".to_vec()));
    fb.section.insert(22, first);
    // two JBIG2 streams naming each other as globals (an optional, eagerly loaded reference that is not a /Parent)
    fb.add(30, 0, &Val::stream(vec![("Filter", Val::name("JBIG2Decode")), ("DecodeParms", Val::dict(vec![("JBIG2Globals", Val::r(31))]))], vec![0, 1]));
    fb.add(31, 0, &Val::stream(vec![("Filter", Val::name("JBIG2Decode")), ("DecodeParms", Val::dict(vec![("JBIG2Globals", Val::r(30))]))], vec![2, 3]));
    // a font whose optional /ToUnicode leads through an object that is nothing but a reference to an object that
    // does not exist (49 lies in a gap of the table)
    fb.add(40, 0, &Val::dict(vec![("Type", Val::name("Font")), ("Subtype", Val::name("Type1")), ("BaseFont", Val::name("Courier")), ("ToUnicode", Val::r(41))]));
    fb.add(41, 0, &Val::r(49));
    fb.add(50, 0, &Val::Int(50));
    fb.finish_table(&[("Root", Val::r(1))], Split::Runs);
    fb.bytes()
}

pub fn alphabet_deep() -> Vec<Call> {
    let mut a: Vec<Call> = vec![];
    let mut ns: Vec<u64> = (0..DEEP_LEN).step_by(8).map(|i| DEEP_FIRST + i).collect();
    for n in [DEEP_FIRST + DEEP_LEN - 1, DEEP_FIRST + 31, DEEP_FIRST + 32, DEEP_FIRST + 33] {
        if !ns.contains(&n) {
            ns.push(n);
        }
    }
    ns.sort();
    for n in ns {
        a.push((Kind::GetPagesNode, n));
        a.push((Kind::Resolve, n));
    }
    for n in [10u64, 11, 12, 13, 14] {
        a.push((Kind::GetPagesNode, n));
    }
    for n in [20u64, 22] {
        a.push((Kind::StreamData, n));
        a.push((Kind::GetStream, n));
    }
    for n in [30u64, 31] {
        a.push((Kind::GetStream, n));
    }
    a.push((Kind::GetFont, 40));
    a.push((Kind::Resolve, 41));
    a.push((Kind::GetPrimitive, 41));
    a.push((Kind::GetPage, 0));
    a
}

/// variant 3: an RC4-encrypted document (user password "user") whose encryption dictionary is an indirect object and
/// keeps its /O and /U strings in objects of their own: what is read before the decoder exists must not stay cached
fn encrypted_doc() -> Vec<u8> {
    use crate::pdfgen::crypt::*;
    let id0 = b"0123456789abcdef".to_vec();
    let sec = Security::new(Variant::R3(16), b"user", b"owner", -4, &id0, true);
    let mut fb = FileBuilder::new(b"");
    let crypt = |n: u64, g: u16, d: &[u8]| sec.encrypt(n, g, d);
    fb.crypt = Some(&crypt);
    fb.no_crypt = vec![9, 10, 11];
    fb.add(1, 0, &Val::dict(vec![("Type", Val::name("Catalog")), ("Pages", Val::r(2))]));
    fb.add(2, 0, &Val::dict(vec![("Type", Val::name("Pages")), ("Kids", Val::Array(vec![Val::r(3)])), ("Count", Val::Int(1)), ("MediaBox", Val::ints(&[0, 0, 9, 9]))]));
    fb.add(3, 0, &Val::dict(vec![("Type", Val::name("Page")), ("Parent", Val::r(2)), ("Resources", Val::dict(vec![])), ("Contents", Val::r(4)), ("Note", Val::str("a string of the page"))]));
    fb.add(4, 0, &Val::stream(vec![], b"q 1 0 0 1 0 0 cm Q".to_vec()));
    let mut d = sec.dict();
    d.set("O", Val::r(10));
    d.set("U", Val::r(11));
    fb.add(9, 0, &d);
    fb.add(10, 0, &Val::Str(sec.o.clone()));
    fb.add(11, 0, &Val::Str(sec.u.clone()));
    fb.finish_table(&[("Root", Val::r(1)), ("Encrypt", Val::r(9)), ("ID", Val::Array(vec![Val::Str(id0.clone()), Val::Str(id0.clone())]))], Split::Runs);
    fb.bytes()
}

pub fn alphabet_encrypted() -> Vec<Call> {
    use Kind::*;
    let mut a: Vec<Call> = vec![];
    for n in [9u64, 10, 11, 3, 4] {
        a.push((Resolve, n));
        a.push((GetPrimitive, n));
    }
    a.push((GetCryptDict, 9));
    a.push((GetDict, 9));
    a.push((GetDict, 3));
    a.push((StreamData, 4));
    a.push((GetPage, 0));
    a
}

/// variants 4 and 5: two revisions with cross-reference streams. In variant 4 the number of the older revision's
/// cross-reference stream belongs to an ordinary stream object in the newer one; in variant 5 both cross-reference
/// streams have the same number. (Cross-reference streams are found by offset, the stream cache is keyed by number.)
fn xref_number_reuse_doc(same_number: bool) -> Vec<u8> {
    let mut fb = FileBuilder::new(b"");
    fb.add(1, 0, &Val::dict(vec![("Type", Val::name("Catalog")), ("Pages", Val::r(2))]));
    fb.add(2, 0, &Val::dict(vec![("Type", Val::name("Pages")), ("Kids", Val::Array(vec![Val::r(3)])), ("Count", Val::Int(1)), ("MediaBox", Val::ints(&[0, 0, 9, 9]))]));
    fb.add(3, 0, &Val::dict(vec![("Type", Val::name("Page")), ("Parent", Val::r(2)), ("Resources", Val::dict(vec![])), ("Contents", Val::r(4))]));
    fb.add(4, 0, &Val::stream(vec![], b"q Q % first revision".to_vec()));
    fb.finish_stream(&[("Root", Val::r(1))], &XrefStreamOpts::new(6));
    fb.add(4, 0, &Val::stream(vec![], b"BT (second revision) Tj ET".to_vec()));
    if same_number {
        fb.finish_stream(&[("Root", Val::r(1))], &XrefStreamOpts::new(6));
    } else {
        fb.add(6, 0, &Val::stream(vec![], b"an ordinary stream with the number of the old cross-reference stream".to_vec()));
        fb.finish_stream(&[("Root", Val::r(1))], &XrefStreamOpts::new(7));
    }
    fb.bytes()
}

pub fn alphabet_reuse() -> Vec<Call> {
    use Kind::*;
    let mut a: Vec<Call> = vec![];
    for n in [4u64, 6, 7] {
        a.push((StreamData, n));
        a.push((GetStream, n));
        a.push((Resolve, n));
    }
    a.push((GetPage, 0));
    a
}

pub fn c12_doc(variant: usize) -> Vec<u8> {
    if variant == 2 {
        return deep_doc();
    }
    if variant == 4 || variant == 5 {
        return xref_number_reuse_doc(variant == 5);
    }
    if variant == 3 {
        return encrypted_doc();
    }
    let mut objs = rich_objects();
    let img: Vec<u8> = vec![10, 20, 30, 40, 50, 60, 70, 80, 90, 100, 110, 120];
    objs.push((
        50,
        Val::stream(
            vec![("Type", Val::name("XObject")), ("Subtype", Val::name("Image")), ("Width", Val::Int(2)), ("Height", Val::Int(2)), ("ColorSpace", Val::name("DeviceRGB")), ("BitsPerComponent", Val::Int(8)), ("Filter", Val::Array(vec![Val::name("ASCII85Decode"), Val::name("FlateDecode")]))],
            pf::a85_encode(&pf::flate_encode(&img, pf::FlateStyle::ZlibDefault), pf::A85Style::Plain),
        ),
    ));
    // an integer object and an object that is nothing but a reference to it
    objs.push((52, Val::Int(42)));
    objs.push((53, Val::Ref(52, 0)));
    rich_doc_with(b"", if variant == 0 { DocOpts::CLASSIC } else { DocOpts::STREAM }, &objs)
}

pub fn alphabet(variant: usize) -> Vec<Call> {
    use Kind::*;
    let mut a: Vec<Call> = vec![];
    for n in [2u64, 3, 9, 12, 16, 17, 18, 50, 5] {
        a.push((Resolve, n));
    }
    for n in [2u64, 3, 9] {
        a.push((GetPagesNode, n));
    }
    for n in [9u64, 12, 3] {
        a.push((GetFont, n));
    }
    for n in [16u64, 17, 18, 50, 9] {
        a.push((GetXObject, n));
    }
    for n in [16u64, 7, 3] {
        a.push((GetStream, n));
    }
    for n in [16u64, 17, 18, 50, 7] {
        a.push((StreamData, n));
    }
    for n in [16u64, 18, 50] {
        a.push((RawImageData, n));
        a.push((ImageData, n));
    }
    for n in [0u64, 1, 2] {
        a.push((GetPage, n));
    }
    if variant == 1 {
        a.push((GetObjStm, 40));
        a.push((GetObjStm, 16));
        a.push((StreamData, 40));
    }
    a
}

/// every typed load kind and the raw resolve on every object of the document, plus the page look-ups: loaders of one object
/// read other objects through the same caches, so a wrongly typed load of any object may matter to any later call
pub fn alphabet_wide(variant: usize) -> Vec<Call> {
    use Kind::*;
    if variant == 2 {
        return alphabet_deep();
    }
    if variant == 3 {
        return alphabet_encrypted();
    }
    if variant == 4 || variant == 5 {
        return alphabet_reuse();
    }
    let mut a: Vec<Call> = vec![];
    let mut objs: Vec<u64> = (1..=38).collect();
    objs.push(50);
    objs.push(52);
    objs.push(53);
    if variant == 1 {
        objs.push(40);
    }
    for &n in &objs {
        for k in [Resolve, GetPagesNode, GetFont, GetXObject, GetStream, GetPrimitive, GetDict, GetInt] {
            a.push((k, n));
        }
    }
    for n in [0u64, 1, 2] {
        a.push((GetPage, n));
    }
    for c in alphabet(variant) {
        if !a.contains(&c) {
            a.push(c);
        }
    }
    a
}

fn hb(b: &[u8]) -> String {
    format!("{}B#{:016x}", b.len(), fnv(b))
}
fn e(err: &pdf::error::PdfError) -> String {
    format!("ERR:{}", err_variant(err))
}

/// how many page-tree nodes hang above a node in the typed value (part of the value: every node holds its parent)
fn ancestors(first: Option<&PagesRc>) -> usize {
    let mut n = 0;
    let mut cur = first.cloned();
    while let Some(p) = cur {
        n += 1;
        if n > 300 {
            break;
        }
        cur = p.parent.clone();
    }
    n
}

/// execute one call, return a canonical digest of the answer
pub fn exec<OC, SC>(file: &File<Vec<u8>, OC, SC, NoLog>, call: &Call) -> String
where
    OC: Cache<OCResult>,
    SC: Cache<SCResult>,
{
    let r = file.resolver();
    let (kind, n) = *call;
    let pr = PlainRef { id: n, gen: 0 };
    match kind {
        Kind::Resolve => match r.resolve(pr) {
            Ok(p) => show_val(&crate::walker::prim_to_val_hashed(&p, &r)),
            Err(x) => e(&x),
        },
        Kind::GetPagesNode => match r.get::<PagesNode>(Ref::new(pr)) {
            Ok(node) => match &*node {
                PagesNode::Tree(t) => format!("Tree(count={}, kids={:?}, ancestors={})", t.count, t.kids.iter().map(|k| k.get_inner().id).collect::<Vec<_>>(), ancestors(t.parent.as_ref())),
                PagesNode::Leaf(p) => format!("Leaf(rotate={}, media={:?}, ancestors={})", p.rotate, p.media_box.map(|b| (b.right, b.top)), ancestors(Some(&p.parent))),
            },
            Err(x) => e(&x),
        },
        Kind::GetFont => match r.get::<Font>(Ref::new(pr)) {
            Ok(f) => format!("Font({:?},{:?},w32={:?})", f.subtype, f.name.as_ref().map(|n| n.as_str().to_string()), f.widths(&r).map(|w| w.map(|w| w.get(32))).map_err(|x| err_variant(&x))),
            Err(x) => e(&x),
        },
        Kind::GetXObject => match r.get::<XObject>(Ref::new(pr)) {
            Ok(x) => match &*x {
                XObject::Image(i) => format!("Image({}x{})", i.width, i.height),
                XObject::Form(f) => format!("Form({})", f.dict().bbox.right),
                XObject::Postscript(_) => "PS".into(),
            },
            Err(x) => e(&x),
        },
        Kind::GetStream => match r.get::<Stream<()>>(Ref::new(pr)) {
            Ok(s) => {
                // how many JBIG2 globals streams hang below each other in the typed value
                fn globals_below(s: &Stream<()>) -> usize {
                    s.info.filters.iter().map(|f| match f { pdf::enc::StreamFilter::JBIG2Decode(p) => p.globals.as_ref().map(|g| 1 + globals_below(g)).unwrap_or(0), _ => 0 }).max().unwrap_or(0)
                }
                format!("Stream(len={}, filters={}, globals-below={})", s.len(), s.info.get_filters().len(), globals_below(&s))
            }
            Err(x) => e(&x),
        },
        Kind::GetPrimitive => match r.get::<pdf::primitive::Primitive>(Ref::new(pr)) {
            Ok(p) => show_val(&crate::walker::prim_to_val_hashed(&p, &r)),
            Err(x) => e(&x),
        },
        Kind::GetDict => match r.get::<pdf::primitive::Dictionary>(Ref::new(pr)) {
            Ok(d) => show_val(&crate::walker::prim_to_val_hashed(&pdf::primitive::Primitive::Dictionary((*d).clone()), &r)),
            Err(x) => e(&x),
        },
        Kind::GetCryptDict => match r.get::<pdf::crypt::CryptDict>(Ref::new(pr)) {
            Ok(d) => format!("CryptDict#{:016x}", fnv(format!("{:?}", *d).as_bytes())),
            Err(x) => e(&x),
        },
        Kind::GetInt => match r.get::<i32>(Ref::new(pr)) {
            Ok(i) => format!("Int({})", *i),
            Err(x) => e(&x),
        },
        Kind::GetObjStm => match r.get::<ObjectStream>(Ref::new(pr)) {
            Ok(s) => format!("ObjStm(n={})", s.n_objects()),
            Err(x) => e(&x),
        },
        Kind::StreamData => match r.resolve(pr).and_then(|p| Stream::<()>::from_primitive(p, &r)).and_then(|s| s.data(&r)) {
            Ok(d) => hb(&d),
            Err(x) => e(&x),
        },
        Kind::RawImageData => match r.resolve(pr).and_then(|p| ImageXObject::from_primitive(p, &r)) {
            Ok(img) => match img.raw_image_data(&r) {
                Ok((d, f)) => format!("{} last={}", hb(&d), f.map(|f| format!("{:?}", f).split('(').next().unwrap().to_string()).unwrap_or_default()),
                Err(x) => e(&x),
            },
            Err(x) => e(&x),
        },
        Kind::ImageData => match r.resolve(pr).and_then(|p| ImageXObject::from_primitive(p, &r)) {
            Ok(img) => match img.image_data(&r) {
                Ok(d) => hb(&d),
                Err(x) => e(&x),
            },
            Err(x) => e(&x),
        },
        Kind::GetPage => match file.get_page(n as u32) {
            Ok(p) => format!("Page(obj {})", p.get_ref().get_inner().id),
            Err(x) => e(&x),
        },
    }
}

pub const CONFIGS: &[&str] = &["both-caches", "object-cache-only", "stream-cache-only", "own-map-caches", "no-cache", "both-caches/tolerant", "object-cache-only/tolerant", "stream-cache-only/tolerant", "own-map-caches/tolerant", "no-cache/tolerant"];
pub const N_CACHE_CONFIGS: usize = 5;

pub fn run_sequence(bytes: &[u8], cfg: usize, seq: &[Call]) -> Vec<String> {
    macro_rules! go {
        ($opts:expr) => {{
            match $opts.load(bytes.to_vec()) {
                Ok(f) => seq.iter().map(|c| exec(&f, c)).collect(),
                Err(x) => vec![format!("LOAD-{}", e(&x))],
            }
        }};
    }
    let po = if cfg >= N_CACHE_CONFIGS { ParseOptions::tolerant() } else { ParseOptions::strict() };
    match cfg % N_CACHE_CONFIGS {
        0 => go!(FileOptions::cached().parse_options(po).password(b"user")),
        1 => go!(FileOptions::uncached().cache(SyncCache::<PlainRef, OCResult>::new(), NoCache).parse_options(po).password(b"user")),
        2 => go!(FileOptions::uncached().cache(NoCache, SyncCache::<PlainRef, SCResult>::new()).parse_options(po).password(b"user")),
        3 => go!(FileOptions::uncached().cache(SeqCache::<OCResult>::new(), SeqCache::<SCResult>::new()).parse_options(po).password(b"user")),
        _ => go!(FileOptions::uncached().parse_options(po).password(b"user")),
    }
}

fn check_seq(bytes: &[u8], reference: &std::collections::HashMap<Call, String>, variant: usize, cfg: usize, seq: &[Call], t: &mut Tally) {
    t.evaluations += 1;
    t.distinct_bulk += 1;
    let res = catch(|| run_sequence(bytes, cfg, seq));
    let verdict: std::result::Result<(), (String, String, usize)> = match res {
        Err((loc, msg)) => Err((panic_kind(&loc), msg, seq.len() - 1)),
        Ok(answers) => {
            let mut v = Ok(());
            for (i, (c, a)) in seq.iter().zip(&answers).enumerate() {
                let want = &reference[c];
                if a != want {
                    let kind = if a.starts_with("ERR:") && !want.starts_with("ERR:") {
                        "spurious-error"
                    } else if want.starts_with("ERR:") && !a.starts_with("ERR:") {
                        "error-masked"
                    } else if a.starts_with("ERR:") {
                        "other-error-kind"
                    } else {
                        "different-value"
                    };
                    v = Err((kind.to_string(), format!("after {:?} the call {} answers `{}`; alone on an uncached document it answers `{}`", seq[..i].iter().map(call_name).collect::<Vec<_>>(), call_name(c), truncate(a, 120), truncate(want, 120)), i));
                    break;
                }
            }
            v
        }
    };
    match verdict {
        Ok(()) => t.outcome("same"),
        Err((kind, detail, at)) => {
            t.outcome(&kind);
            // signature: the failing call and the set of earlier call kinds on the same object
            let (fk, fo) = seq[at];
            let mut devs = vec![format!("call={:?}", fk)];
            for (k, o) in &seq[..at] {
                if *o == fo {
                    devs.push(format!("earlier-same-object={:?}", k));
                }
            }
            if cfg != 0 {
                devs.push(format!("config={}", CONFIGS[cfg]));
            }
            t.fail("c12.sequence", &kind, devs, format!("[{}] {}", CONFIGS[cfg], detail), json!({"engine": "c12.sequence", "variant": variant, "config": cfg, "calls": seq.iter().map(|(k, o)| json!([format!("{:?}", k), o])).collect::<Vec<_>>()}));
        }
    }
}

fn corpus_walks(tally: &mut Tally) -> usize {
    use crate::walker::{open_and_walk, Config, Obs, WalkOpts};
    let dir = format!("{}/files", repo_dir());
    let mut files: Vec<(String, Vec<u8>, Vec<u8>)> = vec![];
    for (sub, pw) in [("", &b""[..]), ("password_protected", &b"userpassword"[..])] {
        let d = if sub.is_empty() { dir.clone() } else { format!("{}/{}", dir, sub) };
        let mut names: Vec<String> = std::fs::read_dir(&d).map(|d| d.filter_map(|e| e.ok()).map(|e| e.file_name().to_string_lossy().to_string()).collect()).unwrap_or_default();
        names.sort();
        for n in names.into_iter().filter(|n| n.ends_with(".pdf")) {
            if let Ok(b) = std::fs::read(format!("{}/{}", d, n)) {
                if b.len() <= 200_000 {
                    files.push((if sub.is_empty() { n } else { format!("{}/{}", sub, n) }, b, pw.to_vec()));
                }
            }
        }
    }
    // the generated documents too (two-revision files hold superseded versions of objects, which the scan hands out)
    for (name, opts) in [("gen:rich-classic", DocOpts::CLASSIC), ("gen:rich-xrefstream", DocOpts::STREAM), ("gen:rich-chain", DocOpts::CHAIN), ("gen:rich-chain-streams", DocOpts::CHAIN_STREAM)] {
        files.push((name.to_string(), rich_doc(b"", opts), vec![]));
    }
    files.push(("gen:hostile".to_string(), rich_doc_with(b"", DocOpts::CHAIN, &hostile_objects()), vec![]));
    let n = files.len();
    let parts: Vec<Tally> = files
        .par_iter()
        .map(|(name, bytes, pw)| {
            let mut t = Tally::new();
            for tolerant in [false, true] {
                let walk = |cached: bool| -> std::result::Result<Vec<(String, String)>, String> {
                    let mut o = Obs::new(true);
                    let cfg = Config { tolerant, cached };
                    match catch(|| open_and_walk(bytes, pw, cfg, &WalkOpts { scan: true, font_codes: false, max_objects: 400 }, &mut o)) {
                        Err((loc, msg)) => Err(format!("{} ({})", panic_kind(&loc), truncate(&msg, 100))),
                        Ok(Err(v)) => Err(format!("load-error:{}", v)),
                        Ok(Ok(())) => Ok(o.lines),
                    }
                };
                t.evaluations += 1;
                t.distinct.insert(fnv_mix(fnv(name.as_bytes()), tolerant as u64));
                let (a, b) = (walk(false), walk(true));
                let verdict: std::result::Result<(), (String, String)> = match (a, b) {
                    (Ok(x), Ok(y)) => {
                        let mut d = None;
                        for i in 0..x.len().max(y.len()) {
                            if x.get(i) != y.get(i) {
                                d = Some(format!("uncached: {:?} | cached: {:?}", x.get(i).map(|(k, v)| format!("{} = {}", k, truncate(v, 120))), y.get(i).map(|(k, v)| format!("{} = {}", k, truncate(v, 120)))));
                                break;
                            }
                        }
                        match d {
                            None => Ok(()),
                            Some(d) => Err(("corpus-walk-differs".into(), d)),
                        }
                    }
                    (Err(x), Err(y)) if x == y => Ok(()),
                    (x, y) => Err(("corpus-open-differs".into(), format!("uncached: {:?} cached: {:?}", x.map(|l| l.len()), y.map(|l| l.len())))),
                };
                match verdict {
                    Ok(()) => t.outcome("same"),
                    Err((kind, detail)) => {
                        t.outcome(&kind);
                        t.fail("c12.corpus", &kind, vec![format!("file={}", name), format!("mode={}", if tolerant { "tolerant" } else { "strict" })], detail, json!({"engine": "c12.corpus", "file": name}));
                    }
                }
            }
            t
        })
        .collect();
    for p in parts {
        tally.merge(p);
    }
    n
}

pub fn run(tier: Tier, _seed: u64, tally: &mut Tally) -> CheckMeta {
    let maxlen = 3;
    let mut total_alpha = 0;
    let mut total_wide = 0;
    for variant in 0..2 {
        let bytes = c12_doc(variant);
        let alpha = alphabet(variant);
        total_alpha = total_alpha.max(alpha.len());
        // reference: each call alone on a fresh uncached document
        let reference: std::collections::HashMap<Call, String> = alpha.iter().map(|c| (*c, run_sequence(&bytes, 4, &[*c]).pop().unwrap())).collect();
        let reference_tolerant: std::collections::HashMap<Call, String> = alpha.iter().map(|c| (*c, run_sequence(&bytes, N_CACHE_CONFIGS + 4, &[*c]).pop().unwrap())).collect();
        let n = alpha.len();
        // quick: all pairs under all configs, all triples under "both caches"; thorough: all triples under every config
        let parts: Vec<Tally> = (0..n)
            .into_par_iter()
            .map(|i| {
                let mut t = Tally::new();
                // tolerant options: all pairs under every cache configuration
                for cfg in N_CACHE_CONFIGS..2 * N_CACHE_CONFIGS {
                    for j in 0..n {
                        check_seq(&bytes, &reference_tolerant, variant, cfg, &[alpha[i], alpha[j]], &mut t);
                    }
                }
                for cfg in 0..N_CACHE_CONFIGS {
                    check_seq(&bytes, &reference, variant, cfg, &[alpha[i]], &mut t);
                    for j in 0..n {
                        check_seq(&bytes, &reference, variant, cfg, &[alpha[i], alpha[j]], &mut t);
                        if maxlen >= 3 && (cfg == 0 || cfg == 3 || tier.thorough()) {
                            for k in 0..n {
                                check_seq(&bytes, &reference, variant, cfg, &[alpha[i], alpha[j], alpha[k]], &mut t);
                            }
                        }
                    }
                }
                t
            })
            .collect();
        for p in parts {
            tally.merge(p);
        }
        // wide alphabet: every typed load and resolve of every object, all ordered pairs, all configurations
        {
            let wide = alphabet_wide(variant);
            total_wide = total_wide.max(wide.len());
            let wref: std::collections::HashMap<Call, String> = wide.par_iter().map(|c| (*c, run_sequence(&bytes, 4, &[*c]).pop().unwrap())).collect();
            let m = wide.len();
            let parts: Vec<Tally> = (0..m)
                .into_par_iter()
                .map(|i| {
                    let mut t = Tally::new();
                    for cfg in 0..N_CACHE_CONFIGS {
                        for j in 0..m {
                            // pairs inside the narrow alphabet were done above
                            if alpha.contains(&wide[i]) && alpha.contains(&wide[j]) {
                                continue;
                            }
                            check_seq(&bytes, &wref, variant, cfg, &[wide[i], wide[j]], &mut t);
                        }
                    }
                    t
                })
                .collect();
            for p in parts {
                tally.merge(p);
            }
        }
        // all orderings of the distinct call kinds per object (permutations of up to 6 calls on one object)
        let mut by_obj: std::collections::BTreeMap<u64, Vec<Call>> = Default::default();
        for c in &alpha {
            if c.0 != Kind::GetPage {
                by_obj.entry(c.1).or_default().push(*c);
            }
        }
        let jobs: Vec<(u64, Vec<Call>)> = by_obj.into_iter().filter(|(_, v)| v.len() >= 4).collect();
        let parts: Vec<Tally> = jobs
            .par_iter()
            .map(|(_, calls)| {
                let mut t = Tally::new();
                let mut calls = calls.clone();
                calls.truncate(7);
                let m = calls.len();
                let mut perm: Vec<usize> = (0..m).collect();
                // Heap's algorithm, iterative
                let mut c = vec![0usize; m];
                let emit = |perm: &[usize], t: &mut Tally| {
                    let seq: Vec<Call> = perm.iter().map(|&i| calls[i]).collect();
                    for cfg in [0usize, 3] {
                        check_seq(&bytes, &reference, variant, cfg, &seq, t);
                    }
                };
                emit(&perm, &mut t);
                let mut i = 0;
                while i < m {
                    if c[i] < i {
                        if i % 2 == 0 {
                            perm.swap(0, i);
                        } else {
                            perm.swap(c[i], i);
                        }
                        emit(&perm, &mut t);
                        c[i] += 1;
                        i = 0;
                    } else {
                        c[i] = 0;
                        i += 1;
                    }
                }
                t
            })
            .collect();
        for p in parts {
            tally.merge(p);
        }
    }
    // deep chain: all sequences of length <= 2 under every configuration, length 3 under the two full cache configurations
    let mut n_deep = 0;
    for dv in [2usize, 3, 4, 5] {
        let bytes = c12_doc(dv);
        let alpha = alphabet_wide(dv);
        if dv == 2 {
            n_deep = alpha.len();
        }
        for tolerant in [false, true] {
            let off = if tolerant { N_CACHE_CONFIGS } else { 0 };
            let reference: std::collections::HashMap<Call, String> = alpha.iter().map(|c| (*c, run_sequence(&bytes, off + 4, &[*c]).pop().unwrap())).collect();
            for (c, a) in &reference {
                // a document of the check that does not open would make every comparison trivially equal
                assert!(!a.starts_with("LOAD-"), "C12 document {} does not load: {}", dv, a);
                if a.starts_with("ERR:") {
                    tally.notes.push(format!("document {} ({}): {} alone answers {}", dv, if tolerant { "tolerant" } else { "strict" }, call_name(c), a));
                }
            }
            let n = alpha.len();
            let parts: Vec<Tally> = (0..n)
                .into_par_iter()
                .map(|i| {
                    let mut t = Tally::new();
                    for cfg in 0..N_CACHE_CONFIGS {
                        check_seq(&bytes, &reference, dv, off + cfg, &[alpha[i]], &mut t);
                        for j in 0..n {
                            check_seq(&bytes, &reference, dv, off + cfg, &[alpha[i], alpha[j]], &mut t);
                            if cfg == 0 || cfg == 3 || tier.thorough() {
                                for k in 0..n {
                                    check_seq(&bytes, &reference, dv, off + cfg, &[alpha[i], alpha[j], alpha[k]], &mut t);
                                }
                            }
                        }
                    }
                    t
                })
                .collect();
            for p in parts {
                tally.merge(p);
            }
        }
    }
    // corpus: the complete walk of every repository file (pages, resources, fonts, images, operators, trees, every object by number)
    // must give the same observations with and without caches, in strict and in tolerant mode, walked twice on one open document
    let n_corpus = corpus_walks(tally);
    tally.states = tally.evaluations;
    tally.transitions = tally.evaluations;
    tally.validated = tally.evaluations;
    tally.sample(json!({"config": "both-caches", "calls": ["RawImageData(50)", "StreamData(50)"], "oracle": "each answer equals the same call alone on a fresh uncached document"}));
    tally.sample(json!({"config": "object-cache-only", "calls": ["GetFont(3)", "GetPagesNode(3)"]}));
    CheckMeta {
        prop: "C12",
        level: "model_checking",
        rule: format!("call alphabet of {} (kind, object) pairs on two generated documents (classic; xref stream + object stream) containing pages, fonts, a Flate image with predictor, a hex+run-length mask, an [ASCII85 Flate] image, a form and content streams: kinds resolve, get::<PagesNode|Font|XObject|Stream|ObjectStream>, Stream::data, raw_image_data, image_data, get_page (incl. type-mismatching and out-of-range calls). Exhaustive: all sequences of length <= 2 under 5 cache configurations {{SyncCache both, object only, stream only, own map-backed caches, none}} with strict and with tolerant options, all sequences of length 3 under {}, every ordering (all permutations) of the distinct calls per object, and all ordered pairs over a wide alphabet of {} calls (resolve and get::<PagesNode|Font|XObject|Stream|Primitive|Dictionary|i32> on every object of the document incl. an integer and a reference-only object, page look-ups) under all 5 configurations; a third document with a chain of 70 page-tree nodes nested through /Parent and {} calls (typed load and resolve of every 8th node, of nodes 31-33 and of the last, typed loads of page-tree nodes whose /Parent references form cycles of two and of three), strict and tolerant options, and a fourth, RC4-encrypted document whose encryption dictionary is indirect and keeps /O and /U in objects of their own (resolve and generic views of these objects, get::<CryptDict>, page string and stream), and two two-revision files whose cross-reference stream numbers are used again (by an ordinary stream of the newer revision / by the newer cross-reference stream): all sequences of length <= 2 under every configuration and of length 3 under the two full cache configurations; plus the complete walk of {} repository files cached vs uncached (strict and tolerant). Each answer is compared with the same call made alone on a fresh uncached document (canonical digest / root-cause error variant).", total_alpha, if tier.thorough() { "every configuration" } else { "both-caches and own-map-caches" }, total_wide, n_deep, n_corpus),
        assumptions: vec!["digests are independent of HashMap iteration order and file offsets".into()],
        exhaustive: true,
        bounds: json!({"sequence_len": maxlen}),
    }
}

pub fn replay(case: &Value, tally: &mut Tally) {
    if case["engine"].as_str() == Some("c12.corpus") {
        let mut t = Tally::new();
        corpus_walks(&mut t);
        for f in t.all_failures() {
            if f.replay["file"] == case["file"] {
                tally.add_failure(f.clone());
            }
        }
        return;
    }
    let variant = case["variant"].as_u64().unwrap_or(0) as usize;
    let cfg = case["config"].as_u64().unwrap_or(0) as usize;
    let bytes = c12_doc(variant);
    let alpha = alphabet_wide(variant);
    let seq: Vec<Call> = case["calls"].as_array().unwrap().iter().map(|c| *alpha.iter().find(|(k, o)| format!("{:?}", k) == c[0].as_str().unwrap() && *o == c[1].as_u64().unwrap()).expect("call in alphabet")).collect();
    let ref_cfg = if cfg >= N_CACHE_CONFIGS { N_CACHE_CONFIGS + 4 } else { 4 };
    let reference: std::collections::HashMap<Call, String> = alpha.iter().map(|c| (*c, run_sequence(&bytes, ref_cfg, &[*c]).pop().unwrap())).collect();
    println!("config {} calls {:?}", CONFIGS[cfg], seq.iter().map(call_name).collect::<Vec<_>>());
    println!("answers: {:?}", run_sequence(&bytes, cfg, &seq));
    check_seq(&bytes, &reference, variant, cfg, &seq, tally);
}
