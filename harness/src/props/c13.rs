//! C13 — concurrent readers get the answers sequential readers would (schedules of real threads).
use crate::core::*;
use crate::pdfgen::file::*;
use crate::pdfgen::val::*;
use crate::sched::*;
use crate::walker::{OCResult, SCResult};
use pdf::file::{Cache, File, FileOptions, NoLog};
use pdf::font::Font;
use pdf::object::*;
use serde_json::{json, Value};
use std::io::{BufRead, BufReader, Write};
use std::panic::{catch_unwind, AssertUnwindSafe};
use std::process::{Child, ChildStdin, ChildStdout, Command, Stdio};
use std::sync::{Arc, Mutex};

pub fn doc() -> Vec<u8> {
    let mut fb = FileBuilder::new(b"");
    fb.add(1, 0, &Val::dict(vec![("Type", Val::name("Catalog")), ("Pages", Val::r(2))]));
    fb.add(2, 0, &Val::dict(vec![("Type", Val::name("Pages")), ("Kids", Val::Array(vec![Val::r(3), Val::r(4)])), ("Count", Val::Int(2)), ("MediaBox", Val::ints(&[0, 0, 10, 10])), ("Resources", Val::dict(vec![("Font", Val::dict(vec![("F1", Val::r(9))]))]))]));
    fb.add(3, 0, &Val::dict(vec![("Type", Val::name("Page")), ("Parent", Val::r(2))]));
    fb.add(4, 0, &Val::dict(vec![("Type", Val::name("Page")), ("Parent", Val::r(2))]));
    fb.add(9, 0, &Val::dict(vec![("Type", Val::name("Font")), ("Subtype", Val::name("Type1")), ("BaseFont", Val::name("Courier")), ("FirstChar", Val::Int(32)), ("Widths", Val::Array(vec![Val::Int(600)]))]));
    // a pair of page-tree nodes whose eager /Parent references point at each other
    fb.add(10, 0, &Val::dict(vec![("Type", Val::name("Pages")), ("Parent", Val::r(11)), ("Kids", Val::Array(vec![])), ("Count", Val::Int(0))]));
    fb.add(11, 0, &Val::dict(vec![("Type", Val::name("Pages")), ("Parent", Val::r(10)), ("Kids", Val::Array(vec![])), ("Count", Val::Int(0))]));
    // a pair of composite fonts that name each other as descendant (eager references, like /Parent)
    fb.add(20, 0, &Val::dict(vec![("Type", Val::name("Font")), ("Subtype", Val::name("Type0")), ("BaseFont", Val::name("A")), ("Encoding", Val::name("Identity-H")), ("DescendantFonts", Val::Array(vec![Val::r(21)]))]));
    fb.add(21, 0, &Val::dict(vec![("Type", Val::name("Font")), ("Subtype", Val::name("Type0")), ("BaseFont", Val::name("B")), ("Encoding", Val::name("Identity-H")), ("DescendantFonts", Val::Array(vec![Val::r(20)]))]));
    // two JBIG2 streams that name each other as globals (an optional, eagerly loaded reference: with tolerant options the
    // entry that closes the cycle is dropped, and what is loaded inside the cycle must not be cached)
    fb.add(30, 0, &Val::stream(vec![("Filter", Val::name("JBIG2Decode")), ("DecodeParms", Val::dict(vec![("JBIG2Globals", Val::r(31))]))], vec![0, 1]));
    fb.add(31, 0, &Val::stream(vec![("Filter", Val::name("JBIG2Decode")), ("DecodeParms", Val::dict(vec![("JBIG2Globals", Val::r(30))]))], vec![2, 3]));
    // a ring of three composite fonts (23 -> 24 -> 25 -> 23)
    for (nr, next) in [(23u64, 24u64), (24, 25), (25, 23)] {
        fb.add(nr, 0, &Val::dict(vec![("Type", Val::name("Font")), ("Subtype", Val::name("Type0")), ("BaseFont", Val::name("R")), ("Encoding", Val::name("Identity-H")), ("DescendantFonts", Val::Array(vec![Val::r(next)]))]));
    }
    fb.add_objstm(8, &[(5, Val::dict(vec![("In", Val::name("ObjStm"))])), (6, Val::Int(66))], &ObjStmOpts::default());
    // a second object stream: anything that remembers "the" object stream between calls is shared state
    fb.add_objstm(13, &[(14, Val::Int(1414)), (15, Val::dict(vec![("In", Val::name("SecondObjStm"))]))], &ObjStmOpts::default());
    // a chain of 19 page-tree nodes and a page at its end (not reachable from the root): loading the page loads every
    // ancestor through its eager /Parent reference, i.e. 21 loads nested in each other
    for n in 100u64..119 {
        fb.add(n, 0, &Val::dict(vec![("Type", Val::name("Pages")), ("Parent", Val::r(if n == 100 { 2 } else { n - 1 })), ("Kids", Val::Array(vec![])), ("Count", Val::Int(0))]));
    }
    fb.add(119, 0, &Val::dict(vec![("Type", Val::name("Page")), ("Parent", Val::r(118))]));
    fb.finish_stream(&[("Root", Val::r(1))], &XrefStreamOpts::new(12));
    fb.bytes()
}

pub const CALLS: &[&str] = &["get<PagesNode>(3)", "get<PagesNode>(4)", "get<PagesNode>(2)", "get<Font>(9)", "get_page(0)", "resolve(5@objstm)", "get<PagesNode>(10:cyclic)", "get<PagesNode>(11:cyclic)", "get<PagesNode>(119:nested-21-deep)", "resolve(14@objstm2)", "resolve(15@objstm2)", "resolve(6@objstm)", "get<Font>(20:cyclic)", "get<Font>(21:cyclic)", "get<Font>(23:ring-of-3)", "get<Font>(24:ring-of-3)", "get<Font>(25:ring-of-3)", "tolerant:get<Stream>(30:globals-cycle)", "tolerant:get<Stream>(31:globals-cycle)", "tolerant:get<Font>(9)"];
/// calls from this index on make the whole program open the document with tolerant options
pub const FIRST_TOLERANT_CALL: usize = 17;

fn ev(e: &pdf::error::PdfError) -> String {
    // peel Try / Shared and also FromPrimitive wrappers: the root cause is what is compared
    let mut root = err_root(e);
    while let pdf::error::PdfError::FromPrimitive { source, .. } = root {
        root = err_root(source);
    }
    match root {
        pdf::error::PdfError::Other { msg } => format!("ERR:Other({})", truncate(msg, 40)),
        _ => format!("ERR:{}", err_variant(e)),
    }
}

fn exec_call<OC, SC>(file: &File<Vec<u8>, OC, SC, NoLog>, res: &impl Resolve, call: usize) -> String
where
    OC: Cache<OCResult>,
    SC: Cache<SCResult>,
{
    let node = |n: u64| match res.get::<PagesNode>(Ref::new(PlainRef { id: n, gen: 0 })) {
        Ok(node) => match &*node {
            PagesNode::Tree(t) => format!("Tree(count={})", t.count),
            PagesNode::Leaf(p) => format!("Leaf(parent-count={})", p.parent.count),
        },
        Err(e) => ev(&e),
    };
    match call {
        0 => node(3),
        1 => node(4),
        2 => node(2),
        3 => match res.get::<Font>(Ref::new(PlainRef { id: 9, gen: 0 })) {
            Ok(f) => format!("Font({:?})", f.name.as_ref().map(|n| n.as_str().to_string())),
            Err(e) => ev(&e),
        },
        4 => match file.get_page(0) {
            Ok(p) => format!("Page(obj {})", p.get_ref().get_inner().id),
            Err(e) => ev(&e),
        },
        5 => match res.resolve(PlainRef { id: 5, gen: 0 }) {
            Ok(p) => crate::common::show_prim(&p),
            Err(e) => ev(&e),
        },
        6 => node(10),
        7 => node(11),
        8 => node(119),
        n @ 9..=11 => match res.resolve(PlainRef { id: [14, 15, 6][n - 9], gen: 0 }) {
            Ok(p) => crate::common::show_prim(&p),
            Err(e) => ev(&e),
        },
        n @ 12..=16 => match res.get::<Font>(Ref::new(PlainRef { id: [20, 21, 23, 24, 25][n - 12], gen: 0 })) {
            Ok(f) => format!("Font({:?})", f.name.as_ref().map(|n| n.as_str().to_string())),
            Err(e) => ev(&e),
        },
        n @ 17..=18 => match res.get::<Stream<()>>(Ref::new(PlainRef { id: [30, 31][n - 17], gen: 0 })) {
            Ok(s) => {
                // how many globals streams hang below each other in the typed value
                fn depth(s: &Stream<()>) -> usize {
                    s.info.filters.iter().map(|f| match f { pdf::enc::StreamFilter::JBIG2Decode(p) => p.globals.as_ref().map(|g| 1 + depth(g)).unwrap_or(0), _ => 0 }).max().unwrap_or(0)
                }
                format!("Stream(globals-below={})", depth(&s))
            }
            Err(e) => ev(&e),
        },
        _ => match res.get::<Font>(Ref::new(PlainRef { id: 9, gen: 0 })) {
            Ok(f) => format!("Font({:?})", f.name.as_ref().map(|n| n.as_str().to_string())),
            Err(e) => ev(&e),
        },
    }
}

#[derive(Clone, Debug, PartialEq)]
pub struct Config {
    pub shared_resolver: bool,
    pub cached: bool,
    /// calls per thread
    pub plan: Vec<Vec<usize>>,
}
impl Config {
    pub fn name(&self) -> String {
        format!("{}/{}/{}", if self.shared_resolver { "shared-resolver" } else { "resolver-per-thread" }, if self.cached { "caches" } else { "no-caches" }, self.plan.iter().map(|t| t.iter().map(|c| CALLS[*c]).collect::<Vec<_>>().join(",")).collect::<Vec<_>>().join(" || "))
    }
    fn to_json(&self) -> Value {
        json!({"shared": self.shared_resolver, "cached": self.cached, "plan": self.plan})
    }
    fn from_json(v: &Value) -> Config {
        Config { shared_resolver: v["shared"].as_bool().unwrap(), cached: v["cached"].as_bool().unwrap(), plan: v["plan"].as_array().unwrap().iter().map(|t| t.as_array().unwrap().iter().map(|c| c.as_u64().unwrap() as usize).collect()).collect() }
    }
}

#[derive(Clone, Debug)]
pub struct RunResult {
    pub trace: Vec<Pt>,
    /// per thread: the answers of its calls ("PANIC:..." / "ABORTED" possible)
    pub outs: Vec<Vec<String>>,
    pub deadlock: bool,
    pub diverged: bool,
    pub horizon: bool,
    /// one more sequential load through the shared resolver after all threads are done
    pub after: String,
}

/// Execute one schedule (prefix of picks, default 0 afterwards) in this process.
pub fn run_schedule(cfg: &Config, prefix: &[usize]) -> RunResult {
    let data = doc();
    let nt = cfg.plan.len();
    let sched = Sched::new(nt, prefix.to_vec(), 4000);
    install(Some(sched.clone()));
    pdf::verif::set_handler(Some(hook));
    pdf::verif::set_lock_handler(Some(crate::sched::lock_hook));
    let outs: Vec<Mutex<Vec<String>>> = (0..nt).map(|_| Mutex::new(vec![])).collect();
    let after = Mutex::new(String::new());
    macro_rules! body {
        ($file:expr) => {{
            let file = $file;
            let shared_res = file.resolver();
            std::thread::scope(|s| {
                for t in 0..nt {
                    let sched = sched.clone();
                    let outs = &outs;
                    let plan = &cfg.plan;
                    let file = &file;
                    let shared_res = &shared_res;
                    let shared = cfg.shared_resolver;
                    s.spawn(move || {
                        QUIET.with(|q| *q.borrow_mut() = true);
                        let entered = catch_unwind(AssertUnwindSafe(|| sched.enter(t)));
                        if entered.is_err() {
                            outs[t].lock().unwrap().push("ABORTED".into());
                            return;
                        }
                        let own = file.resolver();
                        for &call in &plan[t] {
                            let r = catch_unwind(AssertUnwindSafe(|| if shared { exec_call(file, shared_res, call) } else { exec_call(file, &own, call) }));
                            match r {
                                Ok(o) => outs[t].lock().unwrap().push(o),
                                Err(p) => {
                                    if p.is::<AbortToken>() {
                                        outs[t].lock().unwrap().push("ABORTED".into());
                                        return;
                                    }
                                    let msg = p.downcast_ref::<String>().cloned().or_else(|| p.downcast_ref::<&str>().map(|s| s.to_string())).unwrap_or_default();
                                    outs[t].lock().unwrap().push(format!("PANIC:{}", truncate(&msg, 80)));
                                }
                            }
                        }
                        let _ = catch_unwind(AssertUnwindSafe(|| sched.finish(t)));
                    });
                }
                sched.start_and_wait(nt);
            });
            // all threads are done; the scheduler is inert now
            install(None);
            let r = catch_unwind(AssertUnwindSafe(|| exec_call(&file, &shared_res, 2)));
            *after.lock().unwrap() = match r {
                Ok(o) => o,
                Err(p) => format!("PANIC:{}", p.downcast_ref::<String>().cloned().unwrap_or_default()),
            };
        }};
    }
    let po = if cfg.plan.iter().flatten().any(|&c| c >= FIRST_TOLERANT_CALL) { pdf::object::ParseOptions::tolerant() } else { pdf::object::ParseOptions::strict() };
    if cfg.cached {
        body!(FileOptions::uncached().cache(VerifCache::<OCResult>::new(), VerifCache::<SCResult>::new()).parse_options(po).load(data.clone()).expect("doc loads"));
    } else {
        body!(FileOptions::uncached().parse_options(po).load(data.clone()).expect("doc loads"));
    }
    install(None);
    pdf::verif::set_handler(None);
    pdf::verif::set_lock_handler(None);
    let g = sched.m.lock().unwrap();
    let after_s = after.lock().unwrap().clone();
    let outs_v: Vec<Vec<String>> = outs.iter().map(|m| m.lock().unwrap().clone()).collect();
    let r = RunResult { trace: g.trace.clone(), outs: outs_v, deadlock: g.deadlock, diverged: g.diverged, horizon: g.horizon_hit, after: after_s };
    drop(g);
    r
}

fn result_to_json(r: &RunResult) -> Value {
    json!({
        "trace": r.trace.iter().map(|p| json!([p.n, p.picked, p.self_enabled, p.site, if p.thread == usize::MAX { -1 } else { p.thread as i64 }, p.enabled])).collect::<Vec<_>>(),
        "outs": r.outs, "deadlock": r.deadlock, "diverged": r.diverged, "horizon": r.horizon, "after": r.after,
    })
}
fn result_from_json(v: &Value) -> RunResult {
    RunResult {
        trace: v["trace"].as_array().unwrap().iter().map(|p| Pt { n: p[0].as_u64().unwrap() as usize, picked: p[1].as_u64().unwrap() as usize, self_enabled: p[2].as_bool().unwrap(), site: p[3].as_u64().unwrap() as u32, thread: p[4].as_i64().map(|t| if t < 0 { usize::MAX } else { t as usize }).unwrap(), enabled: p[5].as_array().unwrap().iter().map(|x| x.as_u64().unwrap() as usize).collect() }).collect(),
        outs: v["outs"].as_array().unwrap().iter().map(|t| t.as_array().unwrap().iter().map(|s| s.as_str().unwrap().to_string()).collect()).collect(),
        deadlock: v["deadlock"].as_bool().unwrap(),
        diverged: v["diverged"].as_bool().unwrap(),
        horizon: v["horizon"].as_bool().unwrap(),
        after: v["after"].as_str().unwrap().to_string(),
    }
}

/// worker mode: one request per line on stdin ({"cfg":..,"prefix":[..]}), one response per line on stdout
pub fn worker_main() {
    let stdin = std::io::stdin();
    let mut out = std::io::stdout();
    QUIET.with(|q| *q.borrow_mut() = true);
    for line in stdin.lock().lines() {
        let Ok(line) = line else { break };
        if line.trim().is_empty() {
            continue;
        }
        let v: Value = serde_json::from_str(&line).expect("request");
        let cfg = Config::from_json(&v["cfg"]);
        let prefix: Vec<usize> = v["prefix"].as_array().unwrap().iter().map(|x| x.as_u64().unwrap() as usize).collect();
        let r = run_schedule(&cfg, &prefix);
        writeln!(out, "{}", result_to_json(&r)).unwrap();
        out.flush().unwrap();
    }
}

struct Worker {
    child: Child,
    stdin: ChildStdin,
    stdout: BufReader<ChildStdout>,
}
impl Worker {
    fn spawn() -> Worker {
        let exe = std::env::current_exe().expect("exe");
        let mut child = Command::new(exe).arg("worker").arg("c13").stdin(Stdio::piped()).stdout(Stdio::piped()).stderr(Stdio::null()).spawn().expect("spawn worker");
        let stdin = child.stdin.take().unwrap();
        let stdout = BufReader::new(child.stdout.take().unwrap());
        Worker { child, stdin, stdout }
    }
    /// Err(description) when the worker died or did not answer in time
    fn run(&mut self, cfg: &Config, prefix: &[usize]) -> Result<RunResult, String> {
        let req = json!({"cfg": cfg.to_json(), "prefix": prefix});
        if writeln!(self.stdin, "{}", req).is_err() || self.stdin.flush().is_err() {
            return Err("worker pipe closed".into());
        }
        // wait for a line with a deadline (poll on the fd)
        use std::os::unix::io::AsRawFd;
        let fd = self.stdout.get_ref().as_raw_fd();
        let mut pfd = libc::pollfd { fd, events: libc::POLLIN, revents: 0 };
        let rc = unsafe { libc::poll(&mut pfd, 1, 20_000) };
        if rc == 0 {
            let _ = self.child.kill();
            let _ = self.child.wait();
            return Err("timeout: the schedule did not finish within 20 s (threads stuck outside the scheduler's view)".into());
        }
        let mut line = String::new();
        match self.stdout.read_line(&mut line) {
            Ok(n) if n > 0 => serde_json::from_str::<Value>(&line).map(|v| result_from_json(&v)).map_err(|e| format!("bad worker response: {}", e)),
            _ => {
                let status = self.child.wait().ok();
                use std::os::unix::process::ExitStatusExt;
                let sig = status.and_then(|s| s.signal());
                Err(format!("worker process died (signal {:?}): the schedule aborted the process (e.g. a panic while unwinding)", sig))
            }
        }
    }
}
impl Drop for Worker {
    fn drop(&mut self) {
        let _ = self.child.kill();
        let _ = self.child.wait();
    }
}

fn children(trace: &[Pt], from: usize, bound: usize) -> Vec<Vec<usize>> {
    let mut out = vec![];
    let mut cost = 0usize;
    let picks: Vec<usize> = trace.iter().map(|p| p.picked).collect();
    for (i, p) in trace.iter().enumerate() {
        if i >= from {
            for alt in 1..p.n {
                let c = cost + if p.self_enabled { 1 } else { 0 };
                if c <= bound {
                    let mut np = picks[..i].to_vec();
                    np.push(alt);
                    out.push(np);
                }
            }
        }
        if p.self_enabled && p.picked != 0 {
            cost += 1;
        }
    }
    out
}

fn describe_schedule(trace: &[Pt]) -> String {
    // only the preemptions / non-default choices
    let mut s = vec![];
    for (i, p) in trace.iter().enumerate() {
        if p.picked != 0 {
            let who = if p.thread == usize::MAX { "start".to_string() } else { format!("T{}@{}", p.thread, site_name(p.site)) };
            s.push(format!("step {}: {} -> run T{}", i, who, p.enabled.get(p.picked).copied().unwrap_or(99)));
        }
    }
    if s.is_empty() {
        "default schedule (no preemption)".into()
    } else {
        s.join("; ")
    }
}

/// expected answers: each call alone on a fresh document
fn expected(cfg: &Config) -> Vec<Vec<String>> {
    cfg.plan
        .iter()
        .map(|calls| {
            calls
                .iter()
                .map(|&c| {
                    let solo = Config { shared_resolver: false, cached: false, plan: vec![vec![c]] };
                    run_schedule(&solo, &[]).outs[0][0].clone()
                })
                .collect()
        })
        .collect()
}

fn judge(cfg: &Config, want: &[Vec<String>], r: &Result<RunResult, String>) -> Result<String, (String, String)> {
    match r {
        Err(m) => {
            let kind = if m.starts_with("timeout") { "timeout" } else { "process-abort" };
            Err((kind.into(), m.clone()))
        }
        Ok(r) => {
            if r.deadlock {
                return Err(("deadlock".into(), format!("no enabled thread while some are blocked in the cache; answers so far {:?}; sequentially the calls answer {:?}", r.outs, want)));
            }
            if r.horizon {
                return Err(("livelock-horizon".into(), "step horizon reached".into()));
            }
            for (t, outs) in r.outs.iter().enumerate() {
                for (i, o) in outs.iter().enumerate() {
                    let w = &want[t][i];
                    if o != w {
                        let kind = if o.starts_with("PANIC") {
                            "panic-in-thread"
                        } else if o.contains("Recursive reference") {
                            "spurious-recursive-reference"
                        } else if o.starts_with("ERR:") && !w.starts_with("ERR:") {
                            "spurious-error"
                        } else {
                            "different-answer"
                        };
                        return Err((kind.into(), format!("thread {} call {} answered `{}`; alone it answers `{}`", t, CALLS[cfg.plan[t][i]], o, w)));
                    }
                }
                if outs.len() != cfg.plan[t].len() {
                    return Err(("thread-incomplete".into(), format!("thread {} finished {} of {} calls", t, outs.len(), cfg.plan[t].len())));
                }
            }
            // the resolver must still be usable (guard not poisoned, stack empty)
            let after_want = "Tree(count=2)";
            if r.after != after_want {
                let kind = if r.after.contains("PANIC") { "resolver-poisoned" } else { "resolver-unusable-afterwards" };
                return Err((kind.into(), format!("a sequential get through the shared resolver afterwards answers `{}`", r.after)));
            }
            Ok(format!("{:?}", r.outs))
        }
    }
}

pub struct Explored {
    pub schedules: u64,
    pub transitions: u64,
}

/// explore all schedules of `cfg` up to `bound` preemptions with `nworkers` worker processes
pub fn explore_cfg(cfg: &Config, bound: usize, nworkers: usize, max_schedules: u64, tally: &mut Tally) -> Explored {
    let want = expected(cfg);
    let stack: Arc<Mutex<(Vec<Vec<usize>>, usize)>> = Arc::new(Mutex::new((vec![vec![]], 0))); // (work, busy)
    let total = Arc::new(std::sync::atomic::AtomicU64::new(0));
    let trans = Arc::new(std::sync::atomic::AtomicU64::new(0));
    let capped = Arc::new(std::sync::atomic::AtomicBool::new(false));
    let results: Vec<Tally> = std::thread::scope(|s| {
        let handles: Vec<_> = (0..nworkers)
            .map(|_| {
                let stack = stack.clone();
                let total = total.clone();
                let trans = trans.clone();
                let capped = capped.clone();
                let want = &want;
                s.spawn(move || {
                    let mut t = Tally::new();
                    let mut w = Worker::spawn();
                    loop {
                        let job = {
                            let mut g = stack.lock().unwrap();
                            match g.0.pop() {
                                Some(j) => {
                                    g.1 += 1;
                                    Some(j)
                                }
                                None => {
                                    if g.1 == 0 {
                                        break;
                                    }
                                    None
                                }
                            }
                        };
                        let Some(prefix) = job else {
                            std::thread::sleep(std::time::Duration::from_micros(200));
                            continue;
                        };
                        if total.fetch_add(1, std::sync::atomic::Ordering::Relaxed) >= max_schedules {
                            capped.store(true, std::sync::atomic::Ordering::Relaxed);
                            stack.lock().unwrap().1 -= 1;
                            continue;
                        }
                        let r = w.run(cfg, &prefix);
                        if r.is_err() {
                            w = Worker::spawn();
                        }
                        if let Ok(rr) = &r {
                            if rr.diverged {
                                eprintln!("MACHINERY: schedule replay diverged for {:?}", prefix);
                                std::process::exit(2);
                            }
                        }
                        t.evaluations += 1;
                        t.states += 1;
                        let preemptions = r.as_ref().map(|r| r.trace.iter().filter(|p| p.self_enabled && p.picked != 0).count()).unwrap_or(0);
                        if preemptions > 0 || prefix.iter().any(|&p| p != 0) {
                            t.distinct.insert(fnv(format!("{}{:?}", cfg.name(), r.as_ref().map(|r| r.trace.iter().map(|p| p.picked).collect::<Vec<_>>()).unwrap_or(prefix.clone())).as_bytes()));
                        }
                        match judge(cfg, want, &r) {
                            Ok(o) => t.outcome(&o),
                            Err((kind, detail)) => {
                                // replay once more: the same schedule must fail the same way
                                let full: Vec<usize> = r.as_ref().map(|r| r.trace.iter().map(|p| p.picked).collect()).unwrap_or(prefix.clone());
                                let r2 = w.run(cfg, &full);
                                if r2.is_err() {
                                    w = Worker::spawn();
                                }
                                let again = judge(cfg, want, &r2);
                                if again.as_ref().err().map(|e| &e.0) != Some(&kind) {
                                    eprintln!("MACHINERY: failing schedule did not reproduce ({} vs {:?})", kind, again);
                                    std::process::exit(2);
                                }
                                t.outcome(&kind);
                                let mut devs = vec![format!("resolver={}", if cfg.shared_resolver { "shared" } else { "per-thread" }), format!("caches={}", if cfg.cached { "on" } else { "off" })];
                                let mut calls: Vec<String> = cfg.plan.iter().flatten().map(|c| format!("call={}", CALLS[*c])).collect();
                                calls.sort();
                                calls.dedup();
                                devs.extend(calls);
                                let sched_descr = r.as_ref().map(|r| describe_schedule(&r.trace)).unwrap_or_else(|_| format!("prefix {:?}", prefix));
                                t.fail("c13.schedule", &kind, devs, format!("{} | schedule: {} | {}", cfg.name(), sched_descr, detail), json!({"engine": "c13.schedule", "cfg": cfg.to_json(), "picks": full}));
                            }
                        }
                        let kids = match &r {
                            Ok(rr) => children(&rr.trace, prefix.len(), bound),
                            Err(_) => vec![],
                        };
                        trans.fetch_add(kids.len() as u64, std::sync::atomic::Ordering::Relaxed);
                        let mut g = stack.lock().unwrap();
                        g.0.extend(kids);
                        g.1 -= 1;
                    }
                    t
                })
            })
            .collect();
        handles.into_iter().map(|h| h.join().unwrap()).collect()
    });
    for t in results {
        tally.merge(t);
    }
    if capped.load(std::sync::atomic::Ordering::Relaxed) {
        tally.caps_hit.push(format!("c13: {} capped at {} schedules (bound {})", cfg.name(), max_schedules, bound));
    }
    let tr = trans.load(std::sync::atomic::Ordering::Relaxed);
    tally.transitions += tr;
    Explored { schedules: total.load(std::sync::atomic::Ordering::Relaxed), transitions: tr }
}

pub fn configs(tier: Tier) -> Vec<(Config, usize)> {
    let mut v: Vec<(Config, usize)> = vec![];
    let normal_calls = [0usize, 1, 2, 3, 4, 5];
    for shared in [true, false] {
        for cached in [false, true] {
            // 2 threads x 1 call: every ordered pair of calls
            for &a in &normal_calls {
                for &b in &normal_calls {
                    if b < a && !shared {
                        continue; // symmetric when each thread has its own resolver
                    }
                    v.push((Config { shared_resolver: shared, cached, plan: vec![vec![a], vec![b]] }, if tier.thorough() { 3 } else { 2 }));
                }
            }
            // 2 threads x 2 calls: colliding keys, nested keys, control
            for plan in [vec![vec![0, 1], vec![1, 0]], vec![vec![0, 2], vec![2, 0]], vec![vec![4, 3], vec![0, 5]], vec![vec![5, 5], vec![5, 0]]] {
                v.push((Config { shared_resolver: shared, cached, plan }, if tier.thorough() { 3 } else { 2 }));
            }
            // 3 threads x 1 call
            for plan in [vec![vec![0], vec![1], vec![2]], vec![vec![0], vec![0], vec![0]], vec![vec![4], vec![5], vec![3]]] {
                v.push((Config { shared_resolver: shared, cached, plan }, if tier.thorough() { 2 } else { 1 }));
            }
            if tier.thorough() {
                v.push((Config { shared_resolver: shared, cached, plan: vec![vec![0, 1, 2], vec![2, 1, 0]] }, 3));
                v.push((Config { shared_resolver: shared, cached, plan: vec![vec![4, 5, 3], vec![3, 4, 5]] }, 2));
            }
            // compressed objects of two different object streams (and of the same one) at the same time
            for plan in [vec![vec![5], vec![9]], vec![vec![5], vec![10]], vec![vec![11], vec![9]], vec![vec![5], vec![11]], vec![vec![5, 9], vec![10, 11]]] {
                v.push((Config { shared_resolver: shared, cached, plan }, if tier.thorough() { 3 } else { 2 }));
            }
            // deeply nested loads on both threads (bounds on what the guard stack may hold must be per thread)
            v.push((Config { shared_resolver: shared, cached, plan: vec![vec![8], vec![8]] }, if tier.thorough() { 2 } else { 1 }));
            v.push((Config { shared_resolver: shared, cached, plan: vec![vec![8], vec![0]] }, if tier.thorough() { 2 } else { 1 }));
            // the mutually referring pair (sequential answer: an error)
            v.push((Config { shared_resolver: shared, cached, plan: vec![vec![6], vec![7]] }, 2));
            v.push((Config { shared_resolver: shared, cached, plan: vec![vec![6], vec![6]] }, 2));
            v.push((Config { shared_resolver: shared, cached, plan: vec![vec![12], vec![13]] }, 2));
            v.push((Config { shared_resolver: shared, cached, plan: vec![vec![12], vec![12]] }, 2));
            // three threads entering a ring of three at three different objects
            v.push((Config { shared_resolver: shared, cached, plan: vec![vec![14], vec![15], vec![16]] }, if cached { 2 } else { 1 }));
            v.push((Config { shared_resolver: shared, cached, plan: vec![vec![14], vec![15]] }, 2));
            // tolerant options, a cycle through an optional reference: one thread loads a member while the other has an
            // unrelated load in progress and then loads the other member
            v.push((Config { shared_resolver: shared, cached, plan: vec![vec![17], vec![19, 18]] }, 2));
            v.push((Config { shared_resolver: shared, cached, plan: vec![vec![17], vec![18]] }, 2));
            v.push((Config { shared_resolver: shared, cached, plan: vec![vec![17, 18], vec![19]] }, 2));
        }
    }
    v
}

pub fn run(tier: Tier, _seed: u64, tally: &mut Tally) -> CheckMeta {
    let cfgs = configs(tier);
    let nworkers = 16;
    let mut total = 0u64;
    let cap = if tier.thorough() { 400_000 } else { 150_000 };
    let started = std::time::Instant::now();
    let wall_cap = if tier.thorough() { 6000 } else { 900 };
    for (cfg, bound) in &cfgs {
        if started.elapsed().as_secs() > wall_cap {
            tally.caps_hit.push(format!("c13: wall cap {} s reached before {}", wall_cap, cfg.name()));
            continue;
        }
        let e = explore_cfg(cfg, *bound, nworkers, cap, tally);
        total += e.schedules;
    }
    // bind the instrumented cache to the real one: same sequential answers (C12 alphabet) -- counted as validated traces
    let mut validated = 0u64;
    for variant in 0..2 {
        let bytes = crate::props::c12::c12_doc(variant);
        let alpha = crate::props::c12::alphabet(variant);
        for a in &alpha {
            for b in &alpha {
                let seq = [*a, *b];
                let real = crate::props::c12::run_sequence(&bytes, 0, &seq);
                let model = match FileOptions::uncached().cache(VerifCache::<OCResult>::new(), VerifCache::<SCResult>::new()).load(bytes.clone()) {
                    Ok(f) => seq.iter().map(|c| crate::props::c12::exec(&f, c)).collect::<Vec<_>>(),
                    Err(_) => vec!["LOAD-ERR".into()],
                };
                validated += 1;
                if real != model {
                    tally.fail("c13.cache-model", "model-diverges-from-SyncCache", vec![], format!("calls {:?}: SyncCache {:?} VerifCache {:?}", seq.iter().map(crate::props::c12::call_name).collect::<Vec<_>>(), real, model), json!({"engine": "c13.cache-model"}));
                }
            }
        }
    }
    real_cache_overlap(tally);
    tally.validated = tally.evaluations + validated;
    if tier.thorough() {
        free_running(tally);
    }
    tally.sample(json!({"config": "shared-resolver/no-caches/get<PagesNode>(3) || get<PagesNode>(4)", "schedule": "step 3: T0@get:pushed -> run T1", "oracle": "each answer equals the call alone; no panic/deadlock; resolver usable afterwards"}));
    tally.sample(json!({"config": "resolver-per-thread/caches/get<PagesNode>(10:cyclic) || get<PagesNode>(11:cyclic)", "note": "sequential answer is `Recursive reference`"}));
    let _ = total;
    CheckMeta {
        prop: "C13",
        level: "model_checking",
        rule: format!("{} thread programs (2 threads x 1 call for every ordered pair of 6 calls; 2 threads x 2 calls; 3 threads x 1 call; thorough: 2 x 3 calls; a mutually referring pair and a ring of three entered by three threads; with tolerant options two streams naming each other through an optional reference; compressed objects of two object streams) x {{shared resolver, resolver per thread}} x {{no caches, instrumented compute-once caches}}; every interleaving at the scheduling points (4 hook points in StorageResolver::get, inside each critical section of its guard mutex - which under the feature is a mutex whose blocking the scheduler sees, so a thread can be preempted while it holds the lock and lock / try_lock of the others behave accordingly -, lock/wait/notify of the instrumented cache, thread start/finish) up to the preemption bound ({}) is executed on real threads under a baton-passing scheduler in worker processes; states = schedules executed, transitions = schedule-tree edges. Non-trivial = at least one non-default scheduling choice; distinct by (program, choice vector). Each answer must equal the call run alone; no panic, no deadlock, no process abort, resolver usable afterwards; failing schedules are replayed and must reproduce.", cfgs.len(), if tier.thorough() { "3 for 2 threads, 2 for 3 threads" } else { "2 for 2 threads, 1 for 3 threads" }),
        assumptions: vec![
            "all shared mutable state reachable from these calls is the guard stack (mutex) and the caches (behind the Cache trait); the guard mutex is replaced by pdf::verif::Mutex (same interface, std mutex inside) in the checked build".into(),
            "VerifCache is a transliteration of globalcache 0.2.4 SyncCache::get (source hash checked at self-check; sequential traces compared with the real SyncCache)".into(),
            "Lazy::load (once_cell) is not in the call alphabet".into(),
            "the glue impl Cache for Arc<SyncCache> is exercised on free-running threads only: one forced overlap (a load held inside the cache while a second thread waits for it, failing and succeeding) in every run, the thread bodies of the programs in the thorough tier".into(),
        ],
        exhaustive: true,
        bounds: json!({"preemptions_2_threads": if tier.thorough() { 3 } else { 2 }, "preemptions_3_threads": if tier.thorough() { 2 } else { 1 }}),
    }
}

/// The glue between the library and the real compute-once cache (`impl Cache for Arc<SyncCache>`) is not under the
/// scheduler (the instrumented cache stands in for it there). One overlap that matters is forced here on real threads
/// with the real cache: thread A's load of an object is held inside the cache's compute step (through the public `Log`
/// hook) until thread B has asked for the same object and waits for A's result; the load fails / succeeds. Both must get
/// the answer a lone reader gets. (If B is late the overlap does not happen and nothing is learnt: no false alarm.)
fn real_cache_overlap(tally: &mut Tally) {
    use std::sync::{Condvar, Mutex as StdMutex};
    struct Gate {
        key: u64,
        state: StdMutex<u8>,
        cv: Condvar,
    }
    impl pdf::file::Log for Gate {
        fn load_object(&self, r: PlainRef) {
            if r.id == self.key {
                let mut s = self.state.lock().unwrap();
                if *s == 0 {
                    *s = 1;
                    self.cv.notify_all();
                    drop(s);
                    // B is released now: give it time to reach the cache and wait there
                    std::thread::sleep(std::time::Duration::from_millis(120));
                }
            }
        }
    }
    // (object, what): a font pair that fails to load (each names the other as descendant), a font that loads
    for (key, what) in [(20u64, "failing load"), (9, "successful load")] {
        tally.evaluations += 1;
        let call = |file: &File<Vec<u8>, std::sync::Arc<pdf::file::SyncCache<PlainRef, OCResult>>, std::sync::Arc<pdf::file::SyncCache<PlainRef, SCResult>>, Gate>| -> String {
            match file.resolver().get::<Font>(Ref::new(PlainRef { id: key, gen: 0 })) {
                Ok(f) => format!("Font({:?})", f.name.as_ref().map(|n| n.as_str().to_string())),
                Err(e) => ev(&e),
            }
        };
        let open = |armed: bool| FileOptions::cached().log(Gate { key, state: StdMutex::new(if armed { 0 } else { 2 }), cv: Condvar::new() }).load(doc()).expect("doc loads");
        let solo = call(&open(false));
        let file = std::sync::Arc::new(open(true));
        let (tx, rx) = std::sync::mpsc::channel::<(usize, String)>();
        for t in 0..2usize {
            let file = file.clone();
            let tx = tx.clone();
            std::thread::spawn(move || {
                if t == 1 {
                    let g = file.log();
                    let mut s = g.state.lock().unwrap();
                    while *s == 0 {
                        s = g.cv.wait(s).unwrap();
                    }
                }
                let r = catch_unwind(AssertUnwindSafe(|| match file.resolver().get::<Font>(Ref::new(PlainRef { id: key, gen: 0 })) {
                    Ok(f) => format!("Font({:?})", f.name.as_ref().map(|n| n.as_str().to_string())),
                    Err(e) => ev(&e),
                }));
                let _ = tx.send((t, r.unwrap_or_else(|p| format!("PANIC:{}", p.downcast_ref::<String>().cloned().or_else(|| p.downcast_ref::<&str>().map(|s| s.to_string())).unwrap_or_default()))));
            });
        }
        let mut answers = vec![None, None];
        for _ in 0..2 {
            match rx.recv_timeout(std::time::Duration::from_secs(20)) {
                Ok((t, a)) => answers[t] = Some(a),
                Err(_) => break,
            }
        }
        let bad = answers.iter().enumerate().find(|(_, a)| a.as_deref() != Some(solo.as_str()));
        match bad {
            None => tally.outcome("real-cache-overlap-ok"),
            Some((t, a)) => {
                tally.outcome("real-cache-overlap-differs");
                tally.fail("c13.real-cache", if a.is_none() { "no-answer" } else { "different-answer" }, vec![format!("load={}", what)], format!("real SyncCache, thread A holds its {} of object {} inside the cache while thread B asks for the same object: thread {} answered {:?}, a lone reader gets `{}`", what, key, ["A", "B"][t], a, solo), json!({"engine": "c13.real-cache"}));
            }
        }
    }
}

/// non-deciding: the same thread bodies on free-running real threads with the real SyncCache (catches a divergence of the model)
fn free_running(tally: &mut Tally) {
    let data = doc();
    let mut mismatches = 0;
    let mut runs = 0;
    for round in 0..300 {
        let file = FileOptions::cached().load(data.clone()).expect("doc");
        let answers: Vec<Vec<String>> = std::thread::scope(|s| {
            let hs: Vec<_> = (0..3)
                .map(|t| {
                    let file = &file;
                    s.spawn(move || {
                        let own = file.resolver();
                        [(t + round) % 6, (t * 2 + 1) % 6].iter().map(|&c| (c, exec_call(file, &own, c))).map(|(c, a)| format!("{}={}", c, a)).collect::<Vec<_>>()
                    })
                })
                .collect();
            hs.into_iter().map(|h| h.join().unwrap_or_else(|_| vec!["PANIC".into()])).collect()
        });
        runs += 1;
        for t in answers {
            for a in t {
                let (c, ans) = a.split_once('=').unwrap();
                let solo = Config { shared_resolver: false, cached: false, plan: vec![vec![c.parse().unwrap()]] };
                if run_schedule(&solo, &[]).outs[0][0] != ans {
                    mismatches += 1;
                }
            }
        }
    }
    tally.notes.push(format!("non-deciding free-running stress: {} rounds of 3 real threads x 2 calls on the real SyncCache with per-thread resolvers, {} answers differing from the sequential ones", runs, mismatches));
    if mismatches > 0 {
        tally.fail("c13.free-running", "different-answer", vec!["free-running".into()], format!("{} answers differ on free-running threads", mismatches), json!({"engine": "c13.free-running"}));
    }
}

pub fn replay(case: &Value, tally: &mut Tally) {
    if case["engine"] != "c13.schedule" {
        println!("not replayable as a single schedule");
        return;
    }
    let cfg = Config::from_json(&case["cfg"]);
    let picks: Vec<usize> = case["picks"].as_array().unwrap().iter().map(|x| x.as_u64().unwrap() as usize).collect();
    println!("config: {}", cfg.name());
    let want = expected(&cfg);
    let mut w = Worker::spawn();
    let r = w.run(&cfg, &picks);
    if let Ok(rr) = &r {
        println!("schedule: {}", describe_schedule(&rr.trace));
        for p in &rr.trace {
            println!("  step: thread {} at {} enabled {:?} -> picked {}", if p.thread == usize::MAX { "-".into() } else { p.thread.to_string() }, site_name(p.site), p.enabled, p.picked);
        }
        println!("answers: {:?} (alone: {:?}) after: {}", rr.outs, want, rr.after);
        if rr.diverged {
            eprintln!("MACHINERY: replay diverged");
            std::process::exit(2);
        }
    }
    if let Err((kind, detail)) = judge(&cfg, &want, &r) {
        tally.fail("c13.schedule", &kind, vec![], detail, case.clone());
    }
}
