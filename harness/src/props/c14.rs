//! C14 — hostile but well-formed object graphs end in an error, not a crash.
use crate::core::*;
use crate::isolate::*;
use crate::pdfgen::crypt::*;
use crate::pdfgen::docs::*;
use crate::pdfgen::file::*;
use crate::pdfgen::val::*;
use crate::walker::{Config, CONFIGS};
use rayon::prelude::*;
use serde_json::{json, Value};

#[derive(Clone, Debug, PartialEq)]
pub enum PathElem {
    Key(Vec<u8>),
    Index(usize),
}
pub type Path = Vec<PathElem>;

fn path_s(p: &Path) -> String {
    p.iter()
        .map(|e| match e {
            PathElem::Key(k) => format!("/{}", String::from_utf8_lossy(k)),
            PathElem::Index(i) => format!("[{}]", i),
        })
        .collect()
}
/// a position-free description of the field: keys only, indices collapsed
fn field_s(p: &Path) -> String {
    p.iter()
        .filter_map(|e| match e {
            PathElem::Key(k) => Some(format!("/{}", String::from_utf8_lossy(k))),
            PathElem::Index(_) => None,
        })
        .collect::<Vec<_>>()
        .join("")
}

fn collect(v: &Val, path: &mut Path, refs: &mut Vec<Path>, ints: &mut Vec<Path>) {
    match v {
        Val::Ref(..) => refs.push(path.clone()),
        Val::Int(_) => ints.push(path.clone()),
        Val::Array(a) => {
            for (i, e) in a.iter().enumerate() {
                path.push(PathElem::Index(i));
                collect(e, path, refs, ints);
                path.pop();
            }
        }
        Val::Dict(d) | Val::Stream(d, _) => {
            for (k, e) in d {
                path.push(PathElem::Key(k.clone()));
                collect(e, path, refs, ints);
                path.pop();
            }
        }
        _ => {}
    }
}
/// every value position of an object, the object's whole value (empty path) included
fn collect_positions(v: &Val, path: &mut Path, out: &mut Vec<Path>) {
    out.push(path.clone());
    match v {
        Val::Array(a) => {
            for (i, e) in a.iter().enumerate() {
                path.push(PathElem::Index(i));
                collect_positions(e, path, out);
                path.pop();
            }
        }
        Val::Dict(d) | Val::Stream(d, _) => {
            for (k, e) in d {
                path.push(PathElem::Key(k.clone()));
                collect_positions(e, path, out);
                path.pop();
            }
        }
        _ => {}
    }
}
fn get_at<'a>(v: &'a Val, path: &[PathElem]) -> Option<&'a Val> {
    if path.is_empty() {
        return Some(v);
    }
    match (&path[0], v) {
        (PathElem::Index(i), Val::Array(a)) => a.get(*i).and_then(|e| get_at(e, &path[1..])),
        (PathElem::Key(k), Val::Dict(d)) | (PathElem::Key(k), Val::Stream(d, _)) => d.iter().find(|(kk, _)| kk == k).and_then(|(_, e)| get_at(e, &path[1..])),
        _ => None,
    }
}
/// object numbers the indirection faults add to the document
const SELF_REF_OBJ: u64 = 900; // `900 0 obj 900 0 R endobj`
const CYCLE_A: u64 = 901; // 901 -> 902 -> 901
const CYCLE_B: u64 = 902;
const EXTERNALISED: u64 = 903; // holds the value that used to be direct
fn set_at(v: &mut Val, path: &[PathElem], new: Val) {
    if path.is_empty() {
        *v = new;
        return;
    }
    match (&path[0], v) {
        (PathElem::Index(i), Val::Array(a)) => set_at(&mut a[*i], &path[1..], new),
        (PathElem::Key(k), Val::Dict(d)) | (PathElem::Key(k), Val::Stream(d, _)) => {
            let e = d.iter_mut().find(|(kk, _)| kk == k).unwrap();
            set_at(&mut e.1, &path[1..], new)
        }
        _ => panic!("path"),
    }
}

#[derive(Clone, Debug)]
pub struct Mutation {
    pub obj: u64,
    pub path: Path,
    pub new: Val,
    pub label: String,
}

pub const BASES: &[&str] = &["hostile-classic", "hostile-xrefstream+objstm", "hostile-encrypted-rc4", "hostile-encrypted-aes256"];

pub fn assemble(base: usize, objs: &[(u64, Val)], trailer_mut: Option<&(String, Val)>) -> (Vec<u8>, Vec<u8>) {
    match base {
        0 | 1 => {
            let opts = if base == 0 { DocOpts::CLASSIC } else { DocOpts::STREAM };
            let mut bytes = rich_doc_with(b"", opts, objs);
            if let Some((k, v)) = trailer_mut {
                // trailer-level numbers are patched textually in the last trailer / xref stream dictionary
                let pat = format!("/{} ", k);
                if let Some(pos) = crate::refread::RefDoc::open(&bytes).ok().and_then(|_| find_last(&bytes, pat.as_bytes())) {
                    let start = pos + pat.len();
                    let mut end = start;
                    while end < bytes.len() && (bytes[end].is_ascii_digit() || bytes[end] == b'-') {
                        end += 1;
                    }
                    let mut nb = bytes[..start].to_vec();
                    nb.extend_from_slice(&print(v));
                    nb.extend_from_slice(&bytes[end..]);
                    bytes = nb;
                }
            }
            (bytes, vec![])
        }
        _ => {
            let id0 = b"0123456789abcdef".to_vec();
            let variant = if base == 2 { Variant::R3(16) } else { Variant::R6 };
            let sec = Security::new(variant, b"user", b"owner", -4, &id0, true);
            let mut fb = FileBuilder::new(b"");
            let crypt = |n: u64, g: u16, d: &[u8]| sec.encrypt(n, g, d);
            fb.crypt = Some(&crypt);
            fb.no_crypt = vec![90];
            for (nr, v) in objs {
                if *nr != 90 {
                    fb.add(*nr, 0, v);
                }
            }
            // the encryption dictionary may be mutated too (it is object 90 in the list when present)
            let encd = objs.iter().find(|(n, _)| *n == 90).map(|(_, v)| v.clone()).unwrap_or_else(|| sec.dict());
            fb.add(90, 0, &encd);
            fb.finish_table(&[("Root", Val::r(1)), ("Info", Val::r(37)), ("Encrypt", Val::r(90)), ("ID", Val::Array(vec![Val::Str(id0.clone()), Val::Str(id0.clone())]))], Split::Runs);
            (fb.bytes(), b"user".to_vec())
        }
    }
}
/// byte-level text patch of a generated file (never through a lossy string conversion: the files contain binary data);
/// a pattern that is not there is a harness bug and must be loud
fn patch(buf: &[u8], from: &[u8], to: &[u8]) -> Vec<u8> {
    let p = buf.windows(from.len()).position(|w| w == from).unwrap_or_else(|| panic!("C14 special: pattern `{}` not found in the generated file", String::from_utf8_lossy(from)));
    let mut nb = buf[..p].to_vec();
    nb.extend_from_slice(to);
    nb.extend_from_slice(&buf[p + from.len()..]);
    nb
}
fn find_last(buf: &[u8], pat: &[u8]) -> Option<usize> {
    (0..=buf.len().saturating_sub(pat.len())).rev().find(|&i| &buf[i..i + pat.len()] == pat)
}

pub fn base_objects(base: usize) -> Vec<(u64, Val)> {
    let mut o = hostile_objects();
    if base >= 2 {
        let id0 = b"0123456789abcdef".to_vec();
        let variant = if base == 2 { Variant::R3(16) } else { Variant::R6 };
        let sec = Security::new(variant, b"user", b"owner", -4, &id0, true);
        o.push((90, sec.dict()));
    }
    o
}

fn apply(objs: &[(u64, Val)], muts: &[Mutation]) -> Vec<(u64, Val)> {
    let mut o = objs.to_vec();
    for m in muts {
        let e = o.iter_mut().find(|(n, _)| *n == m.obj).unwrap();
        let old = get_at(&e.1, &m.path).cloned();
        // a stream cannot be a direct value: at the top level only the dictionary of a stream is replaced
        set_at(&mut e.1, &m.path, m.new.clone());
        match m.new {
            Val::Ref(SELF_REF_OBJ, _) => o.push((SELF_REF_OBJ, Val::Ref(SELF_REF_OBJ, 0))),
            Val::Ref(CYCLE_A, _) => {
                o.push((CYCLE_A, Val::Ref(CYCLE_B, 0)));
                o.push((CYCLE_B, Val::Ref(CYCLE_A, 0)));
            }
            Val::Ref(EXTERNALISED, _) => o.push((EXTERNALISED, old.unwrap_or(Val::Null))),
            _ => {}
        }
    }
    o.sort_by_key(|(n, _)| *n);
    o.dedup_by_key(|(n, _)| *n);
    o
}

fn boundary_numbers() -> Vec<(&'static str, Val)> {
    vec![("-1", Val::Int(-1)), ("0", Val::Int(0)), ("1", Val::Int(1)), ("2", Val::Int(2)), ("3", Val::Int(3)), ("16", Val::Int(16)), ("2^31-1", Val::Int(2147483647)), ("2^32-1", Val::Int(4294967295)), ("2^64-1", Val::Real("18446744073709551615".into())), ("-2^31", Val::Int(-2147483648)), ("65536", Val::Int(65536))]
}

fn run_case(base: usize, objs: &[(u64, Val)], muts: &[Mutation], t: &mut Tally, engine: &str, replay: Value) {
    let mutated = apply(objs, muts);
    let (bytes, pw) = assemble(base, &mutated, None);
    judge_bytes(base, &bytes, &pw, muts.iter().map(|m| m.label.clone()).collect(), t, engine, replay);
}

pub fn judge_bytes(base: usize, bytes: &[u8], pw: &[u8], labels: Vec<String>, t: &mut Tally, engine: &str, replay: Value) {
    // an encrypted document is also opened with a password that is neither the user's nor the owner's (the owner
    // check is a code path of its own): a value or an error, like every other call
    if !pw.is_empty() {
        let cfg = CONFIGS[0];
        t.evaluations += 1;
        t.distinct.insert(fnv_mix(fnv(bytes), 77));
        let v = walk_isolated(bytes, b"neither user nor owner", cfg, true, true);
        t.outcome(&v.class());
        if let Some((kind, detail)) = v.failure() {
            let mut devs = labels.clone();
            devs.push(format!("base={}", BASES[base]));
            devs.push("password=wrong".into());
            let mut r = replay.clone();
            r["config"] = json!(cfg.name());
            r["wrong_password"] = json!(true);
            t.fail(engine, &kind, devs, format!("{} [{}, wrong password] {}: {}", BASES[base], cfg.name(), labels.join(" + "), truncate(&detail, 300)), r);
        }
    }
    for cfg in CONFIGS {
        t.evaluations += 1;
        t.distinct.insert(fnv_mix(fnv(bytes), cfg.tolerant as u64 * 2 + cfg.cached as u64));
        let v = walk_isolated(bytes, pw, cfg, true, true);
        t.outcome(&v.class());
        if let Some((kind, detail)) = v.failure() {
            let mut devs = labels.clone();
            if base != 0 {
                devs.push(format!("base={}", BASES[base]));
            }
            if cfg != CONFIGS[0] {
                devs.push(format!("config={}", cfg.name()));
            }
            let mut r = replay.clone();
            r["config"] = json!(cfg.name());
            t.fail(engine, &kind, devs, format!("{} [{}] {}: {}", BASES[base], cfg.name(), labels.join(" + "), truncate(&detail, 300)), r);
        }
    }
}

/// special structures that are not reachable by re-wiring one field of the base document
pub fn special_cases() -> Vec<(String, Vec<u8>)> {
    let mut v: Vec<(String, Vec<u8>)> = vec![];
    let (cat, pages) = minimal_catalog();
    let basic = |fb: &mut FileBuilder| {
        fb.add(1, 0, &cat);
        fb.add(2, 0, &pages);
    };
    // /Prev loops
    for (name, prev) in [("prev->own-section", 0i64), ("prev->beyond-eof", 1 << 40), ("prev->negative", -1), ("prev->mid-object", 20)] {
        let mut fb = FileBuilder::new(b"");
        basic(&mut fb);
        fb.finish_table(&[("Root", Val::r(1))], Split::Runs);
        let first = fb.prev_xref.unwrap();
        fb.add(3, 0, &Val::Int(3));
        fb.prev_xref = Some(if prev == 0 { fb.out.len() - fb.header_pos + 11 } else { prev as usize });
        let _ = first;
        fb.finish_table(&[("Root", Val::r(1))], Split::Runs);
        v.push((name.to_string(), fb.bytes()));
    }
    {
        // two sections pointing at each other
        let mut fb = FileBuilder::new(b"");
        basic(&mut fb);
        fb.finish_table(&[("Root", Val::r(1))], Split::Runs);
        let first = fb.prev_xref.unwrap();
        fb.add(3, 0, &Val::Int(3));
        fb.finish_table(&[("Root", Val::r(1))], Split::Runs);
        let second = fb.prev_xref.unwrap();
        let mut bytes = fb.bytes();
        // patch the first trailer to point at the second section
        let pat = b"trailer\n<< /Size 3 /Root";
        if let Some(p) = bytes.windows(pat.len()).position(|w| w == pat) {
            let ins = format!("trailer\n<< /Prev {} /Size 3 /Root", second);
            let mut nb = bytes[..p].to_vec();
            nb.extend_from_slice(ins.as_bytes());
            nb.extend_from_slice(&bytes[p + pat.len()..]);
            // offsets after the patch moved: startxref of the last section is found from the end, so fix it
            let delta = ins.len() - pat.len();
            bytes = patch(&nb, format!("startxref\n{}\n%%EOF\n", second).as_bytes(), format!("startxref\n{}\n%%EOF\n", second + delta).as_bytes());
        }
        let _ = first;
        v.push(("prev-mutual".into(), bytes));
    }
    // nesting depth 20 / 21 / 10000 of arrays and of dictionaries
    for depth in [20usize, 21, 400, 10000, 200000] {
        for kind in 0..2 {
            let mut fb = FileBuilder::new(b"");
            basic(&mut fb);
            let mut body = vec![];
            for _ in 0..depth {
                body.extend_from_slice(if kind == 0 { b"[" } else { b"<</A " });
            }
            body.extend_from_slice(b"7");
            for _ in 0..depth {
                body.extend_from_slice(if kind == 0 { b"]" } else { b">>" });
            }
            fb.add_raw(3, 0, &body);
            fb.finish_table(&[("Root", Val::r(1))], Split::Runs);
            v.push((format!("nesting-{}-{}", if kind == 0 { "arrays" } else { "dicts" }, depth), fb.bytes()));
        }
    }
    // literal strings: many line continuations, deep parenthesis nesting, many escapes
    for (name, body) in [
        ("string-continuations-400000", { let mut b = b"(".to_vec(); for _ in 0..400_000 { b.extend_from_slice(b"\\\n"); } b.push(b')'); b }),
        ("string-continuations-crlf-200000", { let mut b = b"(".to_vec(); for _ in 0..200_000 { b.extend_from_slice(b"\\\r\n"); } b.push(b')'); b }),
        ("string-nesting-400000", { let mut b = vec![b'('; 400_001]; b.extend(std::iter::repeat(b')').take(400_001)); b }),
        ("string-escapes-400000", { let mut b = b"(".to_vec(); for _ in 0..400_000 { b.extend_from_slice(b"\\("); } b.push(b')'); b }),
        ("hexstring-whitespace-400000", { let mut b = b"<".to_vec(); for _ in 0..400_000 { b.extend_from_slice(b" \n"); } b.extend_from_slice(b"41>"); b }),
        ("comment-lines-400000", { let mut b = vec![]; for _ in 0..400_000 { b.extend_from_slice(b"%\n"); } b.extend_from_slice(b"7"); b }),
    ] {
        let mut fb = FileBuilder::new(b"");
        basic(&mut fb);
        fb.add_raw(3, 0, &body);
        fb.finish_table(&[("Root", Val::r(1))], Split::Runs);
        v.push((name.to_string(), fb.bytes()));
    }
    // object stream containing itself / extending itself / containing the xref stream / absurd N, First
    for (name, n, first, extends, member_self) in [("objstm-extends-itself", 1i64, -1i64, Some(8u64), false), ("objstm-member-is-itself", 1, -1, None, true), ("objstm-N-huge", 2147483647, -1, None, false), ("objstm-N-negative", -1, -1, None, false), ("objstm-First-huge", 1, 2147483647, None, false), ("objstm-First-negative", 1, -5, None, false), ("objstm-N-2^64", -2, -1, None, false)] {
        let mut fb = FileBuilder::new(b"");
        basic(&mut fb);
        let data = b"5 0\n<< /In 1 >>".to_vec();
        let mut d = vec![("Type", Val::name("ObjStm")), ("N", if n == -2 { Val::Real("18446744073709551615".into()) } else { Val::Int(n) }), ("First", Val::Int(if first == -1 { 4 } else { first }))];
        if let Some(e) = extends {
            d.push(("Extends", Val::r(e)));
        }
        fb.add(8, 0, &Val::stream(d, data));
        fb.section.insert(5, Entry::Compressed { stm: 8, idx: 0 });
        if member_self {
            fb.section.insert(8, Entry::Compressed { stm: 8, idx: 0 });
        }
        fb.size = 9;
        fb.finish_stream(&[("Root", Val::r(1))], &XrefStreamOpts::new(9));
        v.push((name.to_string(), fb.bytes()));
    }
    // xref stream geometry
    for (name, w, index, size) in [
        ("xref-W-zero", vec![0i64, 0, 0], None, None),
        ("xref-W-9", vec![1, 9, 1], None, None),
        ("xref-W-negative", vec![1, -1, 1], None, None),
        ("xref-W-huge", vec![1, 2147483647, 1], None, None),
        ("xref-W-short", vec![1, 2], None, None),
        ("xref-Index-huge", vec![1, 2, 1], Some(vec![0i64, 2147483647]), None),
        ("xref-Index-negative", vec![1, 2, 1], Some(vec![-1, 5]), None),
        ("xref-Index-odd", vec![1, 2, 1], Some(vec![0, 5, 7]), None),
        ("xref-Size-negative", vec![1, 2, 1], None, Some(-1i64)),
        ("xref-Size-huge", vec![1, 2, 1], None, Some(2147483647)),
        ("xref-Size-999999", vec![1, 2, 1], None, Some(999_999)),
        ("xref-Size-0", vec![1, 2, 1], None, Some(0)),
    ] {
        let mut fb = FileBuilder::new(b"");
        basic(&mut fb);
        let mut o = XrefStreamOpts::new(3);
        o.w = Some([1, 2, 1]);
        fb.finish_stream(&[("Root", Val::r(1))], &o);
        let bytes = fb.bytes();
        let mut s2 = patch(&bytes, b"/W [1 2 1]", format!("/W [{}]", w.iter().map(|x| x.to_string()).collect::<Vec<_>>().join(" ")).as_bytes());
        if let Some(ix) = index {
            s2 = patch(&s2, b"/W [", format!("/Index [{}] /W [", ix.iter().map(|x| x.to_string()).collect::<Vec<_>>().join(" ")).as_bytes());
        }
        if let Some(sz) = size {
            s2 = patch(&s2, b"/Size 4", format!("/Size {}", sz).as_bytes());
        }
        // keep startxref pointing at the stream object (text before it is unchanged)
        v.push((name.to_string(), s2));
    }
    // xref stream field widths: the full product over {0,1,2,3,4,8,9} with and without a huge /Index count
    for w0 in [0usize, 1, 2, 3, 4, 8, 9] {
        for w1 in [0usize, 1, 2, 3, 4, 8, 9] {
            for w2 in [0usize, 1, 2, 3, 4, 8, 9] {
                for huge_index in [false, true] {
                    let mut fb = FileBuilder::new(b"");
                    basic(&mut fb);
                    let mut o = XrefStreamOpts::new(3);
                    o.w = Some([1, 2, 1]);
                    fb.finish_stream(&[("Root", Val::r(1))], &o);
                    let mut s2 = patch(&fb.bytes(), b"/W [1 2 1]", format!("/W [{} {} {}]", w0, w1, w2).as_bytes());
                    if huge_index {
                        s2 = patch(&s2, b"/W [", b"/Index [0 2147483647] /W [");
                    }
                    v.push((format!("xref-W-{}-{}-{}{}", w0, w1, w2, if huge_index { "-Index-huge" } else { "" }), s2));
                }
            }
        }
    }
    // 8-byte offsets near 2^64 in an xref stream, with and without bytes before the header (offsets are header-relative)
    for prefix in [&b""[..], &b"junk before the header\n"[..]] {
        for (name, off) in [("2^64-1", u64::MAX), ("2^63", 1u64 << 63), ("2^63-1", (1u64 << 63) - 1)] {
            let mut fb = FileBuilder::new(prefix);
            basic(&mut fb);
            fb.add(3, 0, &Val::Int(3));
            let mut o = XrefStreamOpts::new(4);
            o.w = Some([1, 8, 2]);
            fb.finish_stream(&[("Root", Val::r(1))], &o);
            let mut bytes = fb.bytes();
            // patch the entry of object 3: find its 8-byte offset field by value
            if let Ok(doc) = crate::refread::RefDoc::open(&bytes) {
                if let Some(crate::refread::XEntry::InUse { off: o3, .. }) = doc.xref.get(&3) {
                    let pat = (*o3 as u64).to_be_bytes();
                    if let Some(p) = find_last(&bytes, &pat) {
                        bytes[p..p + 8].copy_from_slice(&off.to_be_bytes());
                    }
                }
            }
            v.push((format!("xref-offset-{}{}", name, if prefix.is_empty() { "" } else { "-prefixed" }), bytes));
        }
    }
    // object stream header numbers near the integer limits
    for (name, first, pair) in [("objstm-First-2^63-1", "9223372036854775807", "5 0"), ("objstm-offset-2^63-1", "4", "5 9223372036854775807"), ("objstm-offset-2^64-1", "4", "5 18446744073709551615"), ("objstm-First+offset-overflow", "9223372036854775800", "5 9223372036854775800")] {
        let mut fb = FileBuilder::new(b"");
        basic(&mut fb);
        let data = format!("{}\n<< /In 1 >>", pair).into_bytes();
        fb.add_raw(8, 0, format!("<< /Type /ObjStm /N 1 /First {} /Length {} >>\nstream\n{}\nendstream", first, data.len(), String::from_utf8_lossy(&data)).as_bytes());
        fb.section.insert(5, Entry::Compressed { stm: 8, idx: 0 });
        fb.size = 9;
        fb.finish_stream(&[("Root", Val::r(1))], &XrefStreamOpts::new(9));
        v.push((name.to_string(), fb.bytes()));
    }
    // object stream offset tables: every pair of member offsets over a boundary set (ascending, equal, descending, at and beyond the
    // end of the data), both members referenced from the cross-reference stream
    {
        let m0 = b"<< /In 1 >>";
        let m1 = b"42";
        let body_len = m0.len() + 1 + m1.len(); // 14
        for a in [0usize, 3, 11, 12, 13, 14, 15, 1000] {
            for b in [0usize, 3, 11, 12, 13, 14, 15, 1000] {
                let mut fb = FileBuilder::new(b"");
                basic(&mut fb);
                let header = format!("5 {} 6 {} ", a, b);
                let mut data = header.clone().into_bytes();
                data.extend_from_slice(m0);
                data.push(b' ');
                data.extend_from_slice(m1);
                let _ = body_len;
                fb.add_raw(8, 0, format!("<< /Type /ObjStm /N 2 /First {} /Length {} >>\nstream\n{}\nendstream", header.len(), data.len(), String::from_utf8_lossy(&data)).as_bytes());
                fb.section.insert(5, Entry::Compressed { stm: 8, idx: 0 });
                fb.section.insert(6, Entry::Compressed { stm: 8, idx: 1 });
                fb.size = 9;
                fb.finish_stream(&[("Root", Val::r(1))], &XrefStreamOpts::new(9));
                v.push((format!("objstm-offsets-{}-{}", a, b), fb.bytes()));
            }
        }
    }
    // a long chain of /Parent references (each load nests in the previous one) that ends in an object of the wrong kind / a
    // missing object / a cycle: failures must not be retried once per level (exponential work)
    for (name, depth, end) in [("parent-chain-24-ends-in-wrong-type", 24usize, 0), ("parent-chain-24-ends-in-missing-object", 24, 1), ("parent-chain-40-ends-in-cycle", 40, 2), ("parent-chain-60-fine", 60, 3), ("parent-chain-2000-fine", 2000, 3), ("parent-chain-20000-fine", 20000, 3), ("parent-chain-200000-fine", 200000, 3), ("parent-chain-20000-ends-in-cycle", 20000, 2)] {
        let mut fb = FileBuilder::new(b"");
        fb.add(1, 0, &cat);
        let first = 10u64;
        let last = first + depth as u64 - 1;
        fb.add(2, 0, &Val::dict(vec![("Type", Val::name("Pages")), ("Kids", Val::Array(vec![Val::r(3)])), ("Count", Val::Int(1))]));
        fb.add(3, 0, &Val::dict(vec![("Type", Val::name("Page")), ("Parent", Val::r(last)), ("MediaBox", Val::ints(&[0, 0, 10, 10]))]));
        for n in first..=last {
            let parent = if n == first {
                match end {
                    0 => Val::r(4),
                    1 => Val::r(999),
                    2 => Val::r(last),
                    _ => Val::r(2),
                }
            } else {
                Val::r(n - 1)
            };
            fb.add(n, 0, &Val::dict(vec![("Type", Val::name("Pages")), ("Parent", parent), ("Kids", Val::Array(vec![])), ("Count", Val::Int(0))]));
        }
        fb.add(4, 0, &Val::Int(4));
        fb.finish_table(&[("Root", Val::r(1))], Split::Runs);
        v.push((name.to_string(), fb.bytes()));
    }
    // the same chain, every /Parent reached through an object that is nothing but a reference to the node
    for depth in [40usize, 20000] {
        let mut fb = FileBuilder::new(b"");
        fb.add(1, 0, &cat);
        fb.add(2, 0, &Val::dict(vec![("Type", Val::name("Pages")), ("Kids", Val::Array(vec![Val::r(3)])), ("Count", Val::Int(1))]));
        let first = 10u64;
        // node k is object first+2k, the reference-only object in front of it is first+2k+1
        let last_alias = first + 2 * (depth as u64 - 1) + 1;
        fb.add(3, 0, &Val::dict(vec![("Type", Val::name("Page")), ("Parent", Val::r(last_alias)), ("MediaBox", Val::ints(&[0, 0, 10, 10]))]));
        for k in 0..depth as u64 {
            let node = first + 2 * k;
            let parent = if k == 0 { Val::r(2) } else { Val::r(node - 1) };
            fb.add(node, 0, &Val::dict(vec![("Type", Val::name("Pages")), ("Parent", parent), ("Kids", Val::Array(vec![])), ("Count", Val::Int(0))]));
            fb.add(node + 1, 0, &Val::r(node));
        }
        fb.finish_table(&[("Root", Val::r(1))], Split::Runs);
        v.push((format!("parent-chain-{}-through-reference-only-objects", depth), fb.bytes()));
    }
    // page tree whose subtree counts add up beyond 32 bits
    {
        let mut fb = FileBuilder::new(b"");
        fb.add(1, 0, &cat);
        fb.add(2, 0, &Val::dict(vec![("Type", Val::name("Pages")), ("Kids", Val::Array(vec![Val::r(4), Val::r(5), Val::r(6), Val::r(3)])), ("Count", Val::Int(2147483647))]));
        fb.add(3, 0, &Val::dict(vec![("Type", Val::name("Page")), ("Parent", Val::r(2)), ("MediaBox", Val::ints(&[0, 0, 10, 10]))]));
        for nr in [4u64, 5, 6] {
            fb.add(nr, 0, &Val::dict(vec![("Type", Val::name("Pages")), ("Parent", Val::r(2)), ("Kids", Val::Array(vec![])), ("Count", Val::Int(2147483647))]));
        }
        fb.finish_table(&[("Root", Val::r(1))], Split::Runs);
        v.push(("page-tree-counts-overflow-u32".into(), fb.bytes()));
    }
    // page trees that are DAGs: every node lists the same next node several times and overstates its /Count, the last
    // level holds no page; a look-up that does not give up at the first empty branch visits fanout^levels nodes
    for (fanout, levels) in [(2usize, 8usize), (2, 15), (4, 7), (8, 14), (8, 15), (40, 15)] {
        for leaf_count in [1i64, 0] {
            let mut fb = FileBuilder::new(b"");
            fb.add(1, 0, &Val::dict(vec![("Type", Val::name("Catalog")), ("Pages", Val::r(2))]));
            for l in 0..levels {
                let nr = 2 + l as u64;
                let mut d = vec![("Type", Val::name("Pages")), ("Count", Val::Int(if l + 1 == levels { leaf_count } else { 1 }))];
                if l > 0 {
                    d.push(("Parent", Val::r(nr - 1)));
                } else {
                    d.push(("MediaBox", Val::ints(&[0, 0, 9, 9])));
                }
                d.push(("Kids", Val::Array(if l + 1 == levels { vec![] } else { vec![Val::r(nr + 1); fanout] })));
                fb.add(nr, 0, &Val::dict(d));
            }
            fb.finish_table(&[("Root", Val::r(1))], Split::Runs);
            v.push((format!("page-tree-dag-fanout-{}-levels-{}-last-count-{}", fanout, levels, leaf_count), fb.bytes()));
        }
    }
    // classic table oddities
    for (name, from, to) in [("table-count-huge", "0 3\n", "0 4294967295\n"), ("table-start-huge", "0 3\n", "4294967295 3\n"), ("table-offset-huge", "0000000009 00000 n", "9999999999 00000 n"), ("trailer-Size-negative", "/Size 3", "/Size -1"), ("trailer-Size-2^64", "/Size 3", "/Size 18446744073709551615"), ("trailer-Root-self", "/Root 1 0 R", "/Root 2 0 R"), ("startxref-huge", "startxref\n", "startxref\n99999999999999999999")] {
        let mut fb = FileBuilder::new(b"");
        basic(&mut fb);
        fb.finish_table(&[("Root", Val::r(1))], Split::Runs);
        let bytes = fb.bytes();
        if name == "table-offset-huge" {
            // the first in-use entry, whatever its offset is
            let p = bytes.windows(8).position(|w| w == b" 00000 n").expect("in-use entry");
            let mut nb = bytes.clone();
            nb[p - 10..p].copy_from_slice(b"9999999999");
            v.push((name.to_string(), nb));
            continue;
        }
        v.push((name.to_string(), patch(&bytes, from.as_bytes(), to.as_bytes())));
    }
    // predictor geometry over stream data that does not end on a row boundary (content stream and image)
    {
        use crate::pdfgen::filters as pf;
        for pred in [2i64, 10, 12, 15] {
            for colors in [1usize, 3] {
                for bpc in [1usize, 2, 4, 8, 16] {
                    for columns in [1usize, 5] {
                        let rb = pf::row_bytes(colors, bpc, columns);
                        let prow = if pred >= 10 { rb + 1 } else { rb };
                        for (cname, len) in [("rows", 3 * prow), ("one-short", 3 * prow - 1), ("one-into-last-row", 2 * prow + 1)] {
                            if cname == "one-into-last-row" && prow == 2 {
                                continue;
                            }
                            let plain: Vec<u8> = (0..len).map(|i| if pred >= 10 && i % prow == 0 { (i / prow % 5) as u8 } else { (i * 37 + 11) as u8 }).collect();
                            let parms = Val::dict(vec![("Predictor", Val::Int(pred)), ("Colors", Val::Int(colors as i64)), ("BitsPerComponent", Val::Int(bpc as i64)), ("Columns", Val::Int(columns as i64))]);
                            for lzw in [false, true] {
                                let enc = if lzw { pf::lzw_encode(&plain, true, 0) } else { pf::flate_encode(&plain, pf::FlateStyle::ZlibDefault) };
                                let filter = Val::name(if lzw { "LZWDecode" } else { "FlateDecode" });
                                let mut fb = FileBuilder::new(b"");
                                fb.add(1, 0, &cat);
                                fb.add(2, 0, &Val::dict(vec![("Type", Val::name("Pages")), ("Kids", Val::Array(vec![Val::r(3)])), ("Count", Val::Int(1)), ("MediaBox", Val::ints(&[0, 0, 9, 9]))]));
                                fb.add(3, 0, &Val::dict(vec![("Type", Val::name("Page")), ("Parent", Val::r(2)), ("Resources", Val::dict(vec![("XObject", Val::dict(vec![("Im", Val::r(5))]))])), ("Contents", Val::r(4))]));
                                fb.add(4, 0, &Val::stream(vec![("Filter", filter.clone()), ("DecodeParms", parms.clone())], enc.clone()));
                                fb.add(5, 0, &Val::stream(vec![("Type", Val::name("XObject")), ("Subtype", Val::name("Image")), ("Width", Val::Int(columns as i64)), ("Height", Val::Int(3)), ("ColorSpace", Val::name(if colors == 1 { "DeviceGray" } else { "DeviceRGB" })), ("BitsPerComponent", Val::Int(bpc as i64)), ("Filter", filter), ("DecodeParms", parms.clone())], enc));
                                fb.finish_table(&[("Root", Val::r(1))], Split::Runs);
                                v.push((format!("predictor-{}-colors-{}-bpc-{}-columns-{}-{}-{}", pred, colors, bpc, columns, cname, if lzw { "lzw" } else { "flate" }), fb.bytes()));
                            }
                        }
                    }
                }
            }
        }
    }
    // group 4 fax images whose /Width and /Columns agree on a value the decoder's 16-bit line width cannot hold (or on 0),
    // over data that really decodes (two all-white rows), and row counts beyond 16 bits
    for (name, width, rows, k) in [("zero", 0i64, 2i64, -1i64), ("65536", 65536, 2, -1), ("65544", 65544, 2, -1), ("2^32-1", 4294967295, 2, -1), ("8-rows-65537", 8, 65537, -1), ("8-rows-0", 8, 0, -1), ("8-K-0", 8, 2, 0), ("8-K-1", 8, 2, 1), ("65535", 65535, 2, -1)] {
        let mut objs = hostile_objects();
        let e = objs.iter_mut().find(|(n, _)| *n == 67).unwrap();
        e.1.set("Width", Val::Int(width));
        e.1.set("DecodeParms", Val::dict(vec![("K", Val::Int(k)), ("Columns", Val::Int(width)), ("Rows", Val::Int(rows))]));
        v.push((format!("ccitt-width-and-columns-{}", name), rich_doc_with(b"", DocOpts::CLASSIC, &objs)));
    }
    // content streams whose operators each look ahead: many inline images that never end, many unbalanced brackets
    for (name, unit, times) in [("BI-ID-without-EI", &b"BI ID "[..], 100_000usize), ("BI-without-ID", &b"BI /W 1 "[..], 100_000), ("open-array", &b"[ "[..], 200_000), ("open-dict", &b"<< /A "[..], 100_000), ("BT-nested", &b"BT q "[..], 100_000), ("open-string", &b"( "[..], 200_000), ("BI-ID-EI-tiny", &b"BI /W 1 /H 1 /BPC 8 /CS /G ID x EI "[..], 20_000)] {
        let mut fb = FileBuilder::new(b"");
        fb.add(1, 0, &cat);
        fb.add(2, 0, &Val::dict(vec![("Type", Val::name("Pages")), ("Kids", Val::Array(vec![Val::r(3)])), ("Count", Val::Int(1)), ("MediaBox", Val::ints(&[0, 0, 9, 9]))]));
        fb.add(3, 0, &Val::dict(vec![("Type", Val::name("Page")), ("Parent", Val::r(2)), ("Resources", Val::dict(vec![])), ("Contents", Val::r(4))]));
        fb.add(4, 0, &Val::stream(vec![], unit.repeat(times)));
        fb.finish_table(&[("Root", Val::r(1))], Split::Runs);
        v.push((format!("content-{}-x{}", name, times), fb.bytes()));
    }
    // a stream whose /Length leads through an object that is nothing but a reference: to an integer (fine), back to the
    // stream itself, to a second stream whose length takes the same way
    for (name, target) in [("to-an-integer", 6u64), ("back-to-the-stream", 4), ("to-a-second-stream-with-the-same-length-object", 7)] {
        let mut fb = FileBuilder::new(b"");
        fb.add(1, 0, &cat);
        fb.add(2, 0, &Val::dict(vec![("Type", Val::name("Pages")), ("Kids", Val::Array(vec![Val::r(3)])), ("Count", Val::Int(1)), ("MediaBox", Val::ints(&[0, 0, 9, 9]))]));
        fb.add(3, 0, &Val::dict(vec![("Type", Val::name("Page")), ("Parent", Val::r(2)), ("Resources", Val::dict(vec![])), ("Contents", Val::r(4))]));
        fb.add(4, 0, &Val::stream(vec![("Length", Val::r(5))], b"q Q".to_vec()));
        fb.add(5, 0, &Val::r(target));
        fb.add(6, 0, &Val::Int(3));
        fb.add(7, 0, &Val::stream(vec![("Length", Val::r(5))], b"abc".to_vec()));
        fb.finish_table(&[("Root", Val::r(1))], Split::Runs);
        v.push((format!("stream-length-through-reference-only-object-{}", name), fb.bytes()));
    }
    // rings of colour spaces through every kind that has an alternate or a base
    for (name, edits) in [
        ("devicen-is-its-own-alternate", vec![(85u64, 2usize, 85u64)]),
        ("separation-devicen-ring", vec![(86, 2, 85)]),
        ("indexed-base-ring", vec![(87, 1, 85)]),
        ("separation-is-its-own-alternate", vec![(86, 2, 86)]),
    ] {
        let mut objs = hostile_objects();
        for (nr, idx, target) in edits {
            let e = objs.iter_mut().find(|(n, _)| *n == nr).unwrap();
            if let Val::Array(a) = &mut e.1 {
                a[idx] = Val::r(target);
            }
        }
        v.push((format!("colour-space-{}", name), rich_doc_with(b"", DocOpts::CLASSIC, &objs)));
    }
    // encrypted documents (AES-256, revision 6) whose key strings have other lengths than the handler expects; they are
    // walked without a password here, so the check of the owner password runs
    for key in ["U", "O", "UE", "OE", "Perms"] {
        for (lname, f) in [("fivefold", 5usize), ("doubled", 2)] {
            let mut objs = base_objects(3);
            if let Some(e) = objs.iter_mut().find(|(n, _)| *n == 90) {
                if let Some(Val::Str(b)) = e.1.get(key).cloned() {
                    e.1.set(key, Val::Str(b.iter().cycle().take(b.len() * f).cloned().collect()));
                    v.push((format!("aes256-{}-{}", key, lname), assemble(3, &objs, None).0));
                }
            }
        }
    }
    // PostScript calculator operands
    for (name, prog) in [("ps-roll-negative", "{ 1 2 3 3 -1 roll }"), ("ps-roll-huge", "{ 1 2 3 3 2147483647 roll }"), ("ps-roll-n-huge", "{ 1 2 2147483647 1 roll }"), ("ps-index-huge", "{ 1 2147483647 index }"), ("ps-index-negative", "{ 1 -1 index }"), ("ps-pop-empty", "{ pop pop pop }"), ("ps-deep", "{ dup dup dup dup dup dup dup dup dup dup dup dup dup dup dup dup dup dup dup dup }"), ("ps-unbalanced", "{ { 1 }"), ("ps-empty", "")] {
        let mut objs = hostile_objects();
        let e = objs.iter_mut().find(|(n, _)| *n == 62).unwrap();
        if let Val::Stream(_, data) = &mut e.1 {
            *data = prog.as_bytes().to_vec();
        }
        v.push((name.to_string(), rich_doc_with(b"", DocOpts::CLASSIC, &objs)));
    }
    v
}

pub fn run(tier: Tier, _seed: u64, tally: &mut Tally) -> CheckMeta {
    let nbases = 4;
    let mut n_ref_fields = 0;
    let mut n_int_fields = 0;
    let mut n_positions = 0;
    let mut n_strings = 0;
    for base in 0..nbases {
        let objs = base_objects(base);
        // unmutated base must walk cleanly
        // (same engine name as the mutations so that a failure of the base subsumes the failures of everything derived from it)
        run_case(base, &objs, &[], tally, "c14.mutation", json!({"engine": "c14.base", "base": base}));
        let all_nrs: Vec<u64> = objs.iter().map(|(n, _)| *n).collect();
        // single re-wirings: every reference occurrence -> every object of the document, a free number, a number beyond /Size
        let mut muts: Vec<Mutation> = vec![];
        for (nr, v) in &objs {
            let (mut refs, mut ints) = (vec![], vec![]);
            collect(v, &mut vec![], &mut refs, &mut ints);
            n_ref_fields += refs.len();
            n_int_fields += ints.len();
            for p in &refs {
                let mut targets: Vec<u64> = all_nrs.clone();
                targets.push(22); // undefined number inside the table
                targets.push(0);
                targets.push(5000); // beyond /Size
                if base != 0 && !tier.thorough() {
                    // the full target set on the first base; on the others: itself, the objects its own object refers to, catalog, pages, page
                    targets = vec![*nr, 1, 2, 3, 22, 5000];
                    let (mut rs, mut is) = (vec![], vec![]);
                    collect(v, &mut vec![], &mut rs, &mut is);
                }
                for tgt in targets {
                    muts.push(Mutation { obj: *nr, path: p.clone(), new: Val::Ref(tgt, 0), label: format!("rewire:{}{}->{}", obj_kind(*nr), field_s(p), target_kind(*nr, tgt)) });
                }
            }
            for p in &ints {
                for (name, val) in boundary_numbers() {
                    muts.push(Mutation { obj: *nr, path: p.clone(), new: val.clone(), label: format!("number:{}{}={}", obj_kind(*nr), field_s(p), name) });
                }
            }
            // string lengths: every string value emptied, halved and doubled (key material of the encryption dictionary, dates,
            // text strings, palettes of indexed colour spaces)
            {
                let mut positions = vec![];
                collect_positions(v, &mut vec![], &mut positions);
                for p in &positions {
                    if let Some(Val::Str(bytes)) = get_at(v, p) {
                        n_strings += 1;
                        let mut doubled = bytes.clone();
                        doubled.extend_from_slice(bytes);
                        let fivefold: Vec<u8> = bytes.iter().cycle().take(bytes.len() * 5).cloned().collect();
                        let mut padded = bytes.clone();
                        padded.resize(bytes.len().max(127), 0);
                        for (name, nv) in [("empty", vec![]), ("halved", bytes[..bytes.len() / 2].to_vec()), ("doubled", doubled), ("fivefold", fivefold), ("zero-padded-to-127", padded)] {
                            if &nv != bytes {
                                muts.push(Mutation { obj: *nr, path: p.clone(), new: Val::Str(nv), label: format!("string:{}{}={}", obj_kind(*nr), field_s(p), name) });
                            }
                        }
                    }
                }
            }
            // indirection faults: every value position (the whole object included) replaced by a reference to an object that is
            // nothing but a reference to itself, to a two-object reference cycle, to the containing object, or to a new object
            // holding the old value (a legal spelling of the same document)
            if base == 0 || tier.thorough() {
                let mut positions = vec![];
                collect_positions(v, &mut vec![], &mut positions);
                n_positions += positions.len();
                for p in &positions {
                    let is_stream_top = p.is_empty() && matches!(v, Val::Stream(..));
                    if is_stream_top {
                        continue;
                    }
                    for (tgt, name) in [(SELF_REF_OBJ, "self-referencing-object"), (CYCLE_A, "reference-cycle"), (*nr, "containing-object"), (EXTERNALISED, "externalised")] {
                        if p.is_empty() && tgt == EXTERNALISED {
                            continue;
                        }
                        if matches!(get_at(v, p), Some(Val::Stream(..))) {
                            continue;
                        }
                        muts.push(Mutation { obj: *nr, path: p.clone(), new: Val::Ref(tgt, 0), label: format!("indirect:{}{}->{}", obj_kind(*nr), field_s(p), name) });
                    }
                }
            }
        }
        let parts: Vec<Tally> = muts
            .par_iter()
            .enumerate()
            .map(|(_, m)| {
                let mut t = Tally::new();
                run_case(base, &objs, std::slice::from_ref(m), &mut t, "c14.mutation", json!({"engine": "c14.mutation", "base": base, "obj": m.obj, "path": path_s(&m.path), "new": String::from_utf8_lossy(&print(&m.new))}));
                t
            })
            .collect();
        for p in parts {
            tally.merge(p);
        }
        // pairs of re-wirings inside the structural fragments (page tree, name/number trees, outlines, fonts, fields)
        if base == 0 {
            let fragments: Vec<Vec<u64>> = vec![vec![1, 2, 3, 4], vec![20, 21, 24, 69], vec![72, 73, 1], vec![23, 25, 26], vec![12, 13, 14, 15], vec![32, 74, 1], vec![5, 62, 63, 64, 65, 35], vec![16, 75, 67], vec![30, 4, 34]];
            let mut pairs: Vec<(Mutation, Mutation)> = vec![];
            for frag in &fragments {
                let mut fm: Vec<Mutation> = vec![];
                for (nr, v) in objs.iter().filter(|(n, _)| frag.contains(n)) {
                    let (mut refs, mut ints) = (vec![], vec![]);
                    collect(v, &mut vec![], &mut refs, &mut ints);
                    for p in &refs {
                        for &tgt in frag.iter().chain([22u64].iter()) {
                            fm.push(Mutation { obj: *nr, path: p.clone(), new: Val::Ref(tgt, 0), label: format!("rewire:{}{}->{}", obj_kind(*nr), field_s(p), target_kind(*nr, tgt)) });
                        }
                    }
                    if tier.thorough() {
                        for p in &ints {
                            for (name, val) in [("-1", Val::Int(-1)), ("2^31-1", Val::Int(2147483647))] {
                                fm.push(Mutation { obj: *nr, path: p.clone(), new: val.clone(), label: format!("number:{}{}={}", obj_kind(*nr), field_s(p), name) });
                            }
                        }
                    }
                }
                for i in 0..fm.len() {
                    for j in i + 1..fm.len() {
                        if fm[i].obj == fm[j].obj && fm[i].path == fm[j].path {
                            continue;
                        }
                        pairs.push((fm[i].clone(), fm[j].clone()));
                    }
                }
            }
            let cap = if tier.thorough() { 400_000 } else { 25_000 };
            if pairs.len() > cap {
                tally.caps_hit.push(format!("c14.pair: {} pairs, only the first {} explored", pairs.len(), cap));
                pairs.truncate(cap);
            }
            let parts: Vec<Tally> = pairs
                .par_iter()
                .map(|(a, b)| {
                    let mut t = Tally::new();
                    run_case(base, &objs, &[a.clone(), b.clone()], &mut t, "c14.mutation", json!({"engine": "c14.mutation", "base": base, "muts": [{"obj": a.obj, "path": path_s(&a.path), "new": String::from_utf8_lossy(&print(&a.new))}, {"obj": b.obj, "path": path_s(&b.path), "new": String::from_utf8_lossy(&print(&b.new))}]}));
                    t
                })
                .collect();
            for p in parts {
                tally.merge(p);
            }
        }
    }
    // special structures
    let specials = special_cases();
    let parts: Vec<Tally> = specials
        .par_iter()
        .map(|(name, bytes)| {
            let mut t = Tally::new();
            judge_bytes(0, bytes, b"", vec![format!("special:{}", name)], &mut t, "c14.special", json!({"engine": "c14.special", "name": name}));
            t
        })
        .collect();
    for p in parts {
        tally.merge(p);
    }
    tally.notes.push(format!("{} crashes or missed deadlines did not reproduce when the same input was walked again in a fresh worker process; they are not counted", crate::isolate::TRANSIENT.load(std::sync::atomic::Ordering::Relaxed)));
    tally.states = tally.evaluations;
    tally.transitions = tally.evaluations;
    tally.validated = tally.evaluations;
    tally.sample(json!({"engine": "c14.mutation", "base": "hostile-classic", "mutation": "rewire:NameTreeNode/Kids->self (object 21 /Kids [21 0 R])"}));
    tally.sample(json!({"engine": "c14.mutation", "mutation": "number:CIDFont/W=2^31-1"}));
    tally.sample(json!({"engine": "c14.special", "name": "objstm-extends-itself"}));
    CheckMeta {
        prop: "C14",
        level: "fault_enumeration",
        rule: format!("base documents {:?} (rich document + indirect /Length, functions of types 0/2/4, Separation/DeviceN/nested Indexed/ICC colour spaces, CCITT image, soft mask, embedded-files name tree, number tree with kids, field hierarchy); single faults: every one of {} reference occurrences re-pointed at every object of the document, an undefined number, 0 and a number beyond /Size, and every one of {} integer occurrences set to each of {{-1, 0, 1, 2, 3, 16, 2^31-1, 2^32-1, 2^64-1, -2^31, 65536}}; every one of {} string values emptied / halved / doubled; indirection faults: every one of {} value positions (whole objects included) replaced by a reference to a self-referencing object, a two-object reference cycle, the containing object, or a new object holding the old value; double faults: all pairs of re-wirings inside 9 structural fragments; {} special structures (/Prev loops, nesting 20..200000, literal strings with 400000 line continuations / nested parentheses / escapes, hex strings and comments of that size, object streams containing/extending themselves, xref stream /W (full product over 7 widths) /Index /Size, 8-byte offsets near 2^64 with and without a prefix, object stream header numbers near 2^63 and every pair of member offsets over 8 boundary values, page-tree counts summing beyond 2^32, /Parent chains of 24..60 levels ending in a wrong type / missing object / cycle, classic table boundary values, PostScript roll/index/copy operands). Every case x {{strict, tolerant}} x {{cached, uncached}} is walked completely (C01 walker incl. scan and function application) in a worker process: no panic, no crash (stack overflow, abort, OOM under a 3 GiB address-space limit), no call exceeding 10 s. Distinct by file hash x configuration.", &BASES[..nbases], n_ref_fields, n_int_fields, n_strings, n_positions, specials.len()),
        assumptions: vec!["time and memory proportionality is decided only against fixed generous thresholds (10 s, 3 GiB) - three orders of magnitude above the normal cost of these ~10 KB documents".into()],
        exhaustive: true,
        bounds: json!({"faults": 2}),
    }
}

fn obj_kind(nr: u64) -> &'static str {
    match nr {
        1 => "Catalog",
        2 => "Pages",
        3 | 4 => "Page",
        5 => "Resources",
        6 | 7 | 8 => "Content",
        9 => "SimpleFont",
        10 => "Encoding",
        11 | 15 => "ToUnicode",
        12 => "Type0Font",
        13 => "CIDFont",
        14 => "FontDescriptor",
        16 | 18 | 67 | 75 => "Image",
        17 => "Form",
        19 => "FontFile",
        20 => "NameDict",
        21 | 24 | 69 => "NameTreeNode",
        23 => "Outlines",
        25 | 26 => "OutlineItem",
        30 => "Annot",
        32 | 74 => "Field",
        33 => "Metadata",
        34 => "PieceInfo",
        35 => "ICCStream",
        36 => "Pattern",
        37 => "Info",
        60 | 61 => "IndirectLength",
        62 | 63 | 64 | 65 => "Function",
        70 | 71 => "FileSpec",
        72 | 73 => "NumberTreeNode",
        90 => "Encrypt",
        _ => "Other",
    }
}
fn target_kind(from: u64, to: u64) -> String {
    if to == from {
        "self".into()
    } else if to == 22 || to == 0 {
        "undefined".into()
    } else if to == 5000 {
        "beyond-size".into()
    } else {
        obj_kind(to).to_string()
    }
}

pub fn replay(case: &Value, tally: &mut Tally) {
    let engine = case["engine"].as_str().unwrap_or("");
    let base = case["base"].as_u64().unwrap_or(0) as usize;
    let parse_mut = |m: &Value, objs: &[(u64, Val)]| -> Option<Mutation> {
        let obj = m["obj"].as_u64()?;
        let want = m["path"].as_str()?;
        let v = &objs.iter().find(|(n, _)| *n == obj)?.1;
        let mut positions = vec![];
        collect_positions(v, &mut vec![], &mut positions);
        let path = positions.into_iter().find(|p| path_s(p) == want)?;
        let text = m["new"].as_str()?;
        let mut t = crate::refread::Tokenizer::new(text.as_bytes(), 0);
        let new = t.object(0).ok()?;
        Some(Mutation { obj, path, new, label: format!("{} {} = {}", obj, want, text) })
    };
    let cfgs: Vec<Config> = CONFIGS.iter().cloned().filter(|c| case["config"].as_str().map(|n| n == c.name()).unwrap_or(true)).collect();
    let bytes_pw: Option<(Vec<u8>, Vec<u8>, Vec<String>)> = match engine {
        "c14.special" => special_cases().into_iter().find(|(n, _)| Some(n.as_str()) == case["name"].as_str()).map(|(n, b)| (b, vec![], vec![n])),
        "c14.mutation" if case.get("muts").is_none() => {
            let objs = base_objects(base);
            parse_mut(case, &objs).map(|m| {
                let (b, pw) = assemble(base, &apply(&objs, std::slice::from_ref(&m)), None);
                (b, pw, vec![m.label])
            })
        }
        "c14.mutation" => {
            let objs = base_objects(base);
            let ms: Vec<Mutation> = case["muts"].as_array().map(|a| a.iter().filter_map(|m| parse_mut(m, &objs)).collect()).unwrap_or_default();
            let (b, pw) = assemble(base, &apply(&objs, &ms), None);
            Some((b, pw, ms.iter().map(|m| m.label.clone()).collect()))
        }
        _ => {
            let objs = base_objects(base);
            let (b, pw) = assemble(base, &objs, None);
            Some((b, pw, vec![]))
        }
    };
    let Some((bytes, pw, labels)) = bytes_pw else {
        println!("cannot reconstruct the case");
        return;
    };
    println!("case: {:?} ({} bytes)", labels, bytes.len());
    for cfg in cfgs {
        let v = walk_isolated(&bytes, &pw, cfg, true, true);
        println!("  {} -> {:?}", cfg.name(), v);
        if let Some((kind, detail)) = v.failure() {
            tally.fail(engine, &kind, vec![], detail, case.clone());
        }
    }
}
