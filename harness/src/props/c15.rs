//! C15 — typed objects round-trip through their dictionary form without losing entries.
use crate::common::*;
use crate::core::*;
use crate::explore::*;
use crate::pdfgen::val::*;
use crate::props::c04::{prim_eq, val_to_prim};
use pdf::file::FileOptions;
use pdf::object::*;
use pdf::primitive::{Dictionary, Primitive};
use serde_json::{json, Value};
use std::sync::OnceLock;

pub struct Field {
    pub key: &'static str,
    /// alternatives; None = key absent. Index 0 is the canonical choice.
    pub alts: Vec<Option<Val>>,
    /// value the reader assumes when the key is absent (writer may omit or add it)
    pub default: Option<Val>,
}
pub struct Model {
    pub name: &'static str,
    pub catch_all: bool,
    pub fields: Vec<Field>,
    pub extra_keys: bool,
    pub run: fn(&Primitive) -> RoundTrip,
    /// C18: load object 4 of a file as this model and write it back (Err: "<stage>:<variant> field=<name>")
    pub load_file: fn(Vec<u8>, bool) -> std::result::Result<Primitive, String>,
    /// non-dictionary models: the alternatives are whole values
    pub whole_values: Vec<Val>,
}
pub enum RoundTrip {
    Rejected(String),
    WriteFailed(String),
    RereadFailed(String, Primitive),
    Done { p1: Primitive, p2: Primitive },
}

fn deep(p: &Primitive, r: &impl Resolve, depth: usize) -> Primitive {
    match p {
        Primitive::Reference(rf) if depth > 0 => match r.resolve(*rf) {
            Ok(q) => deep(&q, r, depth - 1),
            Err(_) => p.clone(),
        },
        Primitive::Array(a) => Primitive::Array(a.iter().map(|x| deep(x, r, depth)).collect()),
        Primitive::Dictionary(d) => {
            let mut n = Dictionary::new();
            for (k, v) in d.iter() {
                n.insert(k.as_str(), deep(v, r, depth));
            }
            Primitive::Dictionary(n)
        }
        other => other.clone(),
    }
}

fn roundtrip<T: Object + ObjectWrite>(p0: &Primitive) -> RoundTrip {
    let mut storage = FileOptions::uncached().storage();
    let t1 = match T::from_primitive(p0.clone(), &storage.resolver()) {
        Ok(t) => t,
        Err(e) => return RoundTrip::Rejected(format!("{}: {}", err_variant(&e), truncate(&format!("{}", err_root(&e)), 120))),
    };
    let p1 = match t1.to_primitive(&mut storage) {
        Ok(p) => p,
        Err(e) => return RoundTrip::WriteFailed(format!("{}: {}", err_variant(&e), truncate(&format!("{}", err_root(&e)), 120))),
    };
    let t2 = match T::from_primitive(p1.clone(), &storage.resolver()) {
        Ok(t) => t,
        Err(e) => return RoundTrip::RereadFailed(format!("{}: {}", err_variant(&e), truncate(&format!("{}", err_root(&e)), 120)), deep(&p1, &storage.resolver(), 4)),
    };
    let p2 = match t2.to_primitive(&mut storage) {
        Ok(p) => p,
        Err(e) => return RoundTrip::WriteFailed(format!("second write {}: {}", err_variant(&e), truncate(&format!("{}", err_root(&e)), 120))),
    };
    let r = storage.resolver();
    RoundTrip::Done { p1: deep(&p1, &r, 4), p2: deep(&p2, &r, 4) }
}

fn load_in_file<T: Object + ObjectWrite>(bytes: Vec<u8>, tolerant: bool) -> std::result::Result<Primitive, String> {
    let po = if tolerant { ParseOptions::tolerant() } else { ParseOptions::strict() };
    let file = FileOptions::uncached().parse_options(po).load(bytes).map_err(|e| format!("load:{}", err_variant(&e)))?;
    let r = file.resolver();
    let p = r.resolve(PlainRef { id: 4, gen: 0 }).map_err(|e| format!("resolve:{}", err_variant(&e)))?;
    let t = T::from_primitive(p, &r).map_err(|e| {
        let field = match err_root(&e) {
            pdf::error::PdfError::FromPrimitive { field, .. } => field.to_string(),
            pdf::error::PdfError::MissingEntry { field, .. } => field.clone(),
            _ => String::new(),
        };
        format!("typed-load:{} field={}", err_variant(&e), field)
    })?;
    let mut storage = FileOptions::uncached().storage();
    let p1 = t.to_primitive(&mut storage).map_err(|e| format!("write:{}", err_variant(&e)))?;
    let out = deep(&p1, &storage.resolver(), 4);
    Ok(out)
}

fn opt(key: &'static str, vals: Vec<Val>) -> Field {
    let mut alts = vec![None];
    alts.extend(vals.into_iter().map(Some));
    Field { key, alts, default: None }
}
fn req(key: &'static str, vals: Vec<Val>) -> Field {
    Field { key, alts: vals.into_iter().map(Some).collect(), default: None }
}
fn dflt(key: &'static str, default: Val, others: Vec<Val>) -> Field {
    let mut alts = vec![None, Some(default.clone())];
    alts.extend(others.into_iter().map(Some));
    Field { key, alts, default: Some(default) }
}
fn s(x: &str) -> Val {
    Val::str(x)
}
fn n(x: &str) -> Val {
    Val::name(x)
}
fn i(x: i64) -> Val {
    Val::Int(x)
}
fn rl(x: &str) -> Val {
    Val::real(x)
}
fn rect() -> Val {
    Val::Array(vec![i(0), rl("0.5"), i(100), i(200)])
}
fn date() -> Val {
    s("D:20240229235958+01'30'")
}

pub fn models() -> &'static Vec<Model> {
    static M: OnceLock<Vec<Model>> = OnceLock::new();
    M.get_or_init(|| {
        let mut m: Vec<Model> = vec![];
        macro_rules! model {
            ($name:expr, $t:ty, $catch:expr, $fields:expr) => {
                m.push(Model { name: $name, catch_all: $catch, fields: $fields, extra_keys: true, run: roundtrip::<$t>, load_file: load_in_file::<$t>, whole_values: vec![] })
            };
        }
        macro_rules! whole {
            ($name:expr, $t:ty, $vals:expr) => {
                m.push(Model { name: $name, catch_all: false, fields: vec![], extra_keys: false, run: roundtrip::<$t>, load_file: load_in_file::<$t>, whole_values: $vals })
            };
        }
        use pdf::content::Matrix;
        use pdf::enc::*;
        use pdf::font::*;
        use pdf::primitive::Date;
        model!("InfoDict", InfoDict, false, vec![opt("Title", vec![s("T"), Val::Str(vec![0xfe, 0xff, 0, 65])]), opt("Author", vec![s("A")]), opt("Subject", vec![s("S")]), opt("Keywords", vec![s("k")]), opt("Creator", vec![s("C")]), opt("Producer", vec![s("P")]), opt("CreationDate", vec![date(), s("D:1999")]), opt("ModDate", vec![s("D:20001231000000Z"), s("D:20240101120000-08'00'")]), opt("Trapped", vec![n("True"), n("False"), n("Unknown")])]);
        model!("PageLabel", PageLabel, false, vec![opt("S", vec![n("D"), n("r"), n("R"), n("a"), n("A")]), opt("P", vec![s("pre-")]), opt("St", vec![i(1), i(7)])]);
        model!("Outlines", Outlines, false, vec![dflt("Count", i(0), vec![i(3), i(-2)]), opt("First", vec![Val::r(7)]), opt("Last", vec![Val::r(9)]), opt("Type", vec![n("Outlines")])]);
        model!(
            "Annot",
            Annot,
            true,
            vec![req("Subtype", vec![n("Link"), n("Text")]), opt("Rect", vec![rect(), Val::Array(vec![rl("-2147483649.0"), i(0), rl("99999999999.0"), i(1)])]), opt("Contents", vec![s("note")]), opt("NM", vec![s("id-1")]), opt("M", vec![date()]), dflt("F", i(0), vec![i(4)]), opt("AS", vec![n("On")]), opt("Border", vec![Val::ints(&[0, 0, 1])]), opt("C", vec![Val::Array(vec![i(1), rl("0.5"), i(0)]), Val::Array(vec![]), Val::Array(vec![Val::Null, i(1)])]), opt("InkList", vec![Val::Array(vec![Val::ints(&[1, 2, 3, 4])])]), opt("Type", vec![n("Annot")])]
        );
        model!(
            "FieldDictionary",
            FieldDictionary,
            true,
            vec![opt("FT", vec![n("Btn"), n("Tx"), n("Ch"), n("Sig")]), opt("Parent", vec![Val::r(5)]), opt("Kids", vec![Val::Array(vec![]), Val::Array(vec![Val::r(6), Val::r(7)])]), opt("T", vec![s("name")]), opt("TU", vec![s("alt")]), opt("TM", vec![s("map")]), dflt("Ff", i(0), vec![i(65536)]), dflt("SigFlags", i(0), vec![i(3)]), opt("V", vec![s("value"), n("Off"), i(3)]), opt("DV", vec![s("dv")]), opt("Rect", vec![rect()]), opt("MaxLen", vec![i(10)]), opt("Subtype", vec![n("Widget")]), opt("AA", vec![Val::dict(vec![("K", Val::dict(vec![("S", n("JavaScript"))]))])])]
        );
        model!("InteractiveFormDictionary", InteractiveFormDictionary, false, vec![req("Fields", vec![Val::Array(vec![])]), dflt("NeedAppearances", Val::Bool(false), vec![Val::Bool(true)]), dflt("SigFlags", i(0), vec![i(1)]), opt("DA", vec![s("/F1 10 Tf")]), opt("Q", vec![i(1)]), opt("XFA", vec![Val::Array(vec![s("x"), Val::r(4)])])]);
        model!("LZWFlateParams", LZWFlateParams, false, vec![dflt("Predictor", i(1), vec![i(12), i(2)]), dflt("Colors", i(1), vec![i(3)]), dflt("BitsPerComponent", i(8), vec![i(1), i(16)]), dflt("Columns", i(1), vec![i(640)]), dflt("EarlyChange", i(1), vec![i(0)])]);
        model!("DCTDecodeParams", DCTDecodeParams, false, vec![opt("ColorTransform", vec![i(0), i(1)])]);
        model!(
            "CCITTFaxDecodeParams",
            CCITTFaxDecodeParams,
            false,
            vec![dflt("K", i(0), vec![i(-1), i(4)]), dflt("EndOfLine", Val::Bool(false), vec![Val::Bool(true)]), dflt("EncodedByteAlign", Val::Bool(false), vec![Val::Bool(true)]), dflt("Columns", i(1728), vec![i(8)]), dflt("Rows", i(0), vec![i(100)]), dflt("EndOfBlock", Val::Bool(true), vec![Val::Bool(false)]), dflt("BlackIs1", Val::Bool(false), vec![Val::Bool(true)]), dflt("DamagedRowsBeforeError", i(0), vec![i(2)])]
        );
        let fd_fields = || {
            vec![
                req("FontName", vec![n("ABCDEF+Font"), n("A Font")]),
                opt("FontFamily", vec![s("Fam")]),
                opt("FontStretch", vec![n("Normal"), n("UltraCondensed"), n("ExtraExpanded")]),
                opt("FontWeight", vec![i(400), rl("700.5")]),
                req("Flags", vec![i(32), i(4)]),
                req("FontBBox", vec![rect()]),
                req("ItalicAngle", vec![i(0), rl("-12.5")]),
                opt("Ascent", vec![i(900)]),
                opt("Descent", vec![i(-200)]),
                dflt("Leading", i(0), vec![i(20)]),
                opt("CapHeight", vec![i(700)]),
                dflt("XHeight", i(0), vec![i(500)]),
                dflt("StemV", i(0), vec![i(80)]),
                dflt("StemH", i(0), vec![i(30)]),
                dflt("AvgWidth", i(0), vec![i(400)]),
                dflt("MaxWidth", i(0), vec![i(1000)]),
                dflt("MissingWidth", i(0), vec![i(250)]),
                opt("CharSet", vec![s("/a/b")]),
            ]
        };
        model!("FontDescriptor", FontDescriptor, false, fd_fields());
        let fd_val = Val::dict(vec![("FontName", n("F")), ("Flags", i(4)), ("FontBBox", rect()), ("ItalicAngle", i(0))]);
        model!("TFont", TFont, false, vec![opt("BaseFont", vec![n("Helvetica")]), opt("FirstChar", vec![i(32)]), opt("LastChar", vec![i(33)]), opt("Widths", vec![Val::Array(vec![i(278), rl("333.5")]), Val::Array(vec![])]), opt("FontDescriptor", vec![fd_val.clone()])]);
        model!(
            "CIDFont",
            CIDFont,
            true,
            vec![req("CIDSystemInfo", vec![Val::dict(vec![("Registry", s("Adobe")), ("Ordering", s("Identity")), ("Supplement", i(0))])]), req("FontDescriptor", vec![fd_val.clone()]), dflt("DW", i(1000), vec![i(500), rl("4294967296.0"), rl("0.5")]), opt("W", vec![Val::Array(vec![i(1), Val::Array(vec![i(500), i(600)]), i(10), i(12), i(700)])]), opt("CIDToGIDMap", vec![n("Identity")]), opt("BaseFont", vec![n("F")]), opt("Subtype", vec![n("CIDFontType2")])]
        );
        model!(
            "Font",
            Font,
            false,
            vec![
                req("Type", vec![n("Font")]),
                req("Subtype", vec![n("Type1"), n("TrueType")]),
                req("BaseFont", vec![n("Helvetica"), n("ABCDEF+X")]),
                opt("FirstChar", vec![i(32)]),
                opt("LastChar", vec![i(33)]),
                opt("Widths", vec![Val::Array(vec![i(278), i(333)])]),
                opt("Encoding", vec![n("WinAnsiEncoding"), Val::dict(vec![("BaseEncoding", n("MacRomanEncoding")), ("Differences", Val::Array(vec![i(32), n("space"), n("exclam"), i(200), n("Euro")]))]), Val::dict(vec![("Differences", Val::Array(vec![i(1), n("one")]))]), Val::dict(vec![("Differences", Val::Array(vec![i(253), n("yacute"), n("thorn"), n("ydieresis")]))])]),
                opt("FontDescriptor", vec![fd_val.clone()]),
            ]
        );
        whole!("Encoding", pdf::encoding::Encoding, vec![n("StandardEncoding"), n("WinAnsiEncoding"), n("MacRomanEncoding"), n("MacExpertEncoding"), n("Identity-H"), Val::dict(vec![("BaseEncoding", n("WinAnsiEncoding")), ("Differences", Val::Array(vec![i(65), n("A"), n("B"), i(70), n("F")]))]), Val::dict(vec![("Differences", Val::Array(vec![i(0), n("zero")]))]), Val::dict(vec![("Differences", Val::Array(vec![i(39), n("quotesingle"), i(253), n("yacute"), n("thorn"), n("ydieresis")]))]), Val::dict(vec![("Differences", Val::Array(vec![i(255), n("ydieresis")]))]), Val::dict(vec![("BaseEncoding", n("MacRomanEncoding")), ("Differences", Val::Array(vec![i(0), n("a"), i(127), n("b"), n("c"), i(254), n("d"), n("e")]))]), Val::dict(vec![("Differences", Val::Array(std::iter::once(i(0)).chain((0..256).map(|c| Val::Name(format!("g{}", c).into_bytes()))).collect()))])]);
        model!(
            "GraphicsStateParameters",
            GraphicsStateParameters,
            true,
            vec![opt("LW", vec![i(2), rl("0.5"), rl("4294967296.0"), rl("-0.001")]), opt("LC", vec![i(0), i(1), i(2)]), opt("LJ", vec![i(0), i(1), i(2)]), opt("ML", vec![i(10), rl("-3000000000.0"), rl("16777217.0")]), opt("D", vec![Val::Array(vec![Val::ints(&[3, 1]), i(0)]), Val::Array(vec![Val::Array(vec![]), i(0)]), Val::Array(vec![Val::ints(&[3, 1]), Val::Null, i(0)]), Val::Array(vec![])]), opt("RI", vec![n("Perceptual")]), opt("OP", vec![Val::Bool(true)]), opt("op", vec![Val::Bool(false)]), opt("OPM", vec![i(1)]), opt("Font", vec![Val::Array(vec![Val::r(9), i(12)])]), opt("BM", vec![n("Multiply"), Val::Array(vec![n("Screen"), n("Normal")])]), opt("SMask", vec![n("None")]), opt("CA", vec![rl("0.5"), rl("1e10".replace("1e10", "10000000000.0").as_str())]), opt("ca", vec![i(1)]), opt("AIS", vec![Val::Bool(true)]), opt("TK", vec![Val::Bool(false)]), opt("Type", vec![n("ExtGState")])]
        );
        model!("Resources", Resources, true, vec![opt("ExtGState", vec![Val::dict(vec![("GS1", Val::dict(vec![("LW", i(1))]))])]), opt("ColorSpace", vec![]), opt("Pattern", vec![Val::dict(vec![("P1", Val::r(4))])]), opt("XObject", vec![Val::dict(vec![("Im1", Val::r(5))])]), opt("Font", vec![Val::dict(vec![("F1", Val::r(6))])]), opt("Properties", vec![Val::dict(vec![("MC0", Val::dict(vec![("K", i(1))]))])])]);
        model!("PatternDict", PatternDict, true, vec![opt("PaintType", vec![i(1)]), opt("TilingType", vec![i(2)]), req("BBox", vec![rect(), Val::Array(vec![rl("-3000000000.0"), i(0), rl("3000000000.0"), rl("0.25")])]), req("XStep", vec![i(4), rl("4.5"), rl("2147483648.0")]), req("YStep", vec![i(4)]), req("Resources", vec![Val::r(3)]), opt("Matrix", vec![Val::Array(vec![i(1), i(0), i(0), i(1), rl("0.5"), i(0)])])]);
        model!("FormDict", FormDict, true, vec![dflt("FormType", i(1), vec![]), opt("Name", vec![n("Fm")]), opt("LastModified", vec![date()]), req("BBox", vec![rect(), Val::Array(vec![i(0), i(0), rl("4294967296.0"), rl("-2147483649.0")])]), opt("Matrix", vec![Val::ints(&[1, 0, 0, 1, 0, 0]), Val::Array(vec![rl("0.5"), i(0), i(0), rl("3000000000.0"), i(-7), rl("1e-3".replace("1e-3", "0.001").as_str())])]), opt("Group", vec![Val::dict(vec![("S", n("Transparency"))])]), opt("StructParent", vec![i(3)]), opt("StructParents", vec![i(4)]), opt("PieceInfo", vec![Val::dict(vec![("X", Val::dict(vec![]))])]), opt("Metadata", vec![Val::r(8)]), opt("OPI", vec![Val::dict(vec![("1.3", Val::dict(vec![]))])]), req("Subtype", vec![n("Form")]), opt("Resources", vec![Val::dict(vec![("ExtGState", Val::dict(vec![("G", Val::dict(vec![("LW", i(1))]))]))])]), opt("Ref", vec![Val::dict(vec![("F", s("f.pdf"))])]), opt("Type", vec![n("XObject")])]);
        model!(
            "ImageDict",
            ImageDict,
            true,
            vec![req("Width", vec![i(2)]), req("Height", vec![i(3)]), opt("ColorSpace", vec![]), opt("BitsPerComponent", vec![i(8), i(1)]), opt("Intent", vec![n("Perceptual"), n("AbsoluteColorimetric"), n("RelativeColorimetric"), n("Saturation")]), dflt("ImageMask", Val::Bool(false), vec![Val::Bool(true)]), opt("Mask", vec![Val::ints(&[0, 0])]), opt("Decode", vec![Val::ints(&[1, 0]), Val::Array(vec![i(0), rl("0.5")])]), dflt("Interpolate", Val::Bool(false), vec![Val::Bool(true)]), opt("StructParent", vec![i(1)]), opt("ID", vec![s("id")]), opt("SMask", vec![Val::r(4)]), req("Subtype", vec![n("Image")]), opt("Type", vec![n("XObject")])]
        );
        model!("XRefInfo", pdf::xref::XRefInfo, false, vec![req("Size", vec![i(10)]), opt("Index", vec![Val::ints(&[0, 10]), Val::ints(&[3, 2, 8, 1])]), opt("Prev", vec![i(1234)]), req("W", vec![Val::ints(&[1, 2, 1])]), req("Type", vec![n("XRef")])]);
        model!("MarkInformation", MarkInformation, false, vec![dflt("Marked", Val::Bool(false), vec![Val::Bool(true)]), dflt("UserProperties", Val::Bool(false), vec![Val::Bool(true)]), dflt("Suspects", Val::Bool(false), vec![Val::Bool(true)])]);
        model!("EmbeddedFileParamDict", EmbeddedFileParamDict, false, vec![opt("Size", vec![i(5)]), opt("CreationDate", vec![date()]), opt("ModDate", vec![date()]), opt("Mac", vec![date()]), opt("CheckSum", vec![Val::Str(vec![1, 2, 3])])]);
        model!("FileSpec", FileSpec, false, vec![opt("EF", vec![Val::dict(vec![("F", Val::r(4))]), Val::dict(vec![("F", Val::r(4)), ("UF", Val::r(5)), ("DOS", Val::r(6)), ("Mac", Val::r(7)), ("Unix", Val::r(8))])])]);
        model!("CryptFilter", pdf::crypt::CryptFilter, true, vec![dflt("CFM", n("None"), vec![n("V2"), n("AESV2"), n("AESV3")]), dflt("AuthEvent", n("DocOpen"), vec![n("EFOpen")]), opt("Length", vec![i(16)]), opt("Type", vec![n("CryptFilter")])]);
        model!(
            "CryptDict",
            pdf::crypt::CryptDict,
            true,
            vec![req("O", vec![Val::Str(vec![1; 32])]), req("U", vec![Val::Str(vec![2; 32])]), req("R", vec![i(3), i(4)]), req("P", vec![i(-4), i(-3904)]), req("V", vec![i(2), i(4)]), dflt("Length", i(40), vec![i(128)]), opt("CF", vec![Val::dict(vec![("StdCF", Val::dict(vec![("CFM", n("AESV2")), ("Length", i(16))]))])]), opt("StmF", vec![n("StdCF")]), dflt("EncryptMetadata", Val::Bool(true), vec![Val::Bool(false)]), opt("OE", vec![Val::Str(vec![3; 32])]), opt("UE", vec![Val::Str(vec![4; 32])]), opt("Filter", vec![n("Standard")]), opt("StrF", vec![n("StdCF")])]
        );
        model!("StructElem", StructElem, false, vec![req("S", vec![n("P"), n("Figure"), n("CustomType")]), req("P", vec![Val::r(3)]), opt("ID", vec![s("e1")]), opt("Pg", vec![Val::r(4)])]);
        whole!("Date", Date, vec![date(), s("D:19991231235959Z"), s("D:20240101120000-08'00'"), s("D:2024"), s("D:202402")]);
        whole!("Rectangle", Rectangle, vec![rect(), Val::Array(vec![i(-1), i(-2), rl("3.25"), i(2147483647)])]);
        whole!("Matrix", Matrix, vec![Val::ints(&[1, 0, 0, 1, 0, 0]), Val::Array(vec![rl("0.5"), i(-1), i(2), rl("1e0".replace("e0", ".0").as_str()), i(72), rl("720.25")])]);
        whole!("Dest", Dest, vec![Val::Array(vec![Val::r(3), n("Fit")]), Val::Array(vec![Val::r(3), n("XYZ"), i(10), Val::Null, rl("1.5")]), Val::Array(vec![Val::r(3), n("XYZ"), Val::Null, i(20), i(0)]), Val::Array(vec![Val::r(3), n("XYZ"), i(0), i(792), Val::Null]), Val::Array(vec![Val::r(3), n("XYZ"), rl("0.0"), i(0), rl("2.0")]), Val::Array(vec![Val::r(3), n("XYZ"), i(-5), rl("0.5"), i(1)]), Val::Array(vec![Val::r(3), n("FitH"), i(0)]), Val::Array(vec![Val::r(3), n("FitV"), i(0)]), Val::Array(vec![Val::r(3), n("FitR"), i(0), i(0), i(0), i(0)]), Val::Array(vec![Val::r(3), n("FitBH"), i(0)]), Val::Array(vec![Val::r(3), n("FitH"), i(700)]), Val::Array(vec![Val::r(3), n("FitV"), rl("10.5")]), Val::Array(vec![Val::r(3), n("FitR"), i(1), i(2), i(3), i(4)]), Val::Array(vec![Val::r(3), n("FitB")]), Val::Array(vec![Val::r(3), n("FitBH"), i(5)])]);
        whole!("MaybeNamedDest", MaybeNamedDest, vec![s("named"), Val::Array(vec![Val::r(3), n("Fit")])]);
        whole!("Action", Action, vec![Val::dict(vec![("S", n("GoTo")), ("D", s("named"))]), Val::dict(vec![("S", n("GoTo")), ("D", Val::Array(vec![Val::r(3), n("Fit")]))]), Val::dict(vec![("S", n("URI")), ("URI", s("http://x"))])]);
        whole!(
            "NumberTree<PageLabel>",
            NumberTree<PageLabel>,
            vec![
                Val::dict(vec![("Nums", Val::Array(vec![i(0), Val::dict(vec![("S", n("D"))]), i(5), Val::dict(vec![("S", n("r")), ("St", i(2))])]))]),
                Val::dict(vec![("Limits", Val::ints(&[0, 5])), ("Nums", Val::Array(vec![i(0), Val::dict(vec![("P", s("x"))])]))]),
                Val::dict(vec![("Kids", Val::Array(vec![Val::r(4), Val::r(5)]))]),
                Val::dict(vec![("Limits", Val::ints(&[1, 9])), ("Kids", Val::Array(vec![Val::r(4)]))]),
            ]
        );
        whole!("FontType", FontType, vec![n("Type0"), n("Type1"), n("MMType1"), n("Type3"), n("TrueType"), n("CIDFontType0"), n("CIDFontType2")]);
        whole!("BaseEncoding", pdf::encoding::BaseEncoding, vec![n("StandardEncoding"), n("SymbolEncoding"), n("MacRomanEncoding"), n("WinAnsiEncoding"), n("MacExpertEncoding"), n("Identity-H"), n("SomethingElse")]);
        whole!("StructType", StructType, vec![n("Document"), n("P"), n("H1"), n("Table"), n("TD"), n("Figure"), n("UserDefined")]);
        whole!("Counter", Counter, vec![n("D"), n("r"), n("R"), n("a"), n("A")]);
        whole!("FieldType", FieldType, vec![n("Btn"), n("Tx"), n("Ch"), n("Sig"), n("SigRef")]);
        whole!("Trapped", Trapped, vec![n("True"), n("False"), n("Unknown")]);
        whole!("RenderingIntent", RenderingIntent, vec![n("AbsoluteColorimetric"), n("RelativeColorimetric"), n("Saturation"), n("Perceptual")]);
        whole!("LineCap", pdf::object::LineCap, vec![i(0), i(1), i(2)]);
        whole!("LineJoin", pdf::object::LineJoin, vec![i(0), i(1), i(2)]);
        whole!("CidToGidMap", CidToGidMap, vec![n("Identity")]);
        whole!("Vec<i32>", Vec<i32>, vec![Val::ints(&[]), Val::ints(&[1]), Val::ints(&[1, 2])]);
        whole!("Option<Rectangle>", Option<Rectangle>, vec![Val::Null, rect()]);
        whole!("(Ref<Font>, f32)", (Ref<Font>, f32), vec![Val::Array(vec![Val::r(3), rl("9.5")])]);
        whole!("HashMap<Name,i32>", std::collections::HashMap<pdf::primitive::Name, i32>, vec![Val::dict(vec![("A", i(1)), ("B", i(2))]), Val::dict(vec![("Only", i(0))])]);
        m
    })
}

fn model_names() -> &'static [&'static str] {
    static N: OnceLock<Vec<&'static str>> = OnceLock::new();
    N.get_or_init(|| models().iter().map(|m| m.name).collect())
}

const EXTRA: &[&str] = &["none", "one-unknown-key", "two-unknown-keys"];
const NUMSTYLE: &[&str] = &["as-given", "ints-as-reals"];

fn ints_as_reals(v: &Val) -> Val {
    match v {
        Val::Int(i) => Val::Real(format!("{}.0", i)),
        Val::Array(a) => Val::Array(a.iter().map(ints_as_reals).collect()),
        other => other.clone(),
    }
}

/// every entry of `a` is in `b` (recursively; int == real; date strings by the date they denote)
fn subsumed(a: &Primitive, b: &Primitive) -> bool {
    match (a, b) {
        (Primitive::Dictionary(x), Primitive::Dictionary(y)) => x.iter().all(|(k, v)| y.get(k.as_str()).map(|w| subsumed(v, w)).unwrap_or(matches!(v, Primitive::Null))),
        (Primitive::Array(x), Primitive::Array(y)) => x.len() == y.len() && x.iter().zip(y).all(|(p, q)| subsumed(p, q)),
        (Primitive::String(x), Primitive::String(y)) if x.as_bytes().starts_with(b"D:") && y.as_bytes().starts_with(b"D:") => {
            use pdf::primitive::Date;
            match (Date::from_primitive(a.clone(), &NoResolve), Date::from_primitive(b.clone(), &NoResolve)) {
                (Ok(d1), Ok(d2)) => d1 == d2,
                _ => x == y,
            }
        }
        _ => prim_eq(a, b),
    }
}
fn entry_preserved(k: &str, v: &Primitive, p1: &Dictionary, default: Option<&Val>) -> bool {
    match p1.get(k) {
        Some(w) => subsumed(v, w),
        None => match default {
            // an explicit default may be omitted
            Some(d) => prim_eq(v, &val_to_prim(d)),
            None => matches!(v, Primitive::Null),
        },
    }
}

pub fn model_case(ch: &mut Chooser, t: &mut Tally) {
    let ms = models();
    let mi = ch.pick_free_named("model", model_names());
    let m = &ms[mi];
    let p0: Primitive;
    let mut defaults: Vec<(&'static str, Option<Val>)> = vec![];
    if !m.whole_values.is_empty() {
        let wi = ch.pick_free("whole-value", m.whole_values.len());
        p0 = val_to_prim(&m.whole_values[wi]);
    } else {
        let numstyle = ch.pick_named("numbers", NUMSTYLE);
        let mut d: Vec<(Vec<u8>, Val)> = vec![];
        for f in &m.fields {
            let k = if f.alts.len() > 1 { ch.pick("field#", f.alts.len()) } else { 0 };
            defaults.push((f.key, f.default.clone()));
            if let Some(v) = &f.alts[k] {
                // only numeric (f32-typed) fields may be spelled as reals; the table marks them by containing a Real alternative
                let numeric_field = f.alts.iter().flatten().any(|a| matches!(a, Val::Real(_)) || matches!(a, Val::Array(x) if x.iter().any(|e| matches!(e, Val::Real(_)))));
                let v = if numstyle == 1 && numeric_field { ints_as_reals(v) } else { v.clone() };
                d.push((f.key.as_bytes().to_vec(), v));
            }
        }
        let extra = if m.extra_keys { ch.pick_named("extra-keys", EXTRA) } else { 0 };
        if extra >= 1 {
            d.push((b"ZzUnknown".to_vec(), Val::dict(vec![("Deep", Val::Array(vec![i(1), s("x")]))])));
        }
        if extra >= 2 {
            d.push((b"Another Key".to_vec(), n("val")));
        }
        p0 = val_to_prim(&Val::Dict(d));
    }
    t.evaluations += 1;
    t.distinct.insert(fnv_mix(fnv(show_prim(&p0).as_bytes()), mi as u64));
    if ch.want_sample {
        println!("model {} input {}", m.name, show_prim(&p0));
    }
    let res = catch(|| (m.run)(&p0));
    let verdict: std::result::Result<(), (String, String)> = match res {
        Err((loc, msg)) => Err((panic_kind(&loc), format!("{} from {}: {}", m.name, show_prim(&p0), msg))),
        Ok(RoundTrip::Rejected(e)) => Err(("rejects-valid-input".into(), format!("{} rejects {}: {}", m.name, show_prim(&p0), e))),
        Ok(RoundTrip::WriteFailed(e)) => Err(("write-fails".into(), format!("{} read from {} cannot be written: {}", m.name, show_prim(&p0), e))),
        Ok(RoundTrip::RereadFailed(e, p1)) => Err(("written-form-unreadable".into(), format!("{}: {} is written as {} which the reader rejects: {}", m.name, show_prim(&p0), show_prim(&p1), e))),
        Ok(RoundTrip::Done { p1, p2 }) => {
            if !prim_eq(&p1, &p2) {
                Err(("not-idempotent".into(), format!("{}: {} writes {} but re-reading and writing gives {}", m.name, show_prim(&p0), show_prim(&p1), show_prim(&p2))))
            } else if m.catch_all {
                match (&p0, &p1) {
                    (Primitive::Dictionary(d0), Primitive::Dictionary(d1)) => {
                        let mut lost = None;
                        for (k, v) in d0.iter() {
                            let dflt = defaults.iter().find(|(dk, _)| *dk == k.as_str()).and_then(|(_, d)| d.as_ref());
                            if !entry_preserved(k.as_str(), v, d1, dflt) {
                                lost = Some(k.as_str().to_string());
                                break;
                            }
                        }
                        match lost {
                            Some(k) => Err(("entry-lost".into(), format!("{}: entry /{} of {} is not preserved in {}", m.name, k, show_prim(&p0), show_prim(&p1)))),
                            None => Ok(()),
                        }
                    }
                    _ => Err(("not-a-dictionary".into(), show_prim(&p1))),
                }
            } else {
                Ok(())
            }
        }
    };
    match verdict {
        Ok(()) => t.outcome("ok"),
        Err((kind, detail)) => {
            t.outcome(&kind);
            // position-free deviations do not say which field: add the keys that were deviated
            let mut devs: Vec<String> = vec![format!("model={}", m.name)];
            if !m.whole_values.is_empty() {
                devs.push(format!("value={}", ch.trace.get(1).map(|p| p.picked).unwrap_or(0)));
            } else {
                let mut fi = 0;
                for p in ch.trace.iter().skip(1) {
                    if p.label == "field#" {
                        // map the pick back to its field (fields with one alternative have no pick)
                        while m.fields[fi].alts.len() <= 1 {
                            fi += 1;
                        }
                        if p.picked != 0 {
                            devs.push(format!("{}=alt{}", m.fields[fi].key, p.picked));
                        }
                        fi += 1;
                    } else if p.picked != 0 {
                        devs.push(format!("{}={}", p.label, p.picked));
                    }
                }
            }
            t.fail("c15.model", &kind, devs, detail, ch.replay_value("c15.model"));
        }
    }
}

// ------------------------------------------------------------------------------------------------
// typed streams: Stream<()> with a filter chain -> stream dictionary + data -> Stream<()>

#[derive(Clone, Copy, Debug)]
enum F {
    Hex,
    A85,
    Rl,
    Flate,
    FlatePng(i32),
    Lzw(bool),
}
const CHAINS: &[(&str, &[F])] = &[
    ("none", &[]),
    ("AHx", &[F::Hex]),
    ("A85", &[F::A85]),
    ("RL", &[F::Rl]),
    ("Fl", &[F::Flate]),
    ("Fl+png4", &[F::FlatePng(4)]),
    ("LZW:early0", &[F::Lzw(false)]),
    ("LZW:early1", &[F::Lzw(true)]),
    ("A85,Fl", &[F::A85, F::Flate]),
    ("A85,Fl+png4", &[F::A85, F::FlatePng(4)]),
    ("Fl+png1,A85", &[F::FlatePng(1), F::A85]),
    ("AHx,LZW:early0", &[F::Hex, F::Lzw(false)]),
    ("Fl+png1,LZW:early0", &[F::FlatePng(1), F::Lzw(false)]),
    ("AHx,A85,RL", &[F::Hex, F::A85, F::Rl]),
];
fn chain_names() -> &'static [&'static str] {
    static N: OnceLock<Vec<&'static str>> = OnceLock::new();
    N.get_or_init(|| CHAINS.iter().map(|c| c.0).collect())
}
fn lib_filter(f: F) -> pdf::enc::StreamFilter {
    use pdf::enc::{LZWFlateParams, StreamFilter};
    match f {
        F::Hex => StreamFilter::ASCIIHexDecode,
        F::A85 => StreamFilter::ASCII85Decode,
        F::Rl => StreamFilter::RunLengthDecode,
        F::Flate => StreamFilter::FlateDecode(LZWFlateParams::default()),
        F::FlatePng(cols) => StreamFilter::FlateDecode(LZWFlateParams { predictor: 12, columns: cols, ..Default::default() }),
        F::Lzw(early) => StreamFilter::LZWDecode(LZWFlateParams { early_change: early as i32, ..Default::default() }),
    }
}
fn ref_encode(f: F, data: &[u8]) -> Vec<u8> {
    use crate::pdfgen::filters as pf;
    match f {
        F::Hex => pf::hex_encode(data, pf::HexStyle::Upper, true),
        F::A85 => pf::a85_encode(data, pf::A85Style::Plain),
        F::Rl => pf::rl_encode(data, pf::RlStyle::Greedy, true),
        F::Flate => pf::flate_encode(data, pf::FlateStyle::ZlibDefault),
        F::FlatePng(cols) => pf::flate_encode(&pf::png_predict(data, 1, 8, cols as usize, |_| 2), pf::FlateStyle::ZlibDefault),
        F::Lzw(early) => pf::lzw_encode(data, early, 0),
    }
}
const STREAM_DATA: &[&str] = &["8 bytes", "empty", "64 bytes"];
pub fn stream_case(ch: &mut Chooser, t: &mut Tally) {
    use pdf::object::Stream;
    let ci = ch.pick_free_named("chain", chain_names());
    let di = ch.pick_free_named("data", STREAM_DATA);
    let chain = CHAINS[ci].1;
    let plain: Vec<u8> = match di {
        0 => vec![0, 1, 2, 250, 251, 252, 10, 13],
        1 => vec![],
        _ => (0..64u32).map(|i| (i * 37 % 251) as u8).collect(),
    };
    // the first filter of the list is the first to be applied when decoding
    let mut encoded = plain.clone();
    for f in chain.iter().rev() {
        encoded = ref_encode(*f, &encoded);
    }
    t.evaluations += 1;
    t.distinct.insert(fnv_mix(ci as u64, di as u64 + 100));
    let filters: Vec<pdf::enc::StreamFilter> = chain.iter().map(|f| lib_filter(*f)).collect();
    let want_filters = format!("{:?}", filters);
    let res = catch(|| -> std::result::Result<(), (String, String)> {
        let s1 = Stream::from_compressed((), encoded.clone(), filters.clone());
        let p1 = s1.to_pdf_stream(&mut NoUpdate).map_err(|e| ("write-fails".to_string(), format!("{}", err_root(&e))))?;
        let info1 = show_prim(&Primitive::Dictionary(p1.info.clone()));
        let s2 = Stream::<()>::from_stream(p1, &NoResolve).map_err(|e| ("written-form-unreadable".to_string(), format!("{} : {}", info1, err_root(&e))))?;
        let got_filters = format!("{:?}", s2.info.filters);
        if got_filters != want_filters {
            return Err(("filters-differ".into(), format!("filters {} written as {} read back as {}", want_filters, info1, got_filters)));
        }
        match s2.data(&NoResolve) {
            Ok(d) if d[..] == plain[..] => {}
            Ok(d) => return Err(("data-differs".into(), format!("written as {}: data {} expected {}", info1, show_bytes(&d[..d.len().min(40)]), show_bytes(&plain[..plain.len().min(40)])))),
            Err(e) => return Err(("data-unreadable".into(), format!("written as {}: {}", info1, err_root(&e)))),
        }
        let p2 = s2.to_pdf_stream(&mut NoUpdate).map_err(|e| ("write-fails".to_string(), format!("second write: {}", err_root(&e))))?;
        let info2 = show_prim(&Primitive::Dictionary(p2.info.clone()));
        if info1 != info2 {
            return Err(("not-idempotent".into(), format!("{} then {}", info1, info2)));
        }
        Ok(())
    });
    let verdict = match res {
        Err((loc, msg)) => Err((panic_kind(&loc), msg)),
        Ok(v) => v,
    };
    match verdict {
        Ok(()) => t.outcome("ok"),
        Err((kind, detail)) => {
            t.outcome(&kind);
            t.fail("c15.stream", &kind, vec![format!("chain={}", CHAINS[ci].0)], format!("Stream<()> filters [{}] data {}: {}", CHAINS[ci].0, STREAM_DATA[di], detail), ch.replay_value("c15.stream"));
        }
    }
}

/// guard: the keys of the table must be exactly the `#[pdf(key=..)]` attributes of the struct in the sources
pub fn table_guard() -> Vec<String> {
    let mut problems = vec![];
    let repo = repo_dir();
    let mut sources = String::new();
    for f in ["pdf/src/object/types.rs", "pdf/src/font.rs", "pdf/src/enc.rs", "pdf/src/crypt.rs", "pdf/src/xref.rs", "pdf/src/encoding.rs", "pdf/src/file.rs", "pdf/src/object/stream.rs"] {
        sources.push_str(&std::fs::read_to_string(format!("{}/{}", repo, f)).unwrap_or_default());
        sources.push('\n');
    }
    for m in models() {
        if m.fields.is_empty() {
            continue;
        }
        let pat = format!("pub struct {} {{", m.name);
        let Some(start) = sources.find(&pat) else {
            problems.push(format!("struct {} not found in the sources", m.name));
            continue;
        };
        let end = sources[start..].find("\n}").map(|e| start + e).unwrap_or(sources.len());
        let body = &sources[start..end];
        let mut keys: Vec<String> = vec![];
        for part in body.split("key").skip(1) {
            // key = "X"  or key="X"
            let part = part.trim_start();
            if let Some(rest) = part.strip_prefix('=') {
                let rest = rest.trim_start();
                if let Some(rest) = rest.strip_prefix('"') {
                    if let Some(e) = rest.find('"') {
                        keys.push(rest[..e].to_string());
                    }
                }
            }
        }
        for k in &keys {
            // fields that need a resolvable target are deliberately left at "absent" and are listed here
            let skipped = ["RF", "P", "AP", "FontFile", "FontFile2", "FontFile3", "CO", "DR", "ToUnicode", "DescendantFonts"];
            if !m.fields.iter().any(|f| f.key == k) && !(skipped.contains(&k.as_str())) {
                problems.push(format!("model {}: field /{} of the source has no line in the harness table", m.name, k));
            }
        }
    }
    problems
}

/// typed values built through the public fields of the hand-written models (not read from a primitive first):
/// value -> p1 -> T -> p2, p1 == p2
fn typed_values(tally: &mut Tally) {
    fn one<T: Object + ObjectWrite>(model: &str, descr: String, v: &T, t: &mut Tally) {
        t.evaluations += 1;
        t.distinct.insert(fnv(format!("{}:{}", model, descr).as_bytes()));
        let r = catch(|| -> std::result::Result<(Primitive, Primitive), String> {
            let mut storage = FileOptions::uncached().storage();
            let p1 = v.to_primitive(&mut storage).map_err(|e| format!("write: {}", err_variant(&e)))?;
            let t2 = T::from_primitive(p1.clone(), &storage.resolver()).map_err(|e| format!("read of the written form {}: {}", show_prim(&p1), err_variant(&e)))?;
            let p2 = t2.to_primitive(&mut storage).map_err(|e| format!("second write: {}", err_variant(&e)))?;
            let r = storage.resolver();
            Ok((deep(&p1, &r, 4), deep(&p2, &r, 4)))
        });
        let verdict = match r {
            Err((loc, msg)) => Err((panic_kind(&loc), msg)),
            Ok(Err(m)) => Err(("value-round-trip-error".to_string(), m)),
            Ok(Ok((p1, p2))) if p1 == p2 => Ok(()),
            Ok(Ok((p1, p2))) => Err(("value-not-idempotent".to_string(), format!("written as {}, after reading that back written as {}", show_prim(&p1), show_prim(&p2)))),
        };
        match verdict {
            Ok(()) => t.outcome("ok"),
            Err((kind, detail)) => {
                t.outcome(&kind);
                t.fail("c15.value", &kind, vec![format!("model={}", model), format!("value={}", descr)], format!("{} {}: {}", model, descr, detail), json!({"engine": "c15.value"}));
            }
        }
    }
    use pdf::content::Matrix;
    use pdf::primitive::{Date, PdfString, TimeRel};
    let coords = [None, Some(0.0f32), Some(-0.0), Some(10.5), Some(-3.0), Some(792.0)];
    let pages = [None, Some(Ref::<Page>::new(PlainRef { id: 3, gen: 0 }))];
    let mut dests: Vec<(String, DestView)> = vec![("Fit".into(), DestView::Fit), ("FitB".into(), DestView::FitB)];
    for l in coords {
        for tp in coords {
            for zoom in [0.0f32, 1.5, -1.0] {
                dests.push((format!("XYZ({:?},{:?},{})", l, tp, zoom), DestView::XYZ { left: l, top: tp, zoom }));
            }
        }
    }
    for x in [0.0f32, -0.0, 700.0, -12.25] {
        dests.push((format!("FitH({})", x), DestView::FitH { top: x }));
        dests.push((format!("FitV({})", x), DestView::FitV { left: x }));
        dests.push((format!("FitBH({})", x), DestView::FitBH { top: x }));
        dests.push((format!("FitR({},0,10,{})", x, x), DestView::FitR(Rectangle { left: x, bottom: 0.0, right: 10.0, top: x })));
    }
    for page in pages {
        for (d, view) in &dests {
            let dest = Dest { page, view: view.clone() };
            one("Dest", format!("{} page={}", d, page.is_some()), &dest, tally);
            one("MaybeNamedDest", format!("Direct {} page={}", d, page.is_some()), &MaybeNamedDest::Direct(dest), tally);
        }
    }
    for name in [&b"chapter 1"[..], b"", b"(a)\\", &[0xfe, 0xff, 0, 65]] {
        one("MaybeNamedDest", format!("Named {}", show_bytes(name)), &MaybeNamedDest::Named(PdfString::new(name.into())), tally);
    }
    for r in [[0.0f32, 0.0, 0.0, 0.0], [0.0, 0.0, 612.0, 792.0], [-1.5, -0.0, 1e9, 0.25], [10.0, 20.0, 5.0, 1.0]] {
        one("Rectangle", format!("{:?}", r), &Rectangle { left: r[0], bottom: r[1], right: r[2], top: r[3] }, tally);
    }
    for m in [[1.0f32, 0.0, 0.0, 1.0, 0.0, 0.0], [0.0; 6], [-1.0, 0.5, 1e-3, 2.0, 300.0, -7.25]] {
        one("Matrix", format!("{:?}", m), &Matrix { a: m[0], b: m[1], c: m[2], d: m[3], e: m[4], f: m[5] }, tally);
    }
    for (y, mo, d, h, mi, sec) in [(2024u16, 2u8, 29u8, 23u8, 59u8, 59u8), (0, 1, 1, 0, 0, 0), (9999, 12, 31, 0, 0, 0), (1999, 6, 15, 12, 30, 1)] {
        for (rel, tzh, tzm) in [(TimeRel::Universal, 0u8, 0u8), (TimeRel::Later, 1, 30), (TimeRel::Earlier, 8, 0), (TimeRel::Later, 14, 59), (TimeRel::Earlier, 0, 1)] {
            one("Date", format!("{}-{}-{} {}:{}:{} {:?} {}:{}", y, mo, d, h, mi, sec, rel, tzh, tzm), &Date { year: y, month: mo, day: d, hour: h, minute: mi, second: sec, rel, tz_hour: tzh, tz_minute: tzm }, tally);
        }
    }
    {
        use pdf::encoding::{BaseEncoding, Encoding};
        let maps: Vec<Vec<(u32, &str)>> = vec![vec![], vec![(0, "zero")], vec![(255, "last")], vec![(65, "A"), (66, "B"), (70, "F")], vec![(253, "x"), (254, "y"), (255, "z")], vec![(0, "a"), (255, "b"), (128, "c")]];
        for base in [BaseEncoding::StandardEncoding, BaseEncoding::WinAnsiEncoding, BaseEncoding::MacRomanEncoding, BaseEncoding::MacExpertEncoding, BaseEncoding::SymbolEncoding, BaseEncoding::None] {
            for m in &maps {
                let enc = Encoding { base: base.clone(), differences: m.iter().map(|(c, n)| (*c, (*n).into())).collect() };
                one("Encoding", format!("{:?} {:?}", base, m), &enc, tally);
            }
        }
    }
}

pub fn run(tier: Tier, _seed: u64, tally: &mut Tally) -> CheckMeta {
    let problems = table_guard();
    if !problems.is_empty() {
        eprintln!("MACHINERY: C15 model table out of date: {}", problems.join("; "));
        std::process::exit(2);
    }
    let bound = if tier.thorough() { 8 } else { 5 };
    explore("c15.model", Limits::new(bound).wall(if tier.thorough() { 3000 } else { 600 }), tally, model_case);
    explore("c15.stream", Limits::new(0), tally, stream_case);
    typed_values(tally);
    tally.validated = tally.evaluations;
    tally.sample(json!({"model": "Annot", "input": "<< /Subtype /Link /F 4 /ZzUnknown << /Deep [1 (x)] >> >>", "oracle": "p0 -> T -> p1 -> T -> p2: p1 == p2 and every entry of p0 in p1"}));
    tally.sample(json!({"model": "Action", "input": "<< /S /GoTo /D (named) >>"}));
    CheckMeta {
        prop: "C15",
        level: "model_checking",
        rule: format!("{} models with reader and writer (derived structs and enums, hand-written pairs Date, Rectangle, Matrix, Dest, MaybeNamedDest, Action, Encoding, NumberTree, Font, containers): per dictionary model every field has a list of alternatives (absent, default, other values; enum fields over all variants; one-or-many arrays; nested models), explored with <= {} simultaneous field deviations plus 0-2 unknown extra keys and integer-vs-real spelling; non-dictionary models over all listed values. Oracle: p0 -> T -> p1 -> T -> p2 on a real Storage (indirect fields followed through it): p1 == p2, and for models that keep unrecognised entries every entry of p0 is in p1 up to omitted defaults and int == real. A guard compares the table with the #[pdf(key=..)] attributes of the sources. Typed values: destinations (every view, coordinates absent / 0 / -0 / positive / negative, with and without page), named destinations, rectangles, matrices, dates (boundary fields, every time-zone relation) and encodings (every base x 6 difference maps) built through the public fields, written, read back and written again: identical form. Typed streams: Stream<()> built from independently encoded data over {} filter chains x 3 data values, written with to_pdf_stream and read with from_stream: same filters, data() equals the plain data, second write identical.", models().len(), bound, CHAINS.len()),
        assumptions: vec!["models whose writer is todo!()/unimplemented (NameTree, Function, most ColorSpace variants) cannot be 'both read and written' and are not enumerated (ColorSpace entries therefore stay absent); fields that need a resolvable target (Annot /P, font files) stay absent".into()],
        exhaustive: true,
        bounds: json!({"field_deviations": bound}),
    }
}

pub fn replay(case: &Value, tally: &mut Tally) {
    let picks: Vec<u32> = case["picks"].as_array().map(|a| a.iter().map(|x| x.as_u64().unwrap() as u32).collect()).unwrap_or_default();
    if case["engine"].as_str() == Some("c15.value") {
        typed_values(tally);
    } else if case["engine"].as_str() == Some("c15.stream") {
        run_one(&picks, tally, stream_case);
    } else {
        run_one(&picks, tally, model_case);
    }
}
