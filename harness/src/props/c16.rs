//! C16 — every encoder is inverted by its decoder and emits the standard format.
use crate::core::*;
use crate::pdfgen::filters as pf;
use pdf::enc::{decode, encode, LZWFlateParams, StreamFilter};
use rayon::prelude::*;
use serde_json::{json, Value};

/// the first four are the encoder's documented repertoire; the others are parameter variants of the same filters: the encoder may
/// refuse them (then they are not 'supported'), but whatever it accepts must decode back with the same filter value
const FILTERS: [&str; 8] = ["ASCIIHex", "ASCII85", "LZW", "Flate", "LZW:EarlyChange1", "Flate:Predictor12:Columns4", "LZW:Predictor12:Columns4", "Flate:Predictor2:Columns4"];
const BASE_FILTERS: usize = 4;

fn filter(i: usize) -> StreamFilter {
    match i {
        0 => StreamFilter::ASCIIHexDecode,
        1 => StreamFilter::ASCII85Decode,
        // the encoder only supports EarlyChange 0
        2 => StreamFilter::LZWDecode(LZWFlateParams { early_change: 0, ..Default::default() }),
        3 => StreamFilter::FlateDecode(Default::default()),
        4 => StreamFilter::LZWDecode(Default::default()),
        5 => StreamFilter::FlateDecode(LZWFlateParams { predictor: 12, columns: 4, ..Default::default() }),
        6 => StreamFilter::LZWDecode(LZWFlateParams { early_change: 0, predictor: 12, columns: 4, ..Default::default() }),
        _ => StreamFilter::FlateDecode(LZWFlateParams { predictor: 2, columns: 4, ..Default::default() }),
    }
}
fn ref_decode(i: usize, enc: &[u8]) -> Result<Vec<u8>, String> {
    match i {
        0 => pf::hex_decode_ref(enc),
        1 => pf::a85_decode_ref(enc),
        2 => pf::lzw_decode_ref(enc, false),
        3 => pf::flate_decode_ref(enc),
        4 => pf::lzw_decode_ref(enc, true),
        // predictor variants: the library decoder (checked against independent encoders by C05) is the only judge
        _ => Err("no-reference".into()),
    }
}

fn len_class(n: usize) -> String {
    if n <= 4 {
        format!("len={}", n)
    } else if n <= 64 {
        "len=5..64".into()
    } else if n <= 4096 {
        "len=65..4096".into()
    } else {
        "len>4096".into()
    }
}

/// returns outcome class
fn check_one(fi: usize, data: &[u8], descr: &dyn Fn() -> Value, t: &mut Tally) {
    check_one_after(fi, data, descr, t, None)
}

fn check_one_after(fi: usize, data: &[u8], descr: &dyn Fn() -> Value, t: &mut Tally, after: Option<&str>) {
    t.evaluations += 1;
    let f = filter(fi);
    let fail = |t: &mut Tally, kind: &str, detail: String| {
        let mut devs = vec![format!("filter={}", FILTERS[fi])];
        if !data.is_empty() {
            devs.push(len_class(data.len()));
        }
        let mut detail = detail;
        if let Some(a) = after {
            devs.push(format!("after={}", a.split(',').next().unwrap_or("")));
            detail = format!("right after {} on the same thread: {}", a, detail);
        }
        t.fail("c16", kind, devs, detail, descr());
    };
    let enc = match catch(|| encode(data, &f)) {
        Err((loc, msg)) => {
            t.outcome("encode-panic");
            fail(t, &panic_kind(&loc), format!("encode({}) panicked: {}", FILTERS[fi], msg));
            return;
        }
        Ok(Err(_)) if fi >= BASE_FILTERS => {
            t.outcome("encoder-refuses-parameters");
            return;
        }
        Ok(Err(e)) => {
            t.outcome("encode-error");
            fail(t, &format!("encode-error:{}", err_variant(&e)), format!("encode({}, {}) returned Err({})", FILTERS[fi], show_bytes(data), truncate(&format!("{:?}", e), 200)));
            return;
        }
        Ok(Ok(v)) => v,
    };
    match catch(|| decode(&enc, &f)) {
        Err((loc, msg)) => {
            t.outcome("decode-panic");
            fail(t, &panic_kind(&loc), format!("decode of own encoding panicked: {}", msg));
            return;
        }
        Ok(Err(e)) => {
            t.outcome("decode-error");
            fail(
                t,
                &format!("own-decode-error:{}", err_variant(&e)),
                format!("data={} encoded={} decode -> Err({})", show_bytes(data), show_bytes(&enc), err_variant(&e)),
            );
            return;
        }
        Ok(Ok(d)) => {
            if d != data {
                t.outcome("decode-mismatch");
                fail(t, "own-decode-mismatch", format!("data={} encoded={} decoded={}", show_bytes(data), show_bytes(&enc), show_bytes(&d)));
                return;
            }
        }
    }
    match ref_decode(fi, &enc) {
        Err(e) if e == "no-reference" => t.outcome("ok"),
        Ok(d) if d == data => {
            t.outcome("ok");
        }
        Ok(d) => {
            t.outcome("ref-mismatch");
            fail(t, "reference-decoder-mismatch", format!("data={} encoded={} reference decoder gives {}", show_bytes(data), show_bytes(&enc), show_bytes(&d)));
        }
        Err(e) => {
            t.outcome("ref-rejects");
            fail(t, "reference-decoder-rejects", format!("data={} encoded={} reference decoder: {}", show_bytes(data), show_bytes(&enc), e));
        }
    }
}

fn gen_structured(kind: &str, a: u64, b: u64) -> Vec<u8> {
    match kind {
        "run" => vec![a as u8; b as usize],
        "ramp" => (0..b).map(|i| (i.wrapping_mul(a.max(1))) as u8).collect(),
        "period" => (0..b).map(|i| ((i % a.max(1)) as u8).wrapping_mul(37)).collect(),
        "lcg" => {
            let mut x = a as u32 ^ 0x9E3779B9;
            (0..b)
                .map(|_| {
                    x = x.wrapping_mul(1664525).wrapping_add(1013904223);
                    (x >> 24) as u8
                })
                .collect()
        }
        "lcg-lowentropy" => {
            let mut x = a as u32 ^ 0x9E3779B9;
            (0..b)
                .map(|_| {
                    x = x.wrapping_mul(1664525).wrapping_add(1013904223);
                    ((x >> 28) & 3) as u8
                })
                .collect()
        }
        _ => vec![],
    }
}

/// earlier calls for the history engine: (label, filter, bytes to decode)
fn priors() -> Vec<(String, usize, Vec<u8>)> {
    let prior_bufs: Vec<Vec<u8>> = vec![gen_structured("lcg", 5, 1000), gen_structured("run", 0x41, 5000), gen_structured("period", 3, 300)];
    let mut priors: Vec<(String, usize, Vec<u8>)> = vec![]; // (label, filter, bytes to decode)
    for pfi in 0..FILTERS.len() {
        let f = filter(pfi);
        for (bi, pb) in prior_bufs.iter().enumerate() {
            let Ok(Ok(enc)) = catch(|| encode(pb, &f)) else { continue };
            let n = enc.len();
            let mut cuts = vec![1, 2, 5, n / 4, n / 2, 3 * n / 4, n.saturating_sub(2), n.saturating_sub(1)];
            cuts.sort();
            cuts.dedup();
            for c in cuts {
                if c < n {
                    priors.push((format!("decode({}, own encoding of buffer {} cut to {} of {} bytes)", FILTERS[pfi], bi, c, n), pfi, enc[..c].to_vec()));
                }
            }
            let mut flipped = enc.clone();
            let mid = n / 2;
            flipped[mid] ^= 0x55;
            priors.push((format!("decode({}, own encoding of buffer {} with byte {} changed)", FILTERS[pfi], bi, mid), pfi, flipped));
            priors.push((format!("decode({}, own encoding of buffer {} intact)", FILTERS[pfi], bi), pfi, enc));
        }
        priors.push((format!("decode({}, 50 bytes 0xff)", FILTERS[pfi]), pfi, vec![0xff; 50]));
        priors.push((format!("decode({}, empty)", FILTERS[pfi]), pfi, vec![]));
    }
    priors
}

pub fn run(tier: Tier, seed: u64, tally: &mut Tally) -> CheckMeta {
    let maxlen = if tier.thorough() { 3 } else { 2 };
    // (a) all byte strings up to maxlen, split by first byte for parallelism
    let mut firsts: Vec<Option<u8>> = vec![None];
    firsts.extend((0..=255u8).map(Some));
    let parts: Vec<Tally> = firsts
        .par_iter()
        .map(|&first| {
            let mut t = Tally::new();
            match first {
                None => {
                    for fi in 0..4 {
                        check_one(fi, &[], &|| json!({"bytes_hex": ""}), &mut t);
                        t.distinct_bulk += 1;
                    }
                }
                Some(b0) => {
                    let mut bufs: Vec<Vec<u8>> = vec![vec![b0]];
                    if maxlen >= 2 {
                        for b1 in 0..=255u8 {
                            bufs.push(vec![b0, b1]);
                        }
                    }
                    for buf in &bufs {
                        for fi in 0..4 {
                            check_one(fi, buf, &|| json!({"filter": fi, "bytes_hex": hex(buf)}), &mut t);
                            t.distinct_bulk += 1;
                        }
                    }
                    if maxlen >= 3 {
                        let mut buf = [b0, 0, 0];
                        for b1 in 0..=255u8 {
                            for b2 in 0..=255u8 {
                                buf[1] = b1;
                                buf[2] = b2;
                                for fi in 0..4 {
                                    check_one(fi, &buf, &|| json!({"filter": fi, "bytes_hex": hex(&buf)}), &mut t);
                                    t.distinct_bulk += 1;
                                }
                            }
                        }
                    }
                }
            }
            t
        })
        .collect();
    for p in parts {
        tally.merge(p);
    }
    tally.sample(json!({"filter": "ASCII85", "bytes_hex": "0000", "note": "one of the exhaustively enumerated short strings"}));

    // (b) structured buffers
    let mut structured: Vec<(&'static str, u64, u64)> = vec![];
    for len in 0..=300u64 {
        structured.push(("run", 0, len));
        structured.push(("run", 0x41, len));
    }
    for k in 2..=16u32 {
        for d in [-1i64, 0, 1] {
            let len = ((1i64 << k) + d) as u64;
            structured.push(("run", 0, len));
            structured.push(("run", 255, len));
            structured.push(("run", 0x20, len));
        }
    }
    for len in [1u64, 4, 5, 255, 256, 257, 1000, 4096, 65536] {
        structured.push(("ramp", 1, len));
        structured.push(("ramp", 3, len));
        structured.push(("ramp", 255, len));
    }
    for p in 1..=8u64 {
        for len in [p, 2 * p + 1, 100, 5000] {
            structured.push(("period", p, len));
        }
    }
    // all-zero runs around the 4-byte group boundary are the `z` cases of ASCII85
    for len in 0..=12u64 {
        structured.push(("run", 0, len));
    }
    for s in 0..3u64 {
        structured.push(("lcg", seed.wrapping_add(s), 65536));
        structured.push(("lcg-lowentropy", seed.wrapping_add(s), 65536));
        structured.push(("lcg", seed.wrapping_add(s), 777));
    }
    // very long runs: one code of the compressed form stands for thousands of bytes
    structured.push(("run", 0, 1_000_000));
    structured.push(("run", 0x41, 1_500_000));
    structured.push(("run", 255, 3_000_000));
    structured.sort();
    structured.dedup();
    if tier.thorough() {
        for p in [1u64, 2, 3, 5, 7] {
            structured.push(("period", p, 70000));
        }
        structured.push(("lcg-lowentropy", seed, 300000));
    }
    let parts: Vec<Tally> = structured
        .par_iter()
        .map(|&(kind, a, b)| {
            let mut t = Tally::new();
            let data = gen_structured(kind, a, b);
            for fi in 0..FILTERS.len() {
                // predictor variants work on whole rows of 4 bytes
                if fi >= 5 && data.len() % 4 != 0 {
                    continue;
                }
                check_one(fi, &data, &|| json!({"filter": fi, "gen": kind, "a": a, "b": b}), &mut t);
                t.distinct.insert(fnv_mix(fnv(&data), fi as u64));
            }
            t
        })
        .collect();
    for p in parts {
        tally.merge(p);
    }
    // (c) histories: the same round trips right after other calls on the same thread (failed decodes of damaged
    // data of every filter, successful calls on other data); the verdict of a round trip must not depend on them
    let priors = priors();
    let subjects: Vec<(&'static str, u64, u64)> = vec![("run", 0, 0), ("run", 0, 1), ("run", 0x41, 300), ("lcg", 9, 1000), ("period", 2, 5000), ("ramp", 3, 256)];
    let n_priors = priors.len();
    let parts: Vec<Tally> = priors
        .par_iter()
        .enumerate()
        .map(|(pi, (label, pfi, bytes))| {
            let mut t = Tally::new();
            for &(kind, a, b) in &subjects {
                let data = gen_structured(kind, a, b);
                for fi in 0..FILTERS.len() {
                    if fi >= 5 && data.len() % 4 != 0 {
                        continue;
                    }
                    // the earlier call, on this very thread; its own result is not judged here
                    let pf_ = filter(*pfi);
                    let _ = catch(|| decode(bytes, &pf_));
                    check_one_after(fi, &data, &|| json!({"filter": fi, "gen": kind, "a": a, "b": b, "prior": pi}), &mut t, Some(label));
                    t.distinct.insert(fnv_mix(fnv_mix(fnv(&data), fi as u64), pi as u64 + 1000));
                }
            }
            t
        })
        .collect();
    for p in parts {
        tally.merge(p);
    }
    tally.notes.push(format!("histories: {} earlier calls x {} subjects x {} filters", n_priors, subjects.len(), FILTERS.len()));
    tally.sample(json!({"filter": "LZW", "gen": "period", "a": 3, "b": 5000}));
    tally.sample(json!({"filter": "Flate", "gen": "lcg", "a": seed, "b": 65536}));
    tally.states = tally.evaluations;
    tally.transitions = tally.evaluations;
    tally.validated = tally.evaluations;
    CheckMeta {
        prop: "C16",
        level: "model_checking",
        rule: format!(
            "every byte string of length 0..={} x {{ASCIIHex, ASCII85, LZW(EarlyChange 0), Flate}} enumerated exhaustively (distinct by construction), plus {} structured buffers (runs 0..300 and 2^k±1 up to 65537, ramps, period-p patterns, LCG buffers seeded by VERIF_SEED) x 4 filters and x 4 parameter variants (LZW EarlyChange 1, Flate/LZW with PNG predictor, Flate with TIFF predictor: refused by the encoder or round-tripping), distinct by content hash; each case = pdf::enc::encode, pdf::enc::decode, and an independent reference decoder on the same bytes. Histories: every round trip of 6 subject buffers x 8 filters repeated on the same thread right after each of the earlier calls (decode of own encodings cut at 8 positions, with one byte changed, intact, of 0xff bytes, of nothing, for every filter): same verdicts",
            maxlen,
            structured.len()
        ),
        assumptions: vec![
            "reference decoders (own hex/85/LZW, miniz_oxide inflate accepting zlib or raw framing) are validated by the pdfgen self-test against spec examples and own encoders".into(),
            "LCG buffers are the only seed-dependent cases and are additional to the fixed enumeration".into(),
        ],
        exhaustive: true,
        bounds: json!({"max_len_exhaustive": maxlen, "structured_buffers": structured.len()}),
    }
}

fn hex(b: &[u8]) -> String {
    b.iter().map(|x| format!("{:02x}", x)).collect()
}
fn unhex(s: &str) -> Vec<u8> {
    (0..s.len() / 2).map(|i| u8::from_str_radix(&s[2 * i..2 * i + 2], 16).unwrap()).collect()
}

pub fn replay(case: &Value, tally: &mut Tally) {
    let fi = case["filter"].as_u64().unwrap_or(0) as usize;
    let data = if let Some(h) = case["bytes_hex"].as_str() {
        unhex(h)
    } else {
        gen_structured(case["gen"].as_str().unwrap_or(""), case["a"].as_u64().unwrap_or(0), case["b"].as_u64().unwrap_or(0))
    };
    println!("filter={} data({} bytes)={}", FILTERS[fi], data.len(), show_bytes(&data));
    let c = case.clone();
    if let Some(pi) = case["prior"].as_u64() {
        let ps = priors();
        let (label, pfi, bytes) = &ps[pi as usize];
        println!("earlier call on this thread: {}", label);
        let pf_ = filter(*pfi);
        let r = catch(|| decode(bytes, &pf_));
        println!("  -> {}", match r { Ok(Ok(v)) => format!("Ok({} bytes)", v.len()), Ok(Err(e)) => format!("Err({})", err_variant(&e)), Err((l, _)) => format!("panic at {}", l) });
        check_one_after(fi, &data, &move || c.clone(), tally, Some(label));
        return;
    }
    check_one(fi, &data, &move || c.clone(), tally);
}
