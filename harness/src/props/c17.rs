//! C17 — bytes before the header do not change what is read.
use crate::core::*;
use crate::pdfgen::docs::*;
use crate::pdfgen::file::*;
use crate::pdfgen::val::*;
use crate::walker::*;
use rayon::prelude::*;
use serde_json::{json, Value};

pub fn corpus_files(max_len: usize) -> Vec<(String, Vec<u8>, Vec<u8>)> {
    // (name, bytes, password)
    let dir = format!("{}/files", repo_dir());
    let mut out = vec![];
    let mut names: Vec<String> = std::fs::read_dir(&dir).map(|d| d.filter_map(|e| e.ok()).map(|e| e.file_name().to_string_lossy().to_string()).collect()).unwrap_or_default();
    names.sort();
    for n in names {
        if !n.ends_with(".pdf") {
            continue;
        }
        let bytes = std::fs::read(format!("{}/{}", dir, n)).unwrap_or_default();
        if bytes.len() > max_len || bytes.is_empty() {
            continue;
        }
        // offset.pdf already carries junk before its header
        let pw: Vec<u8> = if n.starts_with("encrypted_") { b"".to_vec() } else { vec![] };
        out.push((n, bytes, pw));
    }
    out
}

pub const FILLERS: &[&str] = &["NUL", "SP", "x", "LF", "0xFF", "%PD-repeated", "obj-startxref-text", "binary-ramp"];

pub fn filler(kind: usize, len: usize) -> Vec<u8> {
    let pat: &[u8] = match kind {
        0 => b"\0",
        1 => b" ",
        2 => b"x",
        3 => b"\n",
        4 => b"\xff",
        5 => b"%PD",
        6 => b"1 0 obj startxref 12345 %%EOF trailer xref ",
        _ => b"",
    };
    if kind == 7 {
        return (0..len).map(|i| (i * 7 + 1) as u8).map(|b| if b == b'%' { b'$' } else { b }).collect();
    }
    (0..len).map(|i| pat[i % pat.len()]).collect()
}

fn observe(bytes: &[u8], pw: &[u8], cached: bool) -> std::result::Result<Vec<(String, String)>, String> {
    let mut o = Obs::new(true);
    let cfg = Config { tolerant: false, cached };
    let r = catch(|| open_and_walk(bytes, pw, cfg, &WalkOpts { scan: true, font_codes: false, max_objects: 120 }, &mut o));
    match r {
        Err((loc, msg)) => Err(format!("{} ({})", panic_kind(&loc), truncate(&msg, 100))),
        Ok(Err(v)) => Err(format!("load-error:{}", v)),
        Ok(Ok(())) => Ok(o.lines),
    }
}

fn first_diff(a: &[(String, String)], b: &[(String, String)]) -> Option<String> {
    for i in 0..a.len().max(b.len()) {
        match (a.get(i), b.get(i)) {
            (Some(x), Some(y)) if x == y => {}
            (x, y) => {
                return Some(format!(
                    "unprefixed: {} | prefixed: {}",
                    x.map(|(k, v)| format!("{} = {}", k, truncate(v, 160))).unwrap_or_else(|| "<nothing>".into()),
                    y.map(|(k, v)| format!("{} = {}", k, truncate(v, 160))).unwrap_or_else(|| "<nothing>".into())
                ))
            }
        }
    }
    None
}
fn diff_kind(d: &str) -> String {
    // classify by the key of the first differing observation
    let key = d.trim_start_matches("unprefixed: ").split(' ').next().unwrap_or("");
    let key: String = key.chars().filter(|c| !c.is_ascii_digit()).collect();
    if d.contains("prefixed: ") && d.split("prefixed: ").last().map(|s| s.contains("ERR:")).unwrap_or(false) {
        format!("differs-at:{}:error", key)
    } else {
        format!("differs-at:{}", key)
    }
}

struct Base {
    name: String,
    bytes: Vec<u8>,
    pw: Vec<u8>,
    reference: std::result::Result<Vec<(String, String)>, String>,
    reference_cached: std::result::Result<Vec<(String, String)>, String>,
}

fn check_prefix(base: &Base, prefix: &[u8], cached: bool) -> std::result::Result<(), (String, String)> {
    let mut bytes = prefix.to_vec();
    bytes.extend_from_slice(&base.bytes);
    let got = observe(&bytes, &base.pw, cached);
    match (if cached { &base.reference_cached } else { &base.reference }, got) {
        (Ok(a), Ok(b)) => match first_diff(a, &b) {
            None => Ok(()),
            Some(d) => Err((diff_kind(&d), d)),
        },
        (Err(a), Err(b)) => {
            if *a == b {
                Ok(())
            } else {
                Err(("load-outcome-differs".into(), format!("unprefixed: {} | prefixed: {}", a, b)))
            }
        }
        (Ok(_), Err(b)) => Err((format!("prefixed-fails:{}", b.split(' ').next().unwrap_or("")), b)),
        (Err(a), Ok(_)) => Err(("only-prefixed-loads".into(), a.clone())),
    }
}

/// a file laid out like a linearized one: the section `startxref` names stands right after the header and its /Prev leads
/// to the main section further down (distance < 1019, so one of the enumerated prefix lengths makes the absolute position
/// of the first section equal to the header-relative value of /Prev; `pad` varies that distance)
pub fn linearized_layout_doc(pad: usize) -> Vec<u8> {
    let mut out: Vec<u8> = b"%PDF-1.4\n".to_vec();
    let first = out.len();
    let first_section = |prev: usize| format!("xref\n0 1\n0000000000 65535 f \ntrailer\n<< /Size 5 /Root 1 0 R /Prev {:05} >>\n", prev);
    out.extend_from_slice(first_section(0).as_bytes());
    out.extend(std::iter::repeat(b' ').take(pad));
    out.push(b'\n');
    let objects = [
        "1 0 obj\n<< /Type /Catalog /Pages 2 0 R >>\nendobj\n",
        "2 0 obj\n<< /Type /Pages /Kids [3 0 R] /Count 1 >>\nendobj\n",
        "3 0 obj\n<< /Type /Page /Parent 2 0 R /MediaBox [0 0 200 200] /Contents 4 0 R /Resources << >> >>\nendobj\n",
        "4 0 obj\n<< /Length 3 >>\nstream\nq Q\nendstream\nendobj\n",
    ];
    let mut offsets = vec![];
    for o in objects.iter() {
        offsets.push(out.len());
        out.extend_from_slice(o.as_bytes());
    }
    let main = out.len();
    out.extend_from_slice(b"xref\n0 5\n0000000000 65535 f \n");
    for o in &offsets {
        out.extend_from_slice(format!("{:010} 00000 n \n", o).as_bytes());
    }
    out.extend_from_slice(b"trailer\n<< /Size 5 /Root 1 0 R >>\n");
    out.extend_from_slice(format!("startxref\n{}\n%%EOF\n", first).as_bytes());
    let real = first_section(main);
    out[first..first + real.len()].copy_from_slice(real.as_bytes());
    out
}

pub fn run(tier: Tier, _seed: u64, tally: &mut Tally) -> CheckMeta {
    let mut bases: Vec<Base> = vec![];
    for (name, opts) in [("gen:classic", DocOpts::CLASSIC), ("gen:xrefstream+objstm", DocOpts::STREAM), ("gen:prev-chain", DocOpts::CHAIN), ("gen:prev-chain-streams", DocOpts::CHAIN_STREAM)] {
        bases.push(Base { name: name.into(), bytes: rich_doc(b"", opts), pw: vec![], reference: Err(String::new()), reference_cached: Err(String::new()) });
    }
    bases.push(Base { name: "gen:small".into(), bytes: small_doc(b""), pw: vec![], reference: Err(String::new()), reference_cached: Err(String::new()) });
    // entries whose offset is a boundary value: object 6 is listed as in use at offset 0 (the header itself, as some
    // producers write the numbers they do not use), object 7 at the offset of object 1, with a table and with a stream
    for stream in [false, true] {
        let mut fb = FileBuilder::new(b"");
        fb.add(1, 0, &Val::dict(vec![("Type", Val::name("Catalog")), ("Pages", Val::r(2))]));
        let first = fb.section.get(&1).cloned();
        fb.add(2, 0, &Val::dict(vec![("Type", Val::name("Pages")), ("Kids", Val::Array(vec![Val::r(3)])), ("Count", Val::Int(1))]));
        fb.add(3, 0, &Val::dict(vec![("Type", Val::name("Page")), ("Parent", Val::r(2)), ("MediaBox", Val::ints(&[0, 0, 200, 200])), ("Contents", Val::r(4)), ("Resources", Val::dict(vec![]))]));
        fb.add(4, 0, &Val::stream(vec![], b"q Q".to_vec()));
        fb.add(5, 0, &Val::Array(vec![Val::r(6), Val::r(7)]));
        fb.section.insert(6, Entry::InUse { off: 0, gen: 0 });
        if let Some(e) = first {
            fb.section.insert(7, e);
        }
        if stream {
            fb.finish_stream(&[("Root", Val::r(1))], &XrefStreamOpts::new(8));
        } else {
            fb.finish_table(&[("Root", Val::r(1))], Split::Runs);
        }
        bases.push(Base { name: format!("gen:entry-at-offset-0-{}", if stream { "stream" } else { "table" }), bytes: fb.bytes(), pw: vec![], reference: Err(String::new()), reference_cached: Err(String::new()) });
    }
    for pad in [0usize, 300] {
        bases.push(Base { name: format!("gen:linearized-layout-pad{}", pad), bytes: linearized_layout_doc(pad), pw: vec![], reference: Err(String::new()), reference_cached: Err(String::new()) });
    }
    if let Some(enc) = crate::props::c06::encrypted_rich_doc() {
        bases.push(Base { name: "gen:encrypted-rc4".into(), bytes: enc, pw: b"user".to_vec(), reference: Err(String::new()), reference_cached: Err(String::new()) });
    }
    let n_generated = bases.len();
    for (n, b, pw) in corpus_files(if tier.thorough() { 200_000 } else { 60_000 }) {
        if n == "offset.pdf" {
            continue; // has its own junk prefix: adding more could push the header beyond the first kilobyte
        }
        bases.push(Base { name: n, bytes: b, pw, reference: Err(String::new()), reference_cached: Err(String::new()) });
    }
    for b in bases.iter_mut() {
        b.reference = observe(&b.bytes, &b.pw, false);
        b.reference_cached = observe(&b.bytes, &b.pw, true);
        tally.notes.push(format!("{}: {} bytes, unprefixed: {}", b.name, b.bytes.len(), match &b.reference { Ok(l) => format!("{} observations", l.len()), Err(e) => e.clone() }));
    }
    // jobs: (base, filler kind, length) ; generated files get every length, corpus files a boundary set (quick) / every 1..1019 step (thorough)
    let mut jobs: Vec<(usize, usize, usize)> = vec![];
    let boundary = [1usize, 2, 5, 7, 8, 63, 64, 255, 256, 511, 512, 1000, 1018, 1019];
    for (bi, _) in bases.iter().enumerate() {
        let all_lengths = bi < n_generated || tier.thorough();
        for k in 0..FILLERS.len() {
            if all_lengths {
                for len in 1..=1019 {
                    jobs.push((bi, k, len));
                }
            } else {
                for &len in &boundary {
                    jobs.push((bi, k, len));
                }
            }
        }
    }
    let parts: Vec<Tally> = jobs
        .par_iter()
        .map(|&(bi, k, len)| {
            let mut t = Tally::new();
            let base = &bases[bi];
            let prefix = filler(k, len);
            for cached in [false, true] {
                if cached && len % 64 != 7 {
                    continue; // the cached configuration on a subset of lengths
                }
                t.evaluations += 1;
                t.distinct.insert(fnv_mix(fnv_mix(bi as u64, k as u64), (len * 2 + cached as usize) as u64));
                match check_prefix(base, &prefix, cached) {
                    Ok(()) => t.outcome("identical"),
                    Err((kind, detail)) => {
                        t.outcome(&kind);
                        let mut devs = vec![format!("file={}", base.name)];
                        if k != 0 {
                            devs.push(format!("filler={}", FILLERS[k]));
                        }
                        if len == 1019 {
                            devs.push("len=1019".into());
                        }
                        t.fail("c17.prefix", &kind, devs, format!("{} + {} bytes of {}: {}", base.name, len, FILLERS[k], detail), json!({"engine": "c17.prefix", "file": base.name, "filler": k, "len": len, "cached": cached}));
                    }
                }
            }
            t
        })
        .collect();
    for p in parts {
        tally.merge(p);
    }
    // all 256 byte values at a few lengths (generated files only)
    let lens = [1usize, 7, 512, 1019];
    let jobs2: Vec<(usize, usize, u8)> = (0..n_generated).flat_map(|b| lens.iter().flat_map(move |&l| (0..=255u8).map(move |v| (b, l, v)))).collect();
    let parts: Vec<Tally> = jobs2
        .par_iter()
        .map(|&(bi, len, v)| {
            let mut t = Tally::new();
            let prefix = vec![v; len];
            t.evaluations += 1;
            t.distinct.insert(fnv_mix(fnv_mix(bi as u64, 1000 + v as u64), len as u64));
            match check_prefix(&bases[bi], &prefix, false) {
                Ok(()) => t.outcome("identical"),
                Err((kind, detail)) => {
                    t.outcome(&kind);
                    t.fail("c17.prefix", &kind, vec![format!("file={}", bases[bi].name), format!("byte={:#04x}", v)], format!("{} + {} bytes {:#04x}: {}", bases[bi].name, len, v, detail), json!({"engine": "c17.byte", "file": bases[bi].name, "byte": v, "len": len}));
                }
            }
            t
        })
        .collect();
    for p in parts {
        tally.merge(p);
    }
    tally.states = tally.evaluations;
    tally.transitions = tally.evaluations;
    tally.validated = tally.evaluations;
    tally.sample(json!({"file": "gen:xrefstream+objstm", "filler": "obj-startxref-text", "len": 512}));
    tally.sample(json!({"file": "gen:prev-chain", "byte": 255, "len": 1019}));
    CheckMeta {
        prop: "C17",
        level: "model_checking",
        rule: format!("{} generated files (classic, xref stream + object stream, /Prev chain in both formats, small, linearized layout - first section after the header with /Prev further down - at two distances, entries at offset 0, RC4-encrypted) x every prefix length 1..=1019 x {} fillers, and all 256 byte values at lengths 1/7/512/1019; {} corpus files x fillers x {}; each prefixed file is opened and walked (every object, stream data, pages, fonts, trees, trailer, scan) and the observation list is compared line by line with the unprefixed file's (differential oracle). Distinct by (file, filler, length, configuration).", n_generated, FILLERS.len(), bases.len() - n_generated, if tier.thorough() { "every length" } else { "14 boundary lengths" }),
        assumptions: vec!["prefixes never contain the header marker %PDF-".into(), "offset.pdf (already prefixed) is excluded".into()],
        exhaustive: true,
        bounds: json!({"max_prefix": 1019}),
    }
}

pub fn replay(case: &Value, tally: &mut Tally) {
    let name = case["file"].as_str().unwrap_or("");
    let bytes = match name {
        "gen:classic" => rich_doc(b"", DocOpts::CLASSIC),
        "gen:xrefstream+objstm" => rich_doc(b"", DocOpts::STREAM),
        "gen:prev-chain" => rich_doc(b"", DocOpts::CHAIN),
        "gen:prev-chain-streams" => rich_doc(b"", DocOpts::CHAIN_STREAM),
        "gen:small" => small_doc(b""),
        "gen:linearized-layout-pad0" => linearized_layout_doc(0),
        "gen:linearized-layout-pad300" => linearized_layout_doc(300),
        "gen:encrypted-rc4" => crate::props::c06::encrypted_rich_doc().unwrap_or_default(),
        f => std::fs::read(format!("{}/files/{}", repo_dir(), f)).unwrap_or_default(),
    };
    let pw: Vec<u8> = if name == "gen:encrypted-rc4" { b"user".to_vec() } else { vec![] };
    let len = case["len"].as_u64().unwrap_or(1) as usize;
    let prefix = if case["engine"] == "c17.byte" { vec![case["byte"].as_u64().unwrap_or(0) as u8; len] } else { filler(case["filler"].as_u64().unwrap_or(0) as usize, len) };
    let cached = case["cached"].as_bool().unwrap_or(false);
    let base = Base { name: name.into(), reference: observe(&bytes, &pw, false), reference_cached: observe(&bytes, &pw, true), bytes, pw };
    println!("file {} ({} bytes) prefix {} bytes", name, base.bytes.len(), prefix.len());
    if let Err((kind, detail)) = check_prefix(&base, &prefix, cached) {
        tally.fail("c17.prefix", &kind, vec![], detail, case.clone());
    }
}
