//! C18 — references to missing or free objects read as null.
use crate::core::*;
use crate::pdfgen::docs::*;
use crate::pdfgen::file::*;
use crate::pdfgen::val::*;
use crate::props::c04::{prim_eq, val_to_prim};
use crate::props::c15::{models, Model};
use crate::walker::*;
use pdf::file::FileOptions;
use pdf::object::*;
use pdf::primitive::Primitive;
use rayon::prelude::*;
use serde_json::{json, Value};

pub const DANGLING: &[(&str, u64)] = &[("free-entry", 47), ("beyond-size", 5000), ("gap-in-table", 48), ("freed-by-update-generation-kept", 46), ("freed-by-update", 45), ("listed-by-the-section-but-equal-to-size", 55), ("listed-by-both-sections-but-above-size", 57), ("number-above-a-million", 1_000_001), ("number-2^32-1", 4_294_967_295), ("number-2^53", 9_007_199_254_740_992)];

/// assemble the rich document so that object 47 is a free entry, 48 lies in a gap of the table, 49 defines the end
fn assemble(objs: &[(u64, Val)], stream_xref: bool) -> Vec<u8> {
    let mut fb = FileBuilder::new(b"");
    for (nr, v) in objs {
        fb.add(*nr, 0, v);
    }
    fb.add(49, 0, &Val::Int(49));
    fb.free(47, 1);
    // objects 45 and 46 exist in the first revision and are freed by an incremental update: 45 with the generation
    // incremented, 46 with the generation left as it was (`0000000000 00000 f`, as several producers write it)
    fb.add(45, 0, &Val::dict(vec![("Deleted", Val::Int(45))]));
    fb.add(46, 0, &Val::dict(vec![("Deleted", Val::Int(46))]));
    // object 55 is written and listed by the cross-reference section, but /Size says 55: a number that is not below /Size
    // is not an object of the file, whatever the section lists
    fb.add(55, 0, &Val::dict(vec![("BeyondSize", Val::Int(55))]));
    fb.add(57, 0, &Val::dict(vec![("BeyondSize", Val::Int(57))]));
    fb.size = 55;
    let extra = [("Root", Val::r(1)), ("Info", Val::r(37)), ("ID", Val::Array(vec![Val::str("0123456789abcdef"), Val::str("0123456789abcdef")]))];
    if stream_xref {
        fb.finish_stream(&extra, &XrefStreamOpts::new(50));
    } else {
        fb.finish_table(&extra, Split::Runs);
    }
    fb.free(45, 1);
    fb.free(46, 0);
    // the update writes the two objects beyond /Size again: its own section lists them too
    fb.add(55, 0, &Val::dict(vec![("BeyondSize", Val::Int(55)), ("Revision", Val::Int(2))]));
    fb.add(57, 0, &Val::dict(vec![("BeyondSize", Val::Int(57)), ("Revision", Val::Int(2))]));
    fb.size = 55;
    if stream_xref {
        fb.finish_stream(&extra, &XrefStreamOpts::new(51));
    } else {
        fb.finish_table(&extra, Split::Runs);
    }
    fb.bytes()
}

#[derive(Clone, Debug)]
struct Site {
    obj: u64,
    /// key path inside the object (dictionary keys only), the last one is the entry that dangles
    path: Vec<&'static str>,
    /// Some(i): the i-th element of the array at `path` is replaced / a dangling element appended when i == usize::MAX
    elem: Option<usize>,
    required: bool,
    what: &'static str,
    /// the carrier is not interpreted by the containing typed object (a plain `Ref`, a `Lazy` value of a map, a raw
    /// `Primitive`): only "the containing object still reads" can be demanded
    raw: bool,
    /// element sites only: the array is stored as an indirect object of its own (object 52) and the entry refers to it
    indirect: bool,
    /// element sites only: how many times the dangling element is appended (the same missing object named twice)
    repeat: usize,
}

fn sites() -> Vec<Site> {
    let o = |obj: u64, path: &[&'static str], what: &'static str| Site { obj, path: path.to_vec(), elem: None, required: false, what, raw: what.contains("(Ref)") || what.contains("(Lazy)") && what.starts_with("value") || what.contains("(Primitive)") || what.contains("catch-all"), indirect: false, repeat: 1 };
    let r = |obj: u64, path: &[&'static str], what: &'static str| Site { obj, path: path.to_vec(), elem: None, required: true, what, raw: false, indirect: false, repeat: 1 };
    let e = |obj: u64, path: &[&'static str], what: &'static str| Site { obj, path: path.to_vec(), elem: Some(usize::MAX), required: false, what, raw: false, indirect: false, repeat: 1 };
    let ei = |obj: u64, path: &[&'static str], what: &'static str| Site { obj, path: path.to_vec(), elem: Some(usize::MAX), required: false, what, raw: false, indirect: true, repeat: 1 };
    let e2 = |obj: u64, path: &[&'static str], what: &'static str| Site { obj, path: path.to_vec(), elem: Some(usize::MAX), required: false, what, raw: false, indirect: false, repeat: 2 };
    vec![
        e2(21, &["Kids"], "two elements of name tree Kids naming the same missing object"),
        e2(4, &["Annots"], "two elements of Page/Annots naming the same missing object"),
        e2(1, &["AcroForm", "Fields"], "two elements of AcroForm/Fields naming the same missing object"),
        ei(4, &["Annots"], "element of Page/Annots, array indirect"),
        ei(4, &["Contents"], "element of Page/Contents, array indirect"),
        ei(12, &["DescendantFonts"], "extra element of DescendantFonts (MaybeRef), array indirect"),
        ei(21, &["Kids"], "element of name tree Kids, array indirect"),
        ei(1, &["AcroForm", "Fields"], "element of AcroForm/Fields (RcRef), array indirect"),
        // catalog
        o(1, &["Names"], "Catalog/Names (MaybeRef)"),
        o(1, &["PageLabels"], "Catalog/PageLabels"),
        o(1, &["Outlines"], "Catalog/Outlines"),
        o(1, &["AcroForm"], "Catalog/AcroForm"),
        o(1, &["Metadata"], "Catalog/Metadata (Ref)"),
        o(1, &["AcroForm", "DA"], "AcroForm/DA"),
        r(1, &["Pages"], "Catalog/Pages (required)"),
        // page tree node
        o(2, &["Resources"], "Pages/Resources (MaybeRef)"),
        o(2, &["MediaBox"], "Pages/MediaBox"),
        r(2, &["Count"], "Pages/Count (required)"),
        // pages
        o(3, &["Contents"], "Page/Contents"),
        o(3, &["CropBox"], "Page/CropBox"),
        o(3, &["Rotate"], "Page/Rotate (defaulted)"),
        o(4, &["Annots"], "Page/Annots (Lazy)"),
        o(4, &["MediaBox"], "Page/MediaBox"),
        o(4, &["PieceInfo"], "Page/PieceInfo (catch-all entry)"),
        r(3, &["Parent"], "Page/Parent (required)"),
        e(4, &["Annots"], "element of Page/Annots"),
        e(4, &["Contents"], "element of Page/Contents"),
        // resources
        o(5, &["Font"], "Resources/Font"),
        o(5, &["XObject"], "Resources/XObject"),
        o(5, &["ExtGState"], "Resources/ExtGState"),
        o(5, &["ColorSpace"], "Resources/ColorSpace"),
        o(5, &["Pattern"], "Resources/Pattern"),
        o(5, &["Font", "F1"], "value of Resources/Font (Lazy)"),
        o(5, &["XObject", "Im1"], "value of Resources/XObject (Ref)"),
        o(5, &["ExtGState", "GS1"], "value of Resources/ExtGState (direct model)"),
        o(5, &["ExtGState", "GS1", "LW"], "ExtGState/LW"),
        // simple font
        o(9, &["Encoding"], "Font/Encoding"),
        o(9, &["ToUnicode"], "Font/ToUnicode (RcRef)"),
        o(9, &["FontDescriptor"], "Font/FontDescriptor"),
        o(9, &["Widths"], "Font/Widths"),
        o(9, &["FirstChar"], "Font/FirstChar"),
        o(9, &["FontDescriptor", "Ascent"], "FontDescriptor/Ascent"),
        o(9, &["FontDescriptor", "StemV"], "FontDescriptor/StemV (defaulted)"),
        r(9, &["FontDescriptor", "FontName"], "FontDescriptor/FontName (required)"),
        r(9, &["BaseFont"], "Font/BaseFont (required)"),
        // composite font
        o(12, &["ToUnicode"], "Type0/ToUnicode"),
        o(13, &["W"], "CIDFont/W"),
        o(13, &["DW"], "CIDFont/DW (defaulted)"),
        o(13, &["CIDToGIDMap"], "CIDFont/CIDToGIDMap"),
        o(14, &["FontFile2"], "FontDescriptor/FontFile2 (RcRef)"),
        r(13, &["FontDescriptor"], "CIDFont/FontDescriptor (required)"),
        e(12, &["DescendantFonts"], "extra element of DescendantFonts (MaybeRef)"),
        // image / form
        o(16, &["DecodeParms"], "Image/DecodeParms"),
        o(16, &["ColorSpace"], "Image/ColorSpace"),
        o(16, &["BitsPerComponent"], "Image/BitsPerComponent"),
        r(16, &["Width"], "Image/Width (required)"),
        o(17, &["Resources"], "Form/Resources (MaybeRef)"),
        o(17, &["Matrix"], "Form/Matrix"),
        r(17, &["BBox"], "Form/BBox (required)"),
        // trees, outlines, annotation, field
        o(20, &["Dests"], "NameDictionary/Dests"),
        e(21, &["Kids"], "element of name tree Kids"),
        o(24, &["Limits"], "NameTree/Limits"),
        o(23, &["First"], "Outlines/First (Ref)"),
        o(25, &["Next"], "OutlineItem/Next (Ref)"),
        o(25, &["Dest"], "OutlineItem/Dest (Primitive)"),
        o(26, &["A"], "OutlineItem/A"),
        o(26, &["C"], "OutlineItem/C"),
        o(30, &["P"], "Annot/P (PageRc)"),
        o(30, &["Rect"], "Annot/Rect"),
        o(30, &["M"], "Annot/M (Date)"),
        o(30, &["Contents"], "Annot/Contents"),
        r(30, &["Subtype"], "Annot/Subtype (required)"),
        o(32, &["T"], "Field/T"),
        o(32, &["Rect"], "Field/Rect"),
        e(1, &["AcroForm", "Fields"], "element of AcroForm/Fields (RcRef)"),
        // trailer-level info dictionary
        o(37, &["Title"], "Info/Title"),
        o(37, &["CreationDate"], "Info/CreationDate"),
    ]
}

fn mutate(objs: &[(u64, Val)], site: &Site, target: Option<u64>) -> Option<Vec<(u64, Val)>> {
    // target None: remove the entry (the differential reference)
    let mut o = objs.to_vec();
    let v = &mut o.iter_mut().find(|(n, _)| *n == site.obj)?.1;
    let mut moved: Option<Val> = None;
    let indirect = site.indirect;
    // (the number of repetitions travels in `elem`: Some(usize::MAX - (repeat - 1)))
    let elem = site.elem.map(|e| e - (site.repeat - 1));
    fn go(v: &mut Val, path: &[&'static str], elem: Option<usize>, target: Option<u64>, indirect: bool, moved: &mut Option<Val>) -> bool {
        if path.len() == 1 {
            match elem {
                None => {
                    if v.get(path[0]).is_none() {
                        return false;
                    }
                    match target {
                        Some(t) => v.set(path[0], Val::Ref(t, 0)),
                        None => v.remove(path[0]),
                    }
                    true
                }
                Some(_) => {
                    let cur = match v.get(path[0]) {
                        Some(c) => c.clone(),
                        None => return false,
                    };
                    let mut arr = match cur {
                        Val::Array(a) => a,
                        single => vec![single],
                    };
                    if let Some(t) = target {
                        for _ in 0..=(usize::MAX - elem.unwrap()) {
                            arr.push(Val::Ref(t, 0));
                        }
                    }
                    if indirect {
                        *moved = Some(Val::Array(arr));
                        v.set(path[0], Val::Ref(52, 0));
                    } else {
                        v.set(path[0], Val::Array(arr));
                    }
                    true
                }
            }
        } else {
            let inner = match v {
                Val::Dict(d) | Val::Stream(d, _) => d.iter_mut().find(|(k, _)| k == path[0].as_bytes()).map(|(_, x)| x),
                _ => None,
            };
            match inner {
                Some(x) => go(x, &path[1..], elem, target, indirect, moved),
                None => false,
            }
        }
    }
    if go(v, &site.path, elem, target, indirect, &mut moved) {
        if let Some(m) = moved {
            o.push((52, m));
        }
        Some(o)
    } else {
        None
    }
}

fn observe(bytes: &[u8], cfg: Config) -> std::result::Result<Vec<(String, String)>, String> {
    let mut o = Obs::new(true);
    let r = catch(|| open_and_walk(bytes, b"", cfg, &WalkOpts { scan: false, font_codes: false, max_objects: 0 }, &mut o));
    match r {
        Err((loc, msg)) => Err(format!("{} ({})", panic_kind(&loc), truncate(&msg, 100))),
        Ok(Err(v)) => Err(format!("load-error:{}", v)),
        // raw object dumps differ textually (they show the reference); everything typed must agree
        Ok(Ok(())) => Ok(o.lines.into_iter().filter(|(k, _)| !k.starts_with("obj[")).collect()),
    }
}

fn doc_level(tally: &mut Tally, pairs: bool) {
    let base = rich_objects();
    let sites = sites();
    // second site of a pair: usize::MAX = none. pairs: two optional entries dangle at once (same class of missing object)
    let mut site_sets: Vec<(usize, usize)> = (0..sites.len()).map(|s| (s, usize::MAX)).collect();
    if pairs {
        site_sets.clear();
        for a in 0..sites.len() {
            for b in a + 1..sites.len() {
                if sites[a].required || sites[b].required || sites[a].raw || sites[b].raw || (sites[a].indirect && sites[b].indirect) {
                    continue;
                }
                // an entry and something inside it, or the same entry twice, is one site
                if sites[a].obj == sites[b].obj && (sites[a].path.starts_with(&sites[b].path) || sites[b].path.starts_with(&sites[a].path)) {
                    continue;
                }
                site_sets.push((a, b));
            }
        }
    }
    let jobs: Vec<(usize, usize, usize, bool, usize)> = site_sets.iter().flat_map(|&(s, s2)| (0..DANGLING.len()).flat_map(move |d| [false, true].into_iter().flat_map(move |sx| (0..4).map(move |c| (s, s2, d, sx, c))))).filter(|&(_, s2, _, sx, c)| s2 == usize::MAX || (!sx && c % 2 == 0) || (sx && c == 1)).collect();
    let parts: Vec<Tally> = jobs
        .par_iter()
        .map(|&(si, si2, di, stream_xref, ci)| {
            let mut t = Tally::new();
            let site = &sites[si];
            let cfg = CONFIGS[ci];
            let (dname, dnr) = DANGLING[di];
            let Some(mut with_ref) = mutate(&base, site, Some(dnr)) else {
                t.notes.push(format!("site {} not applicable to the base document", site.what));
                return t;
            };
            let mut removed = mutate(&base, site, None).unwrap();
            if si2 != usize::MAX {
                match (mutate(&with_ref, &sites[si2], Some(dnr)), mutate(&removed, &sites[si2], None)) {
                    (Some(a), Some(b)) => {
                        with_ref = a;
                        removed = b;
                    }
                    _ => return t,
                }
            }
            let (b1, b0) = (assemble(&with_ref, stream_xref), assemble(&removed, stream_xref));
            t.evaluations += 1;
            t.distinct.insert(fnv_mix(fnv(&b1), ci as u64));
            let (got, want) = (observe(&b1, cfg), observe(&b0, cfg));
            let verdict: std::result::Result<(), (String, String)> = if site.required {
                // a required entry that dangles must be an error naming the entry (at load or at the call), never a panic
                match &got {
                    Err(e) if e.starts_with("panic@") => Err((e.split(' ').next().unwrap().to_string(), e.clone())),
                    _ => Ok(()),
                }
            } else if site.raw {
                match &got {
                    Ok(_) => Ok(()),
                    Err(e) => {
                        let kind = if e.starts_with("panic@") { e.split(' ').next().unwrap().to_string() } else { "document-does-not-load".to_string() };
                        Err((kind, e.clone()))
                    }
                }
            } else {
                match (&got, &want) {
                    (Ok(a), Ok(b)) => {
                        let diff = (0..a.len().max(b.len())).find(|&i| a.get(i) != b.get(i));
                        match diff {
                            None => Ok(()),
                            Some(i) => {
                                let key = a.get(i).or(b.get(i)).map(|(k, _)| k.clone()).unwrap_or_default();
                                let is_err = a.get(i).map(|(_, v)| v.starts_with("ERR:")).unwrap_or(false);
                                Err((if is_err { "dangling-entry-is-an-error".into() } else { "dangling-entry-not-absent".into() }, format!("first difference at `{}`: with the dangling reference {:?}, with the entry removed {:?}", key, a.get(i).map(|(_, v)| truncate(v, 100)), b.get(i).map(|(_, v)| truncate(v, 100)))))
                            }
                        }
                    }
                    (Err(e), Ok(_)) => {
                        let kind = if e.starts_with("panic@") { e.split(' ').next().unwrap().to_string() } else { "document-does-not-load".to_string() };
                        Err((kind, format!("with the dangling reference: {}; with the entry removed the document loads", e)))
                    }
                    (_, Err(e)) => {
                        // the entry is needed for the document to load at all: not an optional entry after all
                        t.notes.push(format!("site {}: removing the entry makes the document unloadable ({}), skipped", site.what, e));
                        Ok(())
                    }
                }
            };
            match verdict {
                Ok(()) => t.outcome("reads-as-absent"),
                Err((kind, detail)) => {
                    t.outcome(&kind);
                    let mut devs = vec![format!("site={}", site.what), format!("dangling={}", dname)];
                    if si2 != usize::MAX {
                        devs.push(format!("site={}", sites[si2].what));
                    }
                    if cfg.tolerant {
                        devs.push("mode=tolerant".into());
                    }
                    if cfg.cached {
                        devs.push("cache=on".into());
                    }
                    if stream_xref {
                        devs.push("xref=stream".into());
                    }
                    t.fail("c18.document", &kind, devs, format!("{} -> {} ({}) [{}]: {}", site.what, dnr, dname, cfg.name(), detail), json!({"engine": "c18.document", "site": si, "site2": if si2 == usize::MAX { -1 } else { si2 as i64 }, "dangling": di, "stream_xref": stream_xref, "config": ci}));
                }
            }
            t
        })
        .collect();
    for p in parts {
        tally.merge(p);
    }
}

fn strip_dangling(p: &Primitive, nr: u64) -> Primitive {
    match p {
        Primitive::Dictionary(d) => {
            let mut n = pdf::primitive::Dictionary::new();
            for (k, v) in d.iter() {
                if matches!(v, Primitive::Reference(r) if r.id == nr) {
                    continue;
                }
                n.insert(k.as_str(), strip_dangling(v, nr));
            }
            Primitive::Dictionary(n)
        }
        Primitive::Array(a) => Primitive::Array(a.iter().map(|x| strip_dangling(x, nr)).collect()),
        other => other.clone(),
    }
}

/// model level: every optional field of every table model set to a dangling reference, loaded through a real file
fn model_level(tally: &mut Tally) {
    let ms = models();
    let mut jobs: Vec<(usize, usize, usize, usize)> = vec![];
    for (mi, m) in ms.iter().enumerate() {
        for fi in 0..m.fields.len() {
            if m.fields[fi].key == "Type" {
                continue; // /Type is a checked tag, not a field of the model
            }
            for di in 0..DANGLING.len() {
                for ci in [0usize, 2] {
                    jobs.push((mi, fi, di, ci));
                }
            }
        }
    }
    let parts: Vec<Tally> = jobs
        .par_iter()
        .map(|&(mi, fi, di, ci)| {
            let mut t = Tally::new();
            let m: &Model = &ms[mi];
            let f = &m.fields[fi];
            let optional = f.alts[0].is_none();
            // minimal valid dictionary (canonical alternative of every field) with field `fi` dangling
            let mut d: Vec<(Vec<u8>, Val)> = vec![];
            for (j, g) in m.fields.iter().enumerate() {
                if j == fi {
                    d.push((g.key.as_bytes().to_vec(), Val::Ref(DANGLING[di].1, 0)));
                } else if let Some(v) = &g.alts[0] {
                    d.push((g.key.as_bytes().to_vec(), v.clone()));
                }
            }
            let mut d0 = d.clone();
            d0.retain(|(k, _)| k != f.key.as_bytes());
            let build = |dict: &Vec<(Vec<u8>, Val)>| {
                let mut fb = FileBuilder::new(b"");
                let (cat, pages) = minimal_catalog();
                fb.add(1, 0, &cat);
                fb.add(2, 0, &pages);
                fb.add(4, 0, &Val::Dict(dict.clone()));
                fb.add(49, 0, &Val::Int(49));
                fb.free(47, 1);
                fb.finish_table(&[("Root", Val::r(1))], Split::Runs);
                fb.bytes()
            };
            let tolerant = ci == 2;
            let load = |bytes: Vec<u8>| -> std::result::Result<Primitive, String> { (m.load_file)(bytes, tolerant) };
            t.evaluations += 1;
            t.distinct.insert(fnv_mix(fnv_mix(mi as u64, fi as u64), (di * 4 + ci) as u64));
            let res = catch(|| (load(build(&d)), load(build(&d0))));
            let verdict: std::result::Result<(), (String, String)> = match res {
                Err((loc, msg)) => Err((panic_kind(&loc), msg)),
                Ok((got, want)) => {
                    if !optional {
                        match got {
                            Ok(_) => Ok(()), // a model may tolerate it; the property only forbids a panic here
                            Err(e) => {
                                // the error must name the entry
                                if e.contains(&format!("field={}", f.key)) || e.contains("MissingEntry") || e.contains("FromPrimitive") || e.contains("KeyValueMismatch") {
                                    Ok(())
                                } else {
                                    Err(("required-entry-error-does-not-name-entry".into(), e))
                                }
                            }
                        }
                    } else {
                        match (got, want) {
                            (Ok(a), Ok(b)) => {
                                // an entry that still holds the reference to the missing object (plain Ref, raw
                                // Primitive or catch-all carriers keep it verbatim) is a null entry, i.e. absent
                                let a = strip_dangling(&a, DANGLING[di].1);
                                if prim_eq(&a, &b) {
                                    Ok(())
                                } else {
                                    Err(("dangling-entry-not-absent".into(), format!("with dangling /{}: {} ; without the entry: {}", f.key, crate::common::show_prim(&a), crate::common::show_prim(&b))))
                                }
                            }
                            (Err(e), Ok(_)) => Err(("dangling-entry-is-an-error".into(), format!("/{} -> {}: {}", f.key, DANGLING[di].1, e))),
                            (_, Err(e)) => {
                                t.notes.push(format!("model {} minimal dictionary without /{} does not load: {}", m.name, f.key, e));
                                Ok(())
                            }
                        }
                    }
                }
            };
            match verdict {
                Ok(()) => t.outcome("ok"),
                Err((kind, detail)) => {
                    t.outcome(&kind);
                    let mut devs = vec![format!("model={}", m.name), format!("field={}", f.key), format!("dangling={}", DANGLING[di].0)];
                    if tolerant {
                        devs.push("mode=tolerant".into());
                    }
                    t.fail("c18.model", &kind, devs, format!("{} /{} -> {} [{}]: {}", m.name, f.key, DANGLING[di].0, if tolerant { "tolerant" } else { "strict" }, detail), json!({"engine": "c18.model", "model": mi, "field": fi, "dangling": di, "config": ci}));
                }
            }
            t
        })
        .collect();
    for p in parts {
        tally.merge(p);
    }
}

pub fn run(tier: Tier, _seed: u64, tally: &mut Tally) -> CheckMeta {
    doc_level(tally, false);
    if tier.thorough() {
        doc_level(tally, true);
    }
    model_level(tally);
    tally.states = tally.evaluations;
    tally.transitions = tally.evaluations;
    tally.validated = tally.evaluations;
    tally.notes.sort();
    tally.notes.dedup();
    tally.sample(json!({"engine": "c18.document", "site": "Catalog/Outlines", "dangling": "free-entry (47 0 R)", "oracle": "walk equals the walk of the document with the entry removed"}));
    tally.sample(json!({"engine": "c18.model", "model": "Annot", "field": "Rect", "dangling": "beyond-size (5000 0 R)"}));
    let n_sites = sites().len();
    let n_fields: usize = models().iter().map(|m| m.fields.len()).sum();
    CheckMeta {
        prop: "C18",
        level: "model_checking",
        rule: format!("document level: {} entry sites of the rich document (optional entries of catalog, page tree, pages, resources and their dictionary values, fonts, descriptors, images, forms, trees, outlines, annotations, fields, info; array elements, with the array written in place or stored as an indirect object of its own; and 12 required entries) x {{free entry, number beyond /Size, number in a gap of the table, object freed by an incremental update with the generation incremented / kept, number equal to /Size and number above /Size that the sections nevertheless list, numbers of 1000001, 2^32-1 and 2^53}} x {{classic table, xref stream}} x {{strict, tolerant}} x {{cached, uncached}}: the complete walk must equal the walk of the same document with the entry removed (required entries: no panic). Thorough: every pair of optional sites dangling at once (same class; table: strict and tolerant uncached, stream: strict cached). Model level: each of {} fields of the C15 model table pointed at a dangling number inside a real file, typed load compared with the load of the dictionary without the field. Full product, distinct by (site, class, configuration).", n_sites, n_fields),
        assumptions: vec!["'treated as absent' is decided differentially against the document with the entry removed".into()],
        exhaustive: true,
        bounds: json!({"dangling_classes": DANGLING.len()}),
    }
}

pub fn replay(case: &Value, tally: &mut Tally) {
    let mut t = Tally::new();
    match case["engine"].as_str().unwrap_or("") {
        "c18.document" => doc_level(&mut t, case["site2"].as_i64().unwrap_or(-1) >= 0),
        _ => model_level(&mut t),
    }
    // replay = re-run the (small) engine and show the failures of the same site / model
    for f in t.all_failures() {
        let r = &f.replay;
        let same = if case["engine"] == "c18.document" { r["site"] == case["site"] && r["site2"].as_i64().unwrap_or(-1) == case["site2"].as_i64().unwrap_or(-1) && r["dangling"] == case["dangling"] } else { r["model"] == case["model"] && r["field"] == case["field"] && r["dangling"] == case["dangling"] };
        if same {
            println!("{} :: {}", f.signature(), f.detail);
            tally.add_failure(f.clone());
        }
    }
    let _ = val_to_prim;
}
