//! C19 — glyph widths and Unicode maps follow the font dictionaries exactly.
use crate::core::*;
use crate::explore::*;
use crate::pdfgen::val::*;
use crate::props::c04::val_to_prim;
use pdf::font::{write_cmap, Font, FontData, FontType, ToUnicodeMap};
use pdf::object::{NoResolve, Object, PlainRef, RcRef, Stream};
use pdf::primitive::Dictionary;
use serde_json::{json, Value};
use std::collections::BTreeMap;
use std::sync::atomic::{AtomicUsize, Ordering};
use std::sync::Arc;

static MAX_GROUPS: AtomicUsize = AtomicUsize::new(3);

fn descriptor() -> Val {
    Val::dict(vec![("Type", Val::name("FontDescriptor")), ("FontName", Val::name("F")), ("Flags", Val::Int(4)), ("FontBBox", Val::ints(&[0, 0, 1000, 1000])), ("ItalicAngle", Val::Int(0))])
}

const NGROUPS: &[&str] = &["1", "2", "3", "4"];
const FORM: &[&str] = &["c[w..]", "c1-c2-w"];
const LEN: &[&str] = &["2", "1", "3"];
const GAP: &[&str] = &["adjacent", "gap-1", "gap-40"];
const ANCHOR: &[&str] = &["0", "300", "65400", "last-code-65535"];
const DWS: &[&str] = &["1000-default-omitted", "0", "500"];
const PERMS: &[&str] = &["p0", "p1", "p2", "p3", "p4", "p5", "p6", "p7", "p8", "p9", "p10", "p11", "p12", "p13", "p14", "p15", "p16", "p17", "p18", "p19", "p20", "p21", "p22", "p23"];

fn nth_permutation(n: usize, mut k: usize) -> Vec<usize> {
    let mut items: Vec<usize> = (0..n).collect();
    let mut out = vec![];
    let mut f: usize = (1..n).product();
    for i in (0..n).rev() {
        let idx = k / f.max(1);
        k %= f.max(1);
        out.push(items.remove(idx));
        if i > 0 {
            f /= i;
        }
    }
    out
}

pub fn warray_case(ch: &mut Chooser, t: &mut Tally) {
    let maxg = MAX_GROUPS.load(Ordering::Relaxed);
    let n = ch.pick_free_named("groups", &NGROUPS[..maxg]) + 1;
    let anchor_i = ch.pick_free_named("anchor", ANCHOR);
    let anchor: usize = [0, 300, 65400, 0][anchor_i];
    let dwi = ch.pick_free_named("DW", DWS);
    let dw: f32 = [1000.0, 0.0, 500.0][dwi];
    // groups in ascending code order
    let mut groups: Vec<(usize, usize, bool)> = vec![]; // (first code, length, range form)
    let mut next = anchor;
    for g in 0..n {
        let form = ch.pick_free_named("form#", FORM);
        let len: usize = [2, 1, 3][if maxg >= 4 { ch.pick_named("len#", LEN) } else { ch.pick_free_named("len#", LEN) }];
        let gap = if g == 0 { 0 } else { [0usize, 1, 40][ch.pick_free_named("gap#", GAP)] };
        let first = next + gap;
        groups.push((first, len, form == 1));
        next = first + len;
    }
    if anchor_i == 3 {
        // the last group ends at the highest code
        let shift = 65536 - next;
        for g in groups.iter_mut() {
            g.0 += shift;
        }
    }
    let nperm: usize = (1..=n).product();
    let pk = ch.pick_free_named("order", &PERMS[..nperm]);
    let order = nth_permutation(n, pk);
    // reference model
    let mut model: BTreeMap<usize, f32> = BTreeMap::new();
    let mut w: Vec<Val> = vec![];
    for &gi in &order {
        let (first, len, range) = groups[gi];
        if range {
            let width = 100.0 + gi as f32 * 10.0 + 0.5;
            w.push(Val::Int(first as i64));
            w.push(Val::Int((first + len - 1) as i64));
            w.push(Val::real(&format!("{}", width)));
            for c in first..first + len {
                model.insert(c, width);
            }
        } else {
            w.push(Val::Int(first as i64));
            let mut arr = vec![];
            for i in 0..len {
                let width = 100 + gi * 10 + i + 1;
                arr.push(Val::Int(width as i64));
                model.insert(first + i, width as f32);
            }
            w.push(Val::Array(arr));
        }
    }
    let mut d = vec![
        ("Type", Val::name("Font")),
        ("Subtype", Val::name("CIDFontType2")),
        ("BaseFont", Val::name("F")),
        ("CIDSystemInfo", Val::dict(vec![("Registry", Val::str("Adobe")), ("Ordering", Val::str("Identity")), ("Supplement", Val::Int(0))])),
        ("FontDescriptor", descriptor()),
        ("W", Val::Array(w.clone())),
    ];
    if dwi != 0 {
        d.push(("DW", Val::Int(dw as i64)));
    }
    let fontv = Val::dict(d);
    t.evaluations += 1;
    t.distinct.insert(fnv(&print(&fontv)));
    if ch.want_sample {
        println!("font: {}", String::from_utf8_lossy(&print(&fontv)));
    }
    let mut queries: Vec<usize> = vec![0, 1, 65535, 65534];
    for &(first, len, _) in &groups {
        for d in -2i64..=2 {
            for base in [first as i64, (first + len) as i64 - 1] {
                let q = base + d;
                if (0..=65535).contains(&q) {
                    queries.push(q as usize);
                }
            }
        }
    }
    queries.sort();
    queries.dedup();
    let res = catch(|| -> std::result::Result<(), (String, String)> {
        let font = match Font::from_primitive(val_to_prim(&fontv), &NoResolve) {
            Ok(f) => f,
            Err(e) => return Err((format!("font-error:{}", err_variant(&e)), truncate(&format!("{}", err_root(&e)), 160))),
        };
        let widths = match font.widths(&NoResolve) {
            Ok(Some(w)) => w,
            Ok(None) => return Err(("no-widths".into(), String::new())),
            Err(e) => return Err((format!("widths-error:{}", err_variant(&e)), truncate(&format!("{}", err_root(&e)), 160))),
        };
        for &q in &queries {
            let expect = model.get(&q).copied().unwrap_or(dw);
            let got = widths.get(q);
            if got != expect {
                let kind = if model.contains_key(&q) { "assigned-width-wrong" } else { "default-width-wrong" };
                return Err((kind.into(), format!("/W {} /DW {}: code {} has width {} expected {}", String::from_utf8_lossy(&print(&Val::Array(w.clone()))), dw, q, got, expect)));
            }
        }
        Ok(())
    });
    let verdict = match res {
        Err((loc, msg)) => Err((panic_kind(&loc), format!("/W {}: {}", String::from_utf8_lossy(&print(&Val::Array(w.clone()))), msg))),
        Ok(r) => r,
    };
    match verdict {
        Ok(()) => t.outcome("ok"),
        Err((kind, detail)) => {
            t.outcome(&kind);
            let mut rv = ch.replay_value("c19.warray");
            rv["max_groups"] = json!(maxg);
            t.fail("c19.warray", &kind, ch.deviations(), detail, rv);
        }
    }
}

const FIRSTCHAR: &[&str] = &["32", "0", "250"];
const WLEN: &[&str] = &["5", "0", "1", "absent"];
const SUBTYPE: &[&str] = &["Type1", "TrueType"];

pub fn simple_case(ch: &mut Chooser, t: &mut Tally) {
    let first: i64 = [32, 0, 250][ch.pick_free_named("FirstChar", FIRSTCHAR)];
    let wl = ch.pick_free_named("Widths", WLEN);
    let st = ch.pick_free_named("Subtype", SUBTYPE);
    let n: i64 = [5, 0, 1, 0][wl];
    let mut d = vec![("Type", Val::name("Font")), ("Subtype", Val::name(SUBTYPE[st])), ("BaseFont", Val::name("Helvetica")), ("FirstChar", Val::Int(first)), ("LastChar", Val::Int(first + n - 1))];
    if wl != 3 {
        d.push(("Widths", Val::Array((0..n).map(|i| if i % 2 == 0 { Val::Int(500 + i) } else { Val::real(&format!("{}.25", 500 + i)) }).collect())));
    }
    let fontv = Val::dict(d);
    t.evaluations += 1;
    t.distinct.insert(fnv(&print(&fontv)));
    let res = catch(|| -> std::result::Result<(), (String, String)> {
        let font = match Font::from_primitive(val_to_prim(&fontv), &NoResolve) {
            Ok(f) => f,
            Err(e) => return Err((format!("font-error:{}", err_variant(&e)), truncate(&format!("{}", err_root(&e)), 160))),
        };
        let widths = match font.widths(&NoResolve) {
            Ok(Some(w)) => w,
            Ok(None) => return Err(("no-widths".into(), String::new())),
            Err(e) => return Err((format!("widths-error:{}", err_variant(&e)), String::new())),
        };
        for q in (first - 2).max(0)..=(first + n + 2) {
            let expect: f32 = if q >= first && q < first + n {
                let i = q - first;
                if i % 2 == 0 {
                    (500 + i) as f32
                } else {
                    (500 + i) as f32 + 0.25
                }
            } else {
                0.0
            };
            let got = widths.get(q as usize);
            if got != expect {
                return Err(("simple-width-wrong".into(), format!("{}: code {} width {} expected {}", String::from_utf8_lossy(&print(&fontv)), q, got, expect)));
            }
        }
        Ok(())
    });
    let verdict = match res {
        Err((loc, msg)) => Err((panic_kind(&loc), msg)),
        Ok(r) => r,
    };
    match verdict {
        Ok(()) => t.outcome("ok"),
        Err((kind, detail)) => {
            t.outcome(&kind);
            t.fail("c19.simple", &kind, ch.deviations(), detail, ch.replay_value("c19.simple"));
        }
    }
}

fn font_with_tounicode(data: Vec<u8>) -> Font {
    Font {
        subtype: FontType::Type1,
        name: Some("F".into()),
        data: FontData::Other(Dictionary::new()),
        encoding: None,
        to_unicode: Some(RcRef::new(PlainRef { id: 1, gen: 0 }, Arc::new(Stream::new((), data)))),
        _other: Dictionary::new(),
    }
}
fn read_map(data: Vec<u8>) -> std::result::Result<BTreeMap<u16, String>, (String, String)> {
    let font = font_with_tounicode(data);
    match font.to_unicode(&NoResolve) {
        None => Err(("no-tounicode".into(), String::new())),
        Some(Err(e)) => Err((format!("cmap-error:{}", err_variant(&e)), truncate(&format!("{}", err_root(&e)), 160))),
        Some(Ok(m)) => Ok(m.iter().map(|(c, s)| (c, s.to_string())).collect()),
    }
}

const CODES: [u16; 9] = [0, 1, 2, 3, 0xff, 0x100, 0x101, 0xfffe, 0xffff];
const TEXTS: [&str; 7] = ["A", "AB", "\u{ffff}", "\u{10000}", "\u{10ffff}", "\u{feff}", "\u{feff}y"];

/// write_cmap then Font::to_unicode must give the same map; all maps with <= 3 entries over CODES x TEXTS
fn writer_roundtrip(tally: &mut Tally) {
    use rayon::prelude::*;
    let entries: Vec<(u16, &str)> = CODES.iter().flat_map(|&c| TEXTS.iter().map(move |&t| (c, t))).collect();
    let n = entries.len();
    let firsts: Vec<usize> = (0..n).collect();
    let parts: Vec<Tally> = firsts
        .par_iter()
        .map(|&i| {
            let mut t = Tally::new();
            let mut check = |sel: &[usize], t: &mut Tally| {
                let mut model: BTreeMap<u16, String> = BTreeMap::new();
                for &k in sel {
                    model.insert(entries[k].0, entries[k].1.to_string());
                }
                if model.len() != sel.len() {
                    return; // duplicate code
                }
                t.evaluations += 1;
                t.distinct.insert(fnv(format!("{:?}", model).as_bytes()));
                let res = catch(|| {
                    let map = ToUnicodeMap::create(model.iter().map(|(&c, s)| (c, s.as_str().into())));
                    let text = write_cmap(&map);
                    (text.clone(), read_map(text.into_bytes()))
                });
                let verdict = match res {
                    Err((loc, msg)) => Err((panic_kind(&loc), msg)),
                    Ok((text, Ok(got))) => {
                        if got == model {
                            Ok(())
                        } else {
                            Err(("map-differs".to_string(), format!("map {:?} written as `{}` read back as {:?}", model, text.replace('\n', "\\n"), got)))
                        }
                    }
                    Ok((_, Err(e))) => Err(e),
                };
                match verdict {
                    Ok(()) => t.outcome("ok"),
                    Err((kind, detail)) => {
                        t.outcome(&kind);
                        // classify: consecutive codes present (range form) or not; supplementary plane texts
                        let codes: Vec<u16> = model.keys().cloned().collect();
                        let mut devs = vec![];
                        if codes.windows(2).any(|w| w[1] == w[0].wrapping_add(1)) {
                            devs.push("consecutive-codes".to_string());
                        }
                        if model.values().any(|s| s.chars().any(|c| c as u32 > 0xffff)) {
                            devs.push("supplementary-plane".to_string());
                        }
                        t.fail("c19.writer", &kind, devs, detail, json!({"engine": "c19.writer", "entries": sel}));
                    }
                }
            };
            check(&[i], &mut t);
            for j in i + 1..n {
                check(&[i, j], &mut t);
                for k in j + 1..n {
                    check(&[i, j, k], &mut t);
                }
            }
            t
        })
        .collect();
    for p in parts {
        tally.merge(p);
    }
}

// conformant CMap texts from the producer
const CODEBYTES: &[&str] = &["2-byte", "1-byte"];
const SECTION: &[&str] = &["bfchar", "bfrange-string", "bfrange-array", "mixed"];
const HEXCASE: &[&str] = &["upper", "lower", "inner-ws"];
const SEP: &[&str] = &["SP", "LF", "CRLF", "none", "comment"];
const DEST: &[&str] = &["A", "AB", "supplementary", "U+00FE", "U+FFFD", "U+00FF", "U+FEFD", "U+FEFF+A"];
const RANGELEN: &[&str] = &["3", "1", "2"];
const START: &[&str] = &["0x10", "0", "0xFD", "0xFFFD"];

fn hexs(bytes: &[u8], style: usize) -> String {
    let mut s = String::from("<");
    for (i, b) in bytes.iter().enumerate() {
        match style {
            1 => s.push_str(&format!("{:02x}", b)),
            2 => {
                s.push_str(&format!("{:X}", b >> 4));
                s.push_str([" ", "\n", "\t"][i % 3]);
                s.push_str(&format!("{:X}", b & 15));
            }
            _ => s.push_str(&format!("{:02X}", b)),
        }
    }
    s.push('>');
    s
}
fn utf16(text: &str) -> Vec<u8> {
    text.encode_utf16().flat_map(|u| u.to_be_bytes()).collect()
}

pub fn cmap_case(ch: &mut Chooser, t: &mut Tally) {
    let onebyte = ch.pick_free_named("codes", CODEBYTES) == 1;
    let section = ch.pick_free_named("section", SECTION);
    let desti = ch.pick_free_named("dest", DEST);
    let rlen: u16 = [3, 1, 2][ch.pick_free_named("range-len", RANGELEN)];
    let start: u16 = [0x10, 0, 0xFD, 0xFFFD][ch.pick_free_named("start", START)];
    let hexcase = ch.pick_named("hex", HEXCASE);
    let sepi = ch.pick_named("sep", SEP);
    let header = ch.pick_named("header", &["full", "none"]);
    if onebyte && start > 0xFD {
        return;
    }
    let start = if onebyte { start.min(0xFD) } else { start };
    let span = if section == 3 { 4 } else { rlen as u32 - 1 };
    if (start as u32 + span) > if onebyte { 0xff } else { 0xffff } {
        return;
    }
    let sep = ["\u{20}", "\n", "\r\n", "", "%c\n"][sepi];
    let code = |c: u16| if onebyte { hexs(&[c as u8], hexcase) } else { hexs(&c.to_be_bytes(), hexcase) };
    let dest = ["A", "AB", "\u{1F600}", "\u{fe}", "\u{fffd}", "\u{ff}", "\u{fefd}", "\u{feff}A"][desti];
    let mut model: BTreeMap<u16, String> = BTreeMap::new();
    let mut body = String::new();
    // per spec a range with a string destination increments the last byte of the string; it must not overflow 255
    let bump = |s: &str, k: u16| -> Option<String> {
        let mut b = utf16(s);
        let last = b.last_mut().unwrap();
        let v = *last as u16 + k;
        if v > 255 {
            return None;
        }
        *last = v as u8;
        let units: Vec<u16> = b.chunks(2).map(|c| u16::from_be_bytes([c[0], c[1]])).collect();
        String::from_utf16(&units).ok()
    };
    let mut add_bfchar = |body: &mut String, model: &mut BTreeMap<u16, String>, c: u16, text: &str| {
        body.push_str(&format!("{}{}{}\n", code(c), sep, hexs(&utf16(text), hexcase)));
        model.insert(c, text.to_string());
    };
    match section {
        0 => {
            body.push_str(&format!("{} beginbfchar\n", rlen));
            for k in 0..rlen {
                let text = format!("{}{}", dest, (b'a' + k as u8) as char);
                add_bfchar(&mut body, &mut model, start + k, &text);
            }
            body.push_str("endbfchar\n");
        }
        1 => {
            for k in 0..rlen {
                match bump(dest, k) {
                    Some(s) => {
                        model.insert(start + k, s);
                    }
                    None => return,
                }
            }
            body.push_str(&format!("1 beginbfrange\n{}{}{}{}{}\nendbfrange\n", code(start), sep, code(start + (rlen - 1)), sep, hexs(&utf16(dest), hexcase)));
        }
        2 => {
            let mut arr = String::from("[");
            for k in 0..rlen {
                let text = format!("{}{}", dest, (b'a' + k as u8) as char);
                if k > 0 {
                    arr.push_str(if sep.is_empty() { "" } else { sep });
                }
                arr.push_str(&hexs(&utf16(&text), hexcase));
                model.insert(start + k, text);
            }
            arr.push(']');
            body.push_str(&format!("1 beginbfrange\n{}{}{}{}{}\nendbfrange\n", code(start), sep, code(start + (rlen - 1)), sep, arr));
        }
        _ => {
            // a bfchar section, then two ranges in one bfrange section, then another bfchar section
            body.push_str("1 beginbfchar\n");
            add_bfchar(&mut body, &mut model, start, dest);
            body.push_str("endbfchar\n");
            if let (Some(a), true) = (bump("X", 0), start as u32 + 4 <= if onebyte { 0xff } else { 0xffff }) {
                let _ = a;
                body.push_str(&format!("2 beginbfrange\n{} {} {}\n{} {} [{}]\nendbfrange\n", code(start + 1), code(start + 2), hexs(&utf16("X"), hexcase), code(start + 3), code(start + 3), hexs(&utf16("end"), hexcase)));
                model.insert(start + 1, "X".into());
                model.insert(start + 2, "Y".into());
                model.insert(start + 3, "end".into());
                body.push_str("1 beginbfchar\n");
                add_bfchar(&mut body, &mut model, start + 4, "last");
                body.push_str("endbfchar\n");
            }
        }
    }
    let mut text = String::new();
    if header == 0 {
        text.push_str("/CIDInit /ProcSet findresource begin\n12 dict begin\nbegincmap\n/CIDSystemInfo << /Registry (Adobe) /Ordering (UCS) /Supplement 0 >> def\n/CMapName /Adobe-Identity-UCS def\n/CMapType 2 def\n1 begincodespacerange\n");
        text.push_str(if onebyte { "<00> <FF>\n" } else { "<0000> <FFFF>\n" });
        text.push_str("endcodespacerange\n");
    }
    text.push_str(&body);
    if header == 0 {
        text.push_str("endcmap\nCMapName currentdict /CMap defineresource pop\nend\nend\n");
    }
    t.evaluations += 1;
    t.distinct.insert(fnv(text.as_bytes()));
    if ch.want_sample {
        println!("cmap:\n{}", text);
    }
    let res = catch(|| read_map(text.clone().into_bytes()));
    let verdict = match res {
        Err((loc, msg)) => Err((panic_kind(&loc), msg)),
        Ok(Err(e)) => Err(e),
        Ok(Ok(got)) => {
            if got == model {
                Ok(())
            } else {
                Err(("map-differs".to_string(), format!("cmap body `{}` gives {:?} expected {:?}", body.replace('\n', "\\n"), got, model)))
            }
        }
    };
    match verdict {
        Ok(()) => t.outcome("ok"),
        Err((kind, detail)) => {
            t.outcome(&kind);
            t.fail("c19.cmap", &kind, ch.deviations(), detail, ch.replay_value("c19.cmap"));
        }
    }
}

pub fn run(tier: Tier, _seed: u64, tally: &mut Tally) -> CheckMeta {
    let maxg = 4;
    MAX_GROUPS.store(maxg, Ordering::Relaxed);
    explore("c19.warray", Limits::new(if tier.thorough() { 4 } else { 1 }).wall(if tier.thorough() { 2400 } else { 600 }), tally, warray_case);
    explore("c19.simple", Limits::new(0), tally, simple_case);
    writer_roundtrip(tally);
    explore("c19.cmap", Limits::new(if tier.thorough() { 3 } else { 2 }), tally, cmap_case);
    tally.validated = tally.evaluations;
    tally.sample(json!({"engine": "c19.warray", "W": "[302 [111 112] 300 301 100.5 345 [121]]", "DW": 500, "queries": "every code within 2 of a range end, 0, 65535"}));
    tally.sample(json!({"engine": "c19.writer", "map": {"1": "A", "2": "AB", "65535": "\u{10000}"}}));
    tally.sample(json!({"engine": "c19.cmap", "body": "1 beginbfrange\\n<00FD> <00FF> <0041>\\nendbfrange"}));
    CheckMeta {
        prop: "C19",
        level: "model_checking",
        rule: format!("composite /W arrays: full product of 1..{} groups x form {{c [w..], c1 c2 w}} x length {{1,2,3}} x spacing {{adjacent, gap 1, gap 40}} x anchor {{0, 300, 65400, last group ending at 65535}} x every permutation of the groups x DW {{1000 omitted, 0, 500}}, queried at every code within 2 of each range end plus 0/1/65534/65535; simple fonts: FirstChar x Widths length x subtype; write_cmap round trip for all maps with <= 3 entries over 9 codes x 7 texts (BMP, U+FFFF, supplementary planes, texts beginning with U+FEFF); conformant CMap texts (bfchar, bfrange with string and array destinations, mixed sections, 1- and 2-byte codes, range lengths, start codes incl. 0xFD/0xFFFD) x hex case / separators / header presence with bounded deviations. Distinct by the printed font dictionary / cmap text.", maxg),
        assumptions: vec!["MissingWidth absent for simple fonts (default 0 is unambiguous only then)".into(), "bfrange string destinations whose last byte would overflow are not generated (the spec leaves them undefined)".into()],
        exhaustive: true,
        bounds: json!({"groups": maxg}),
    }
}

pub fn replay(case: &Value, tally: &mut Tally) {
    let picks: Vec<u32> = case["picks"].as_array().map(|a| a.iter().map(|x| x.as_u64().unwrap() as u32).collect()).unwrap_or_default();
    match case["engine"].as_str().unwrap_or("") {
        "c19.warray" => {
            MAX_GROUPS.store(case["max_groups"].as_u64().unwrap_or(3) as usize, Ordering::Relaxed);
            run_one(&picks, tally, warray_case);
        }
        "c19.simple" => {
            run_one(&picks, tally, simple_case);
        }
        "c19.cmap" => {
            run_one(&picks, tally, cmap_case);
        }
        _ => {
            let mut t = Tally::new();
            writer_roundtrip(&mut t);
            for f in t.all_failures() {
                println!("writer failure: {} :: {}", f.signature(), f.detail);
                tally.add_failure(f.clone());
            }
        }
    }
}
