//! C20 — a page imported into another document is equal and self-contained.
use crate::common::*;
use crate::core::*;
use crate::pdfgen::crypt::*;
use crate::pdfgen::docs::*;
use crate::pdfgen::file::*;
use crate::pdfgen::val::*;
use crate::props::c08::canon_seq;
use pdf::build::{CatalogBuilder, Importer, PageBuilder, PdfBuilder};
use pdf::content::{Color, Op};
use pdf::file::FileOptions;
use pdf::object::*;
use pdf::primitive::Primitive;
use rayon::prelude::*;
use serde_json::{json, Value};
use std::cell::RefCell;
use std::io::{BufRead, BufReader, Write};
use std::process::{Child, ChildStdin, ChildStdout, Command, Stdio};

pub const STORAGE: &[&str] = &["classic", "xrefstream+objstm", "rc4-encrypted", "aes128-encrypted"];
/// how the category dictionaries of the resources (/Font, /XObject, /Shading, ...) are stored, and whether the form XObject
/// uses the page's own resources object (a cycle page resources -> form -> same resources)
pub const SHAPE: &[&str] = &["categories-direct", "categories-indirect", "form-shares-the-resources-object", "categories-indirect+form-shares"];
pub const RESOURCES: &[&str] = &["inherited-from-tree", "direct-per-page", "indirect-per-page", "one-shared-indirect"];
/// how the source document is opened and used around the import
pub const SOURCE_USE: &[&str] = &["uncached", "cached", "cached+streams-read-before-import"];
pub const EXTRAS: &[&str] = &["acyclic-extras", "cyclic-extra(PieceInfo->object->page)", "shared-extra-on-two-pages"];

/// three-page source document
pub fn source_objects(resources: usize, extras: usize) -> Vec<(u64, Val)> {
    source_objects_shaped(resources, extras, 0)
}
pub fn source_objects_shaped(resources: usize, extras: usize, shape: usize) -> Vec<(u64, Val)> {
    let mut o = rich_objects();
    if shape == 1 || shape == 3 {
        // every category dictionary of the resources object becomes an indirect object of its own (80, 81, ...)
        let res = o.iter().find(|(n, _)| *n == 5).unwrap().1.clone();
        if let Val::Dict(entries) = res {
            let mut new_entries = vec![];
            let mut next = 80u64;
            for (k, v) in entries {
                if matches!(v, Val::Dict(_)) {
                    o.push((next, v));
                    new_entries.push((k, Val::Ref(next, 0)));
                    next += 1;
                } else {
                    new_entries.push((k, v));
                }
            }
            o.iter_mut().find(|(n, _)| *n == 5).unwrap().1 = Val::Dict(new_entries);
        }
    }
    if shape == 2 || shape == 3 {
        o.iter_mut().find(|(n, _)| *n == 17).unwrap().1.set("Resources", Val::r(5));
    }
    let set = |o: &mut Vec<(u64, Val)>, nr: u64, key: &str, v: Val| {
        o.iter_mut().find(|(n, _)| *n == nr).unwrap().1.set(key, v);
    };
    let unset = |o: &mut Vec<(u64, Val)>, nr: u64, key: &str| {
        o.iter_mut().find(|(n, _)| *n == nr).unwrap().1.remove(key);
    };
    // third page: uses the shared font and image again, plus its own ext-gstate name
    o.push((39, Val::dict(vec![("Type", Val::name("Page")), ("Parent", Val::r(2)), ("Contents", Val::r(51)), ("MediaBox", Val::ints(&[0, 0, 300, 400])), ("Rotate", Val::Int(180))])));
    o.push((51, Val::stream(vec![], b"BT /F1 9 Tf (third) Tj ET q 2 0 0 2 0 0 cm /Im1 Do Q /GS1 gs /Fm1 Do /ImLzw Do /GS3 gs\n".to_vec())));
    // an image whose filter parameters matter although there is no predictor: LZW with /EarlyChange 0, enough data for
    // the code width to change (a copy that loses the parameter decodes to something else or not at all)
    {
        let mut x = 12345u32;
        let samples: Vec<u8> = (0..1024)
            .map(|_| {
                x = x.wrapping_mul(1664525).wrapping_add(1013904223);
                (x >> 24) as u8
            })
            .collect();
        o.push((
            56,
            Val::stream(
                vec![("Type", Val::name("XObject")), ("Subtype", Val::name("Image")), ("Width", Val::Int(64)), ("Height", Val::Int(16)), ("ColorSpace", Val::name("DeviceGray")), ("BitsPerComponent", Val::Int(8)), ("Filter", Val::name("LZWDecode")), ("DecodeParms", Val::dict(vec![("EarlyChange", Val::Int(0))]))],
                crate::pdfgen::filters::lzw_encode(&samples, false, 0),
            ),
        ));
        // a graphics state whose parameters hold references: a soft mask with its transparency group, a font
        let gs_val = o.iter().find(|(n, _)| *n == 5).unwrap().1.get("ExtGState").unwrap().clone();
        let gs3 = Val::dict(vec![("Type", Val::name("ExtGState")), ("SMask", Val::dict(vec![("Type", Val::name("Mask")), ("S", Val::name("Luminosity")), ("G", Val::r(43))])), ("Font", Val::Array(vec![Val::r(9), Val::Int(12)])), ("CA", Val::real("0.5"))]);
        match gs_val {
            Val::Ref(nr, _) => o.iter_mut().find(|(n, _)| *n == nr).unwrap().1.set("GS3", gs3),
            mut g => {
                g.set("GS3", gs3);
                o.iter_mut().find(|(n, _)| *n == 5).unwrap().1.set("ExtGState", g);
            }
        }
        // (with the shapes that store the category dictionaries as objects of their own, /XObject is a reference)
        let xo_val = o.iter().find(|(n, _)| *n == 5).unwrap().1.get("XObject").unwrap().clone();
        match xo_val {
            Val::Ref(nr, _) => o.iter_mut().find(|(n, _)| *n == nr).unwrap().1.set("ImLzw", Val::r(56)),
            mut xo => {
                xo.set("ImLzw", Val::r(56));
                o.iter_mut().find(|(n, _)| *n == 5).unwrap().1.set("XObject", xo);
            }
        }
    }
    set(&mut o, 2, "Kids", Val::Array(vec![Val::r(3), Val::r(4), Val::r(39)]));
    set(&mut o, 2, "Count", Val::Int(3));
    // a crop box inherited from the page tree (pages 4 and 39 have none of their own), except in the
    // documents with the cyclic private object, where those pages keep the default (their media box)
    if extras != 1 {
        set(&mut o, 2, "CropBox", Val::ints(&[36, 48, 280, 390]));
    }
    let res_val = o.iter().find(|(n, _)| *n == 5).unwrap().1.clone();
    match resources {
        0 => {}
        1 => {
            unset(&mut o, 2, "Resources");
            for p in [3u64, 4, 39] {
                set(&mut o, p, "Resources", res_val.clone());
            }
        }
        2 => {
            unset(&mut o, 2, "Resources");
            for (i, p) in [3u64, 4, 39].iter().enumerate() {
                o.push((52 + i as u64, res_val.clone()));
                set(&mut o, *p, "Resources", Val::r(52 + i as u64));
            }
        }
        _ => {
            unset(&mut o, 2, "Resources");
            for p in [3u64, 4, 39] {
                set(&mut o, p, "Resources", Val::r(5));
            }
        }
    }
    match extras {
        0 => {
            // acyclic: the private object no longer points back to the page
            set(&mut o, 34, "Back", Val::Null);
        }
        1 => {}
        _ => {
            set(&mut o, 34, "Back", Val::Null);
            set(&mut o, 3, "PieceInfo", Val::dict(vec![("App", Val::dict(vec![("Private", Val::r(34))]))]));
        }
    }
    o
}

pub fn source_bytes(storage: usize, resources: usize, extras: usize) -> (Vec<u8>, Vec<u8>) {
    source_bytes_shaped(storage, resources, extras, 0)
}
pub fn source_bytes_shaped(storage: usize, resources: usize, extras: usize, shape: usize) -> (Vec<u8>, Vec<u8>) {
    let objs = source_objects_shaped(resources, extras, shape);
    match storage {
        0 => (rich_doc_with(b"", DocOpts::CLASSIC, &objs), vec![]),
        1 => (rich_doc_with(b"", DocOpts::STREAM, &objs), vec![]),
        _ => {
            let id0 = b"0123456789abcdef".to_vec();
            let sec = Security::new(if storage == 2 { Variant::R3(16) } else { Variant::R4Aes }, b"user", b"owner", -4, &id0, true);
            let mut fb = FileBuilder::new(b"");
            let crypt = |n: u64, g: u16, d: &[u8]| sec.encrypt(n, g, d);
            fb.crypt = Some(&crypt);
            fb.no_crypt = vec![90];
            for (nr, v) in &objs {
                fb.add(*nr, 0, v);
            }
            fb.add(90, 0, &sec.dict());
            fb.finish_table(&[("Root", Val::r(1)), ("Info", Val::r(37)), ("Encrypt", Val::r(90)), ("ID", Val::Array(vec![Val::Str(id0.clone()), Val::Str(id0.clone())]))], Split::Runs);
            (fb.bytes(), b"user".to_vec())
        }
    }
}

/// structural equality of two values living in two documents (references followed, numbers ignored)
fn deep_equal(a: &Primitive, ra: &impl Resolve, b: &Primitive, rb: &impl Resolve, seen: &mut Vec<(u64, u64)>, depth: usize) -> std::result::Result<(), String> {
    let mut out = vec![];
    deep_diffs(a, ra, b, rb, seen, depth, "", &mut out);
    match out.into_iter().next() {
        None => Ok(()),
        Some((path, m)) => Err(format!("{}: {}", path, m)),
    }
}
/// every difference between two values living in two documents: (key path, description). References are followed, object
/// numbers ignored; the walk goes on after a difference so that one known difference does not hide the others.
fn deep_diffs(a: &Primitive, ra: &impl Resolve, b: &Primitive, rb: &impl Resolve, seen: &mut Vec<(u64, u64)>, depth: usize, path: &str, out: &mut Vec<(String, String)>) {
    if depth == 0 || out.len() > 20 {
        return;
    }
    match (a, b) {
        (Primitive::Reference(x), Primitive::Reference(y)) => {
            if seen.contains(&(x.id, y.id)) {
                return;
            }
            seen.push((x.id, y.id));
            match (ra.resolve(*x), rb.resolve(*y)) {
                (Ok(pa), Ok(pb)) => deep_diffs(&pa, ra, &pb, rb, seen, depth - 1, path, out),
                (Err(e), _) => out.push((path.to_string(), format!("source object {} unreadable: {}", x.id, err_variant(&e)))),
                (_, Err(e)) => out.push((path.to_string(), format!("copied object {} (of source {}) unreadable: {}", y.id, x.id, err_variant(&e)))),
            }
        }
        (Primitive::Reference(x), other) => match ra.resolve(*x) {
            Ok(pa) => deep_diffs(&pa, ra, other, rb, seen, depth - 1, path, out),
            Err(e) => out.push((path.to_string(), format!("source object {} unreadable: {}", x.id, err_variant(&e)))),
        },
        (other, Primitive::Reference(y)) => match rb.resolve(*y) {
            Ok(pb) => deep_diffs(other, ra, &pb, rb, seen, depth - 1, path, out),
            Err(e) => out.push((path.to_string(), format!("copied object {} unreadable: {}", y.id, err_variant(&e)))),
        },
        (Primitive::Dictionary(x), Primitive::Dictionary(y)) => {
            for (k, v) in x.iter() {
                if k.as_str() == "Parent" || k.as_str() == "P" || k.as_str() == "ProcSet" {
                    continue; // back-pointers into the page tree are re-created, not copied; /ProcSet is obsolete
                }
                let sub = format!("{}/{}", path, k.as_str());
                match y.get(k.as_str()) {
                    Some(w) => deep_diffs(v, ra, w, rb, seen, depth - 1, &sub, out),
                    None => {
                        if !matches!(v, Primitive::Null) {
                            out.push((sub, "entry missing in the copy".into()));
                        }
                    }
                }
            }
        }
        (Primitive::Stream(x), Primitive::Stream(y)) => {
            let mut iy = y.info.clone();
            let mut ix = x.info.clone();
            ix.remove("Length");
            iy.remove("Length");
            deep_diffs(&Primitive::Dictionary(ix), ra, &Primitive::Dictionary(iy), rb, seen, depth - 1, path, out);
            // decoded data must agree (the copy may be stored re-encoded)
            let da = Stream::<()>::from_stream(x.clone(), ra).and_then(|s| s.data(ra));
            let db = Stream::<()>::from_stream(y.clone(), rb).and_then(|s| s.data(rb));
            let sub = format!("{}(data)", path);
            match (da, db) {
                (Ok(p), Ok(q)) if p == q => {}
                (Ok(p), Ok(q)) => {
                    // content streams (patterns, forms) may be re-serialised: equal operation sequences are equal content
                    let is_content = x.info.get("PatternType").is_some() || x.info.get("Subtype").and_then(|s| s.as_name().ok()) == Some("Form");
                    if is_content {
                        if let (Ok(a), Ok(b)) = (pdf::content::parse_ops(&p, ra), pdf::content::parse_ops(&q, rb)) {
                            if canon_seq(&a) == canon_seq(&b) {
                                return;
                            }
                        }
                    }
                    out.push((sub, format!("stream data differs: source {} copy {}", show_bytes(&p[..p.len().min(40)]), show_bytes(&q[..q.len().min(40)]))));
                }
                (Err(_), Err(_)) => {
                    // undecodable in both (e.g. CCITT): compare raw
                    match (x.raw_data(ra), y.raw_data(rb)) {
                        (Ok(p), Ok(q)) if p == q => {}
                        _ => out.push((sub, "raw stream data differs".into())),
                    }
                }
                (Ok(_), Err(e)) => out.push((sub, format!("copied stream data unreadable: {}", err_variant(&e)))),
                (Err(e), Ok(_)) => out.push((sub, format!("source stream data unreadable but copy readable: {}", err_variant(&e)))),
            }
        }
        (Primitive::Array(x), Primitive::Array(y)) => {
            if x.len() != y.len() {
                out.push((path.to_string(), format!("array length {} vs {}", x.len(), y.len())));
                return;
            }
            for (i, (p, q)) in x.iter().zip(y).enumerate() {
                deep_diffs(p, ra, q, rb, seen, depth - 1, &format!("{}[{}]", path, i), out);
            }
        }
        (p, q) => {
            if !crate::props::c04::prim_eq(p, q) {
                out.push((path.to_string(), format!("{} vs {}", show_prim(p), show_prim(q))));
            }
        }
    }
}

/// resource names used by a list of operations: (category key of the resource dictionary, name)
fn used_names(ops: &[Op]) -> Vec<(&'static str, String)> {
    let mut v: Vec<(&'static str, String)> = vec![];
    for op in ops {
        match op {
            Op::TextFont { name, .. } => v.push(("Font", name.as_str().to_string())),
            Op::XObject { name } => v.push(("XObject", name.as_str().to_string())),
            Op::GraphicsState { name } => v.push(("ExtGState", name.as_str().to_string())),
            Op::FillColorSpace { name } | Op::StrokeColorSpace { name } => {
                if !matches!(name.as_str(), "DeviceGray" | "DeviceRGB" | "DeviceCMYK" | "Pattern") {
                    v.push(("ColorSpace", name.as_str().to_string()))
                }
            }
            Op::Shade { name } => v.push(("Shading", name.as_str().to_string())),
            Op::FillColor { color: Color::Other(args) } | Op::StrokeColor { color: Color::Other(args) } => {
                if let Some(Primitive::Name(n)) = args.last() {
                    v.push(("Pattern", n.as_str().to_string()));
                }
            }
            Op::BeginMarkedContent { properties: Some(Primitive::Name(n)), .. } | Op::MarkedContentPoint { properties: Some(Primitive::Name(n)), .. } => v.push(("Properties", n.as_str().to_string())),
            _ => {}
        }
    }
    v.sort();
    v.dedup();
    v
}

/// the raw resources dictionary of a page (own or inherited), as primitive
fn raw_resources(r: &impl Resolve, page_ref: PlainRef) -> Option<Primitive> {
    let mut cur = page_ref;
    for _ in 0..20 {
        let d = match r.resolve(cur).ok()? {
            Primitive::Dictionary(d) => d,
            _ => return None,
        };
        if let Some(res) = d.get("Resources") {
            return match res {
                Primitive::Reference(rf) => r.resolve(*rf).ok(),
                p => Some(p.clone()),
            };
        }
        match d.get("Parent") {
            Some(Primitive::Reference(p)) => cur = *p,
            _ => return None,
        }
    }
    None
}

fn show_res(r: &std::result::Result<Vec<u8>, String>) -> String {
    match r {
        Ok(d) => show_bytes(&d[..d.len().min(24)]),
        Err(e) => format!("error {}", e),
    }
}
/// one import case, executed inside the worker
/// (every difference is reported, not only the first: a known finding on one resource must not hide the others)
pub fn run_case(src: &[u8], pw: &[u8], selection: &[u32], source_use: usize) -> std::result::Result<String, Vec<(String, String)>> {
    run_case_inner(src, pw, selection, source_use).map_err(|e| e).and_then(|(class, diffs)| if diffs.is_empty() { Ok(class) } else { Err(diffs) })
}
/// decoded data of every stream object of a document (object number -> data or error variant)
fn all_stream_data(r: &impl Resolve, max_nr: u64) -> Vec<(u64, std::result::Result<Vec<u8>, String>)> {
    let mut v = vec![];
    for nr in 1..=max_nr {
        if let Ok(p @ Primitive::Stream(_)) = r.resolve(PlainRef { id: nr, gen: 0 }) {
            let d = Stream::<()>::from_primitive(p, r).and_then(|s| s.data(r)).map(|d| d.to_vec()).map_err(|e| err_variant(&e));
            v.push((nr, d));
        }
    }
    v
}
fn run_case_inner(src: &[u8], pw: &[u8], selection: &[u32], source_use: usize) -> std::result::Result<(String, Vec<(String, String)>), Vec<(String, String)>> {
    let mut diffs: Vec<(String, String)> = vec![];
    // the reference for everything the source says: the same bytes opened without caches and never imported from
    let pristine = match FileOptions::uncached().password(pw).load(src.to_vec()) {
        Ok(f) => f,
        Err(e) => return Ok((format!("source-does-not-load:{}", err_variant(&e)), vec![])),
    };
    let max_nr = (pristine.trailer.size.max(1) as u64).min(400);
    if source_use == 0 {
        match FileOptions::uncached().password(pw).load(src.to_vec()) {
            Ok(f) => import_and_compare(&f, &pristine, max_nr, selection, source_use, diffs),
            Err(e) => Ok((format!("source-does-not-load:{}", err_variant(&e)), vec![])),
        }
    } else {
        match FileOptions::cached().password(pw).load(src.to_vec()) {
            Ok(f) => import_and_compare(&f, &pristine, max_nr, selection, source_use, diffs),
            Err(e) => Ok((format!("source-does-not-load:{}", err_variant(&e)), vec![])),
        }
    }
}
type ImportResult = std::result::Result<(String, Vec<(String, String)>), Vec<(String, String)>>;
fn import_and_compare<OC, SC, L>(src_file: &pdf::file::File<Vec<u8>, OC, SC, L>, pristine: &pdf::file::File<Vec<u8>, pdf::file::NoCache, pdf::file::NoCache, pdf::file::NoLog>, max_nr: u64, selection: &[u32], source_use: usize, mut diffs: Vec<(String, String)>) -> ImportResult
where
    OC: pdf::file::Cache<pdf::error::Result<pdf::any::AnySync, std::sync::Arc<pdf::error::PdfError>>>,
    SC: pdf::file::Cache<pdf::error::Result<std::sync::Arc<[u8]>, std::sync::Arc<pdf::error::PdfError>>>,
    L: pdf::file::Log,
{
    if source_use == 2 {
        // a viewer has shown the document before the pages are imported
        let _ = all_stream_data(&src_file.resolver(), max_nr);
    }
    let mut builder = PdfBuilder::new(FileOptions::uncached());
    let mut pages = vec![];
    {
        let mut importer = Importer::new(src_file.resolver(), &mut builder.storage);
        for &i in selection {
            let page = match src_file.get_page(i) {
                Ok(p) => p,
                Err(e) => return Ok((format!("source-page-unreadable:{}", err_variant(&e)), vec![])),
            };
            match PageBuilder::clone_page(&page, &mut importer) {
                Ok(pb) => pages.push(pb),
                // "when importing succeeds": an error is allowed
                Err(e) => return Ok((format!("import-error:{}", err_variant(&e)), vec![])),
            }
        }
    }
    let bytes = match builder.build(CatalogBuilder::from_pages(pages)) {
        Ok(b) => b,
        Err(e) => return Ok((format!("build-error:{}", err_variant(&e)), vec![])),
    };
    // closure: every reference of the new document points into the new document
    let doc = crate::refread::RefDoc::open(&bytes).map_err(|m| vec![("new-document-structure".to_string(), m)])?;
    let problems = doc.validate(true);
    if !problems.is_empty() {
        let kind = if problems.iter().any(|p| p.contains("undefined object")) { "dangling-reference-in-new-document" } else { "new-document-invalid" };
        return Err(vec![(kind.into(), truncate(&problems.join("; "), 300))]);
    }
    let new_file = FileOptions::uncached().load(bytes.clone()).map_err(|e| vec![(format!("new-document-does-not-load:{}", err_variant(&e)), truncate(&format!("{}", err_root(&e)), 200))])?;
    if new_file.num_pages() as usize != selection.len() {
        return Err(vec![("page-count".into(), format!("{} pages imported, {} in the new document", selection.len(), new_file.num_pages()))]);
    }
    let (rs, rn) = (src_file.resolver(), new_file.resolver());
    // (source object, copy) pairs met while comparing resources: one Importer must copy a source object once
    let mut seen_all: Vec<(u64, u64)> = vec![];
    for (k, &i) in selection.iter().enumerate() {
        let sp = src_file.get_page(i).map_err(|e| vec![("source-page".to_string(), err_variant(&e))])?;
        let np = new_file.get_page(k as u32).map_err(|e| vec![(format!("new-page-error:{}", err_variant(&e)), format!("page {}", k))])?;
        let (sm, nm) = (sp.media_box().ok(), np.media_box().ok());
        let (sc, nc) = (sp.crop_box().ok(), np.crop_box().ok());
        let rect_eq = |a: &Option<Rectangle>, b: &Option<Rectangle>| match (a, b) {
            (None, None) => true,
            (Some(a), Some(b)) => a.left == b.left && a.right == b.right && a.top == b.top && a.bottom == b.bottom,
            _ => false,
        };
        if !rect_eq(&sm, &nm) {
            diffs.push(("media-box".into(), format!("page {}: source {:?} new {:?}", i, sm, nm)));
        }
        if !rect_eq(&sc, &nc) {
            diffs.push(("crop-box".into(), format!("page {}: source {:?} new {:?}", i, sc, nc)));
        }
        if sp.rotate != np.rotate {
            diffs.push(("rotation".into(), format!("page {}: {} vs {}", i, sp.rotate, np.rotate)));
        }
        let sops = sp.contents.as_ref().map(|c| c.operations(&rs)).transpose().map_err(|e| vec![("source-ops".to_string(), err_variant(&e))])?.unwrap_or_default();
        let nops = np.contents.as_ref().map(|c| c.operations(&rn)).transpose().map_err(|e| vec![(format!("new-ops-error:{}", err_variant(&e)), format!("page {}", i))])?.unwrap_or_default();
        // (inline images included: canonical text carries their entries and decoded data)
        let (a, b) = (canon_seq(&sops), canon_seq(&nops));
        if a != b {
            diffs.push(("operations-differ".into(), format!("page {}: source {:?} new {:?}", i, truncate(&format!("{:?}", a), 200), truncate(&format!("{:?}", b), 200))));
        }
        // every resource the operations name
        let sres = raw_resources(&rs, sp.get_ref().get_inner());
        let nres = raw_resources(&rn, np.get_ref().get_inner());
        for (cat, name) in used_names(&sops) {
            let sv = sres.as_ref().and_then(|p| if let Primitive::Dictionary(d) = p { d.get(cat).cloned() } else { None }).and_then(|c| match c {
                Primitive::Reference(rf) => rs.resolve(rf).ok(),
                p => Some(p),
            });
            let sv = sv.and_then(|c| if let Primitive::Dictionary(d) = c { d.get(&name).cloned() } else { None });
            let Some(sv) = sv else { continue }; // the source itself does not define it
            let nv = nres.as_ref().and_then(|p| if let Primitive::Dictionary(d) = p { d.get(cat).cloned() } else { None }).and_then(|c| match c {
                Primitive::Reference(rf) => rn.resolve(rf).ok(),
                p => Some(p),
            });
            let nv = nv.and_then(|c| if let Primitive::Dictionary(d) = c { d.get(&name).cloned() } else { None });
            match nv {
                None => diffs.push((format!("resource-missing:{}/{}", cat, name), format!("page {}: the operations use /{} {} but the new page's resources do not define it", i, cat, name))),
                Some(nv) => {
                    let mut ds = vec![];
                    deep_diffs(&sv, &rs, &nv, &rn, &mut seen_all, 12, "", &mut ds);
                    for (path, m) in ds {
                        // (the kind names the place of the difference, so that a recorded finding covers exactly that place)
                        diffs.push((format!("resource-differs:{}/{}{}", cat, name, path), format!("page {}: /{} {}{}: {}", i, cat, name, path, m)));
                    }
                }
            }
        }
        // extra page entries (PieceInfo etc.) are part of the page
        for (key, v) in sp.other.iter() {
            match np.other.get(key.as_str()) {
                Some(w) => {
                    if let Err(m) = deep_equal(v, &rs, w, &rn, &mut vec![], 8) {
                        diffs.push(("extra-entry-differs".into(), format!("page {} /{}: {}", i, key.as_str(), m)));
                    }
                }
                None => diffs.push(("extra-entry-missing".into(), format!("page {} /{}", i, key.as_str()))),
            }
        }
    }
    {
        let mut by_src: std::collections::BTreeMap<u64, Vec<u64>> = Default::default();
        for (a, b) in &seen_all {
            let e = by_src.entry(*a).or_default();
            if !e.contains(b) {
                e.push(*b);
            }
        }
        if let Some((src, copies)) = by_src.iter().find(|(_, c)| c.len() > 1) {
            diffs.push(("shared-object-copied-twice".into(), format!("source object {} has the copies {:?} in the new document", src, copies)));
        }
    }
    // the source document itself must answer as before the import
    if source_use != 0 {
        let want = all_stream_data(&pristine.resolver(), max_nr);
        let got = all_stream_data(&src_file.resolver(), max_nr);
        for ((nr, w), (_, g)) in want.iter().zip(got.iter()) {
            if w != g {
                diffs.push(("source-stream-data-changed-by-import".into(), format!("stream {} of the source reads {} after the import, {} in a fresh uncached open", nr, show_res(g), show_res(w))));
                break;
            }
        }
    }
    // sharing: the marker font (BaseFont /Helvetica, object 9 in the source) must exist at most once
    let mut helv = 0;
    let mut secret = 0;
    for (&nr, e) in &doc.xref {
        if matches!(e, crate::refread::XEntry::Free) {
            continue;
        }
        if let Ok(v) = doc.get(nr) {
            if v.get("BaseFont") == Some(&Val::name("Helvetica")) && v.get("Subtype") == Some(&Val::name("Type1")) {
                helv += 1;
            }
            if v.get("Secret").is_some() {
                secret += 1;
            }
        }
    }
    if helv > 1 {
        diffs.push(("shared-object-copied-twice".into(), format!("the font object shared by the imported pages exists {} times in the new document", helv)));
    }
    if secret > 1 {
        diffs.push(("shared-object-copied-twice".into(), format!("the private object shared by two pages exists {} times in the new document", secret)));
    }
    Ok(("imported-equal".into(), diffs))
}

pub fn worker_main() {
    let stdin = std::io::stdin();
    let mut out = std::io::stdout();
    let h = std::thread::Builder::new()
        .stack_size(16 << 20)
        .spawn(move || {
            for line in stdin.lock().lines() {
                let Ok(line) = line else { break };
                let v: Value = match serde_json::from_str(&line) {
                    Ok(v) => v,
                    Err(_) => break,
                };
                // a failure while the harness builds the source document is a fault of the harness, not of the library
                let (bytes, pw) = match catch(|| case_source(&v)) {
                    Ok(x) => x,
                    Err((loc, msg)) => {
                        let _ = writeln!(out, "{}", json!({"machinery": format!("building the source document panicked at {}: {}", loc, msg)}));
                        let _ = out.flush();
                        continue;
                    }
                };
                let sel: Vec<u32> = v["selection"].as_array().unwrap().iter().map(|x| x.as_u64().unwrap() as u32).collect();
                let su = v["source_use"].as_u64().unwrap_or(0) as usize;
                let r = catch(|| run_case(&bytes, &pw, &sel, su));
                let resp = match r {
                    Err((loc, msg)) => json!({"fail": [panic_kind(&loc), msg]}),
                    Ok(Ok(class)) => json!({"ok": class}),
                    Ok(Err(diffs)) => json!({"fails": diffs.iter().map(|(k, d)| json!([k, d])).collect::<Vec<_>>()}),
                };
                if writeln!(out, "{}", resp).is_err() || out.flush().is_err() {
                    break;
                }
            }
        })
        .unwrap();
    let _ = h.join();
}

fn case_source(v: &Value) -> (Vec<u8>, Vec<u8>) {
    if let Some(f) = v["corpus"].as_str() {
        let pw: &[u8] = if f.starts_with("password_protected") { b"userpassword" } else { b"" };
        (std::fs::read(format!("{}/files/{}", repo_dir(), f)).unwrap_or_default(), pw.to_vec())
    } else {
        source_bytes_shaped(v["storage"].as_u64().unwrap() as usize, v["resources"].as_u64().unwrap() as usize, v["extras"].as_u64().unwrap() as usize, v["shape"].as_u64().unwrap_or(0) as usize)
    }
}

struct Worker {
    child: Child,
    stdin: ChildStdin,
    stdout: BufReader<ChildStdout>,
}
impl Worker {
    fn spawn() -> Worker {
        let exe = std::env::current_exe().expect("exe");
        let mut child = Command::new(exe).arg("worker").arg("c20").env("RUST_BACKTRACE", "0").stdin(Stdio::piped()).stdout(Stdio::piped()).stderr(Stdio::null()).spawn().expect("spawn");
        let stdin = child.stdin.take().unwrap();
        let stdout = BufReader::new(child.stdout.take().unwrap());
        Worker { child, stdin, stdout }
    }
    fn run(&mut self, case: &Value) -> std::result::Result<String, Vec<(String, String)>> {
        if writeln!(self.stdin, "{}", case).is_err() || self.stdin.flush().is_err() {
            return Err(vec![("process-death".into(), "worker pipe closed".into())]);
        }
        use std::os::unix::io::AsRawFd;
        let fd = self.stdout.get_ref().as_raw_fd();
        let mut pfd = libc::pollfd { fd, events: libc::POLLIN, revents: 0 };
        let rc = unsafe { libc::poll(&mut pfd, 1, 20_000) };
        if rc == 0 {
            let _ = self.child.kill();
            let _ = self.child.wait();
            return Err(vec![("timeout".into(), "import did not finish within 20 s".into())]);
        }
        let mut line = String::new();
        match self.stdout.read_line(&mut line) {
            Ok(n) if n > 0 => {
                let v: Value = serde_json::from_str(&line).map_err(|e| vec![("machinery".to_string(), e.to_string())])?;
                if let Some(m) = v["machinery"].as_str() {
                    panic!("C20 machinery failure (no verdict): {}", m);
                }
                if let Some(c) = v["ok"].as_str() {
                    Ok(c.to_string())
                } else if let Some(fs) = v["fails"].as_array() {
                    Err(fs.iter().map(|f| (f[0].as_str().unwrap_or("?").to_string(), f[1].as_str().unwrap_or("").to_string())).collect())
                } else {
                    Err(vec![(v["fail"][0].as_str().unwrap_or("?").to_string(), v["fail"][1].as_str().unwrap_or("").to_string())])
                }
            }
            _ => {
                use std::os::unix::process::ExitStatusExt;
                let sig = self.child.wait().ok().and_then(|s| s.signal());
                let how = match sig {
                    Some(6) | Some(11) => "stack-overflow-or-abort",
                    _ => "died",
                };
                Err(vec![(format!("process-death:{}", how), format!("the worker process died (signal {:?}) while importing", sig))])
            }
        }
    }
}
impl Drop for Worker {
    fn drop(&mut self) {
        let _ = self.child.kill();
        let _ = self.child.wait();
    }
}
thread_local! {
    static W: RefCell<Option<Worker>> = RefCell::new(None);
}
fn run_isolated(case: &Value) -> std::result::Result<String, Vec<(String, String)>> {
    W.with(|w| {
        let mut w = w.borrow_mut();
        if w.is_none() {
            *w = Some(Worker::spawn());
        }
        let r = w.as_mut().unwrap().run(case);
        if let Err(fails) = &r {
            if fails.iter().any(|(k, _)| k.starts_with("process-death") || k == "timeout") {
                // only a crash / missed deadline that happens again in a fresh worker is attributed to the case
                *w = None;
                let mut fresh = Worker::spawn();
                let again = fresh.run(case);
                let crashed_again = matches!(&again, Err(f) if f.iter().any(|(k, _)| k.starts_with("process-death") || k == "timeout"));
                if !crashed_again {
                    return again;
                }
            }
        }
        r
    })
}

fn selections(n: u32, max: usize) -> Vec<Vec<u32>> {
    let mut v: Vec<Vec<u32>> = vec![];
    for a in 0..n {
        v.push(vec![a]);
        if max >= 2 {
            for b in 0..n {
                v.push(vec![a, b]); // includes importing the same page twice
                if max >= 3 {
                    for c in 0..n {
                        if a != b && b != c && a != c {
                            v.push(vec![a, b, c]);
                        }
                    }
                }
            }
        }
    }
    v
}

pub fn run(tier: Tier, _seed: u64, tally: &mut Tally) -> CheckMeta {
    let mut cases: Vec<(Value, Vec<String>)> = vec![];
    for storage in 0..STORAGE.len() {
        for resources in 0..RESOURCES.len() {
            for extras in 0..EXTRAS.len() {
              for shape in 0..SHAPE.len() {
                for sel in selections(3, if shape == 0 { 3 } else { 2 }) {
                  for source_use in 0..SOURCE_USE.len() {
                    if shape != 0 && source_use == 2 {
                        continue;
                    }
                    // the cached variants on single pages and pairs; triples uncached only
                    if source_use != 0 && sel.len() > 2 {
                        continue;
                    }
                    let mut devs = vec![];
                    if source_use != 0 {
                        devs.push(format!("source={}", SOURCE_USE[source_use]));
                    }
                    if shape != 0 {
                        devs.push(format!("shape={}", SHAPE[shape]));
                    }
                    if storage != 0 {
                        devs.push(format!("storage={}", STORAGE[storage]));
                    }
                    if resources != 0 {
                        devs.push(format!("resources={}", RESOURCES[resources]));
                    }
                    if extras != 0 {
                        devs.push(format!("extras={}", EXTRAS[extras]));
                    }
                    let mut pages: Vec<String> = sel.iter().map(|p| format!("page={}", p)).collect();
                    pages.sort();
                    pages.dedup();
                    devs.extend(pages);
                    if sel.len() > 1 && sel[0] == sel[1] {
                        devs.push("same-page-twice".into());
                    }
                    cases.push((json!({"engine": "c20.import", "storage": storage, "resources": resources, "extras": extras, "selection": sel, "source_use": source_use, "shape": shape}), devs));
                  }
                }
              }
            }
        }
    }
    // corpus files
    let dir = format!("{}/files", repo_dir());
    let mut names: Vec<String> = std::fs::read_dir(&dir).map(|d| d.filter_map(|e| e.ok()).map(|e| e.file_name().to_string_lossy().to_string()).collect()).unwrap_or_default();
    names.sort();
    for n in names.iter().filter(|n| n.ends_with(".pdf")) {
        let size = std::fs::metadata(format!("{}/{}", dir, n)).map(|m| m.len()).unwrap_or(0);
        if size > if tier.thorough() { 3_000_000 } else { 300_000 } {
            continue;
        }
        for sel in [vec![0u32], vec![0, 0], vec![0, 1], vec![1, 0]] {
            for source_use in 0..SOURCE_USE.len() {
                let mut devs = vec![format!("corpus={}", n)];
                if source_use != 0 {
                    devs.push(format!("source={}", SOURCE_USE[source_use]));
                }
                cases.push((json!({"engine": "c20.import", "corpus": n, "selection": sel, "source_use": source_use}), devs));
            }
        }
    }
    let n_cases = cases.len();
    let parts: Vec<Tally> = cases
        .par_iter()
        .map(|(case, devs)| {
            let mut t = Tally::new();
            t.evaluations += 1;
            t.distinct.insert(fnv(case.to_string().as_bytes()));
            match run_isolated(case) {
                Ok(class) => t.outcome(&class),
                Err(fails) => {
                    for (kind, detail) in fails {
                        t.outcome(&kind);
                        t.fail("c20.import", &kind, devs.clone(), format!("{}: {}", case, truncate(&detail, 400)), case.clone());
                    }
                }
            }
            t
        })
        .collect();
    for p in parts {
        tally.merge(p);
    }
    tally.states = tally.evaluations;
    tally.transitions = tally.evaluations;
    tally.validated = tally.evaluations;
    tally.sample(json!({"storage": "xrefstream+objstm", "resources": "indirect-per-page", "extras": "shared-extra-on-two-pages", "selection": [2, 0]}));
    tally.sample(json!({"corpus": "example.pdf", "selection": [0, 0]}));
    CheckMeta {
        prop: "C20",
        level: "model_checking",
        rule: format!("generated three-page source documents: full product of storage {:?} x resource placement {:?} x extra page entries {:?} x resource shape {:?} (selections of 1-2 pages for the non-default shapes) x every ordered selection of 1..3 pages (incl. the same page twice) x source use {:?} (cached variants for selections of 1-2 pages), plus the corpus files x 4 selections x source use: {} import cases, each executed in a worker process through one Importer into one PdfBuilder, built, reloaded. Oracle: boxes, rotation, operation sequence (C08 comparator); for every resource name the operations use (fonts, XObjects, ext-gstates, colour spaces, patterns, shadings, properties) deep equality of the resource between source and new document (dictionaries entry by entry, stream data by decoded bytes); extra page entries deep-equal; the independent structural reader finds no reference to an undefined object; shared source objects exist once; with a cached source every stream of the source must decode after the import to what a fresh uncached open gives; an import error is allowed, a panic / stack overflow / abort / hang is not.", STORAGE, RESOURCES, EXTRAS, SHAPE, SOURCE_USE, n_cases),
        assumptions: vec!["annotations are not part of what PageBuilder::clone_page copies and are not compared".into()],
        exhaustive: true,
        bounds: json!({"pages_per_import": 3}),
    }
}

pub fn replay(case: &Value, tally: &mut Tally) {
    println!("case {}", case);
    match run_isolated(case) {
        Ok(c) => println!("outcome: {}", c),
        Err(fails) => {
            for (kind, detail) in fails {
                tally.fail("c20.import", &kind, vec![], detail, case.clone());
            }
        }
    }
}
