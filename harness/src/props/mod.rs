pub mod c16;
