pub mod c02;
pub mod c03;
pub mod c04;
pub mod c05;
pub mod c05file;
pub mod c07;
pub mod c11;
pub mod c16;
