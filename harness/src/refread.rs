//! Independent structural reader (C10, C09, C20, and the self-test of the encryptor): own tokenizer,
//! classic tables and xref streams, /Prev chains, object streams. Strict where the specification is strict.
use crate::pdfgen::filters as pf;
use crate::pdfgen::val::*;
use std::collections::BTreeMap;

pub struct Tokenizer<'a> {
    pub buf: &'a [u8],
    pub pos: usize,
}

#[derive(Debug)]
pub struct ParseErr(pub String);
type R<T> = Result<T, ParseErr>;
fn err<T>(s: impl Into<String>) -> R<T> {
    Err(ParseErr(s.into()))
}

impl<'a> Tokenizer<'a> {
    pub fn new(buf: &'a [u8], pos: usize) -> Self {
        Tokenizer { buf, pos }
    }
    pub fn skip_ws(&mut self) {
        loop {
            match self.buf.get(self.pos) {
                Some(&b) if is_ws(b) => self.pos += 1,
                Some(b'%') => {
                    while let Some(&b) = self.buf.get(self.pos) {
                        if b == b'\n' || b == b'\r' {
                            break;
                        }
                        self.pos += 1;
                    }
                }
                _ => break,
            }
        }
    }
    fn regular_token(&mut self) -> &'a [u8] {
        let start = self.pos;
        while let Some(&b) = self.buf.get(self.pos) {
            if is_regular(b) {
                self.pos += 1;
            } else {
                break;
            }
        }
        &self.buf[start..self.pos]
    }
    pub fn keyword(&mut self, kw: &[u8]) -> R<()> {
        self.skip_ws();
        let save = self.pos;
        let t = self.regular_token();
        if t == kw {
            Ok(())
        } else {
            self.pos = save;
            err(format!("expected `{}` at {}, found `{}`", String::from_utf8_lossy(kw), save, String::from_utf8_lossy(&self.buf[save..(save + 20).min(self.buf.len())])))
        }
    }
    pub fn uint(&mut self) -> R<u64> {
        self.skip_ws();
        let save = self.pos;
        let t = self.regular_token();
        match std::str::from_utf8(t).ok().and_then(|s| s.parse::<u64>().ok()) {
            Some(n) if !t.is_empty() => Ok(n),
            _ => {
                self.pos = save;
                err(format!("expected unsigned integer at {}", save))
            }
        }
    }
    fn number(t: &[u8]) -> Option<Val> {
        let s = std::str::from_utf8(t).ok()?;
        let body = s.strip_prefix('+').or_else(|| s.strip_prefix('-')).unwrap_or(s);
        if body.is_empty() || !body.bytes().all(|b| b.is_ascii_digit() || b == b'.') || body.bytes().filter(|&b| b == b'.').count() > 1 || body == "." {
            return None;
        }
        if body.contains('.') {
            Some(Val::Real(s.trim_start_matches('+').to_string()))
        } else {
            s.trim_start_matches('+').parse::<i64>().ok().map(Val::Int)
        }
    }
    pub fn object(&mut self, depth: usize) -> R<Val> {
        if depth > 100 {
            return err("nesting too deep");
        }
        self.skip_ws();
        let b = match self.buf.get(self.pos) {
            Some(&b) => b,
            None => return err("unexpected end of data"),
        };
        match b {
            b'/' => {
                self.pos += 1;
                let t = self.regular_token();
                let mut out = vec![];
                let mut i = 0;
                while i < t.len() {
                    if t[i] == b'#' {
                        let h = t.get(i + 1..i + 3).and_then(|h| std::str::from_utf8(h).ok()).and_then(|h| u8::from_str_radix(h, 16).ok());
                        match h {
                            Some(v) => {
                                out.push(v);
                                i += 3;
                            }
                            None => return err("bad #xx in name"),
                        }
                    } else {
                        out.push(t[i]);
                        i += 1;
                    }
                }
                Ok(Val::Name(out))
            }
            b'(' => {
                self.pos += 1;
                let mut out = vec![];
                let mut depth_p = 0;
                loop {
                    let c = match self.buf.get(self.pos) {
                        Some(&c) => c,
                        None => return err("unterminated string"),
                    };
                    self.pos += 1;
                    match c {
                        b'(' => {
                            depth_p += 1;
                            out.push(c);
                        }
                        b')' => {
                            if depth_p == 0 {
                                break;
                            }
                            depth_p -= 1;
                            out.push(c);
                        }
                        b'\r' => {
                            if self.buf.get(self.pos) == Some(&b'\n') {
                                self.pos += 1;
                            }
                            out.push(b'\n');
                        }
                        b'\\' => {
                            let e = match self.buf.get(self.pos) {
                                Some(&e) => e,
                                None => return err("unterminated string"),
                            };
                            self.pos += 1;
                            match e {
                                b'n' => out.push(b'\n'),
                                b'r' => out.push(b'\r'),
                                b't' => out.push(b'\t'),
                                b'b' => out.push(8),
                                b'f' => out.push(12),
                                b'\n' => {}
                                b'\r' => {
                                    if self.buf.get(self.pos) == Some(&b'\n') {
                                        self.pos += 1;
                                    }
                                }
                                b'0'..=b'7' => {
                                    let mut v = (e - b'0') as u32;
                                    for _ in 0..2 {
                                        match self.buf.get(self.pos) {
                                            Some(&d) if (b'0'..=b'7').contains(&d) => {
                                                v = v * 8 + (d - b'0') as u32;
                                                self.pos += 1;
                                            }
                                            _ => break,
                                        }
                                    }
                                    out.push(v as u8);
                                }
                                other => out.push(other),
                            }
                        }
                        c => out.push(c),
                    }
                }
                Ok(Val::Str(out))
            }
            b'<' => {
                if self.buf.get(self.pos + 1) == Some(&b'<') {
                    self.pos += 2;
                    let mut d = vec![];
                    loop {
                        self.skip_ws();
                        if self.buf.get(self.pos..self.pos + 2) == Some(b">>") {
                            self.pos += 2;
                            break;
                        }
                        let k = match self.object(depth + 1)? {
                            Val::Name(n) => n,
                            other => return err(format!("dictionary key is not a name: {:?}", other.kind())),
                        };
                        let v = self.object(depth + 1)?;
                        d.push((k, v));
                    }
                    Ok(Val::Dict(d))
                } else {
                    self.pos += 1;
                    let start = self.pos;
                    while let Some(&c) = self.buf.get(self.pos) {
                        if c == b'>' {
                            break;
                        }
                        self.pos += 1;
                    }
                    if self.buf.get(self.pos) != Some(&b'>') {
                        return err("unterminated hex string");
                    }
                    let body = &self.buf[start..self.pos];
                    self.pos += 1;
                    pf::hex_decode_ref(body).map(Val::Str).map_err(ParseErr)
                }
            }
            b'[' => {
                self.pos += 1;
                let mut a = vec![];
                loop {
                    self.skip_ws();
                    if self.buf.get(self.pos) == Some(&b']') {
                        self.pos += 1;
                        break;
                    }
                    a.push(self.object(depth + 1)?);
                }
                Ok(Val::Array(a))
            }
            _ => {
                let save = self.pos;
                let t = self.regular_token();
                if t.is_empty() {
                    return err(format!("unexpected byte {:#x} at {}", b, save));
                }
                match t {
                    b"true" => return Ok(Val::Bool(true)),
                    b"false" => return Ok(Val::Bool(false)),
                    b"null" => return Ok(Val::Null),
                    _ => {}
                }
                let n = match Self::number(t) {
                    Some(n) => n,
                    None => {
                        self.pos = save;
                        return err(format!("unknown token `{}` at {}", String::from_utf8_lossy(t), save));
                    }
                };
                // reference look-ahead
                if let Val::Int(a) = n {
                    if a >= 0 {
                        let after = self.pos;
                        if let Ok(g) = self.uint() {
                            self.skip_ws();
                            let p2 = self.pos;
                            if self.regular_token() == b"R" {
                                return Ok(Val::Ref(a as u64, g as u16));
                            }
                            let _ = p2;
                        }
                        self.pos = after;
                    }
                }
                Ok(n)
            }
        }
    }
}

#[derive(Clone, Copy, Debug, PartialEq)]
pub enum XEntry {
    Free,
    InUse { off: usize, gen: u16 },
    Compressed { stm: u64, idx: usize },
}

pub struct RefDoc<'a> {
    pub buf: &'a [u8],
    pub header: usize,
    pub xref: BTreeMap<u64, XEntry>,
    pub trailer: Val,
    pub size: u64,
    /// offsets (header-relative) of the xref sections, newest first
    pub sections: Vec<usize>,
}

fn find_last(buf: &[u8], pat: &[u8]) -> Option<usize> {
    if buf.len() < pat.len() {
        return None;
    }
    (0..=buf.len() - pat.len()).rev().find(|&i| &buf[i..i + pat.len()] == pat)
}

pub fn decode_stream(dict: &Val, raw: &[u8]) -> Result<Vec<u8>, String> {
    let filters: Vec<Vec<u8>> = match dict.get("Filter") {
        None | Some(Val::Null) => vec![],
        Some(Val::Name(n)) => vec![n.clone()],
        Some(Val::Array(a)) => a.iter().filter_map(|v| if let Val::Name(n) = v { Some(n.clone()) } else { None }).collect(),
        _ => return Err("bad /Filter".into()),
    };
    let parms: Vec<Option<Val>> = match dict.get("DecodeParms") {
        None | Some(Val::Null) => vec![],
        Some(d @ Val::Dict(_)) => vec![Some(d.clone())],
        Some(Val::Array(a)) => a.iter().map(|v| if matches!(v, Val::Dict(_)) { Some(v.clone()) } else { None }).collect(),
        _ => vec![],
    };
    let mut data = raw.to_vec();
    for (i, f) in filters.iter().enumerate() {
        data = match f.as_slice() {
            b"FlateDecode" => pf::flate_decode_ref(&data)?,
            b"ASCIIHexDecode" => pf::hex_decode_ref(&data)?,
            b"ASCII85Decode" => pf::a85_decode_ref(&data)?,
            b"RunLengthDecode" => pf::rl_decode_ref(&data)?,
            b"LZWDecode" => {
                let early = parms.get(i).and_then(|p| p.as_ref()).and_then(|p| p.get("EarlyChange")).map(|v| *v != Val::Int(0)).unwrap_or(true);
                pf::lzw_decode_ref(&data, early)?
            }
            other => return Err(format!("filter {} not supported by the reference reader", String::from_utf8_lossy(other))),
        };
        if let Some(Some(p)) = parms.get(i) {
            let geti = |k: &str, d: i64| match p.get(k) {
                Some(Val::Int(i)) => *i,
                _ => d,
            };
            let pred = geti("Predictor", 1);
            if pred >= 10 {
                let colors = geti("Colors", 1) as usize;
                let bpc = geti("BitsPerComponent", 8) as usize;
                let cols = geti("Columns", 1) as usize;
                data = png_unpredict(&data, colors, bpc, cols)?;
            } else if pred == 2 {
                return Err("TIFF predictor not supported by the reference reader".into());
            }
        }
    }
    Ok(data)
}

fn png_unpredict(data: &[u8], colors: usize, bpc: usize, cols: usize) -> Result<Vec<u8>, String> {
    let rb = pf::row_bytes(colors, bpc, cols);
    let bpp = pf::bytes_per_pixel(colors, bpc);
    if rb == 0 {
        return Err("zero row".into());
    }
    let mut out: Vec<u8> = vec![];
    let mut prev = vec![0u8; rb];
    for row in data.chunks(rb + 1) {
        if row.len() < rb + 1 {
            break;
        }
        let ft = row[0];
        let mut cur = vec![0u8; rb];
        for i in 0..rb {
            let a = if i >= bpp { cur[i - bpp] } else { 0 };
            let b = prev[i];
            let c = if i >= bpp { prev[i - bpp] } else { 0 };
            let p = match ft {
                0 => 0,
                1 => a,
                2 => b,
                3 => ((a as u16 + b as u16) / 2) as u8,
                4 => {
                    let (ia, ib, ic) = (a as i32, b as i32, c as i32);
                    let p = ia + ib - ic;
                    let (pa, pb, pc) = ((p - ia).abs(), (p - ib).abs(), (p - ic).abs());
                    if pa <= pb && pa <= pc {
                        a
                    } else if pb <= pc {
                        b
                    } else {
                        c
                    }
                }
                _ => return Err("bad PNG filter type".into()),
            };
            cur[i] = row[i + 1].wrapping_add(p);
        }
        out.extend_from_slice(&cur);
        prev = cur;
    }
    Ok(out)
}

impl<'a> RefDoc<'a> {
    /// Read the structure. `strict_header`: the header must be at offset 0.
    pub fn open(buf: &'a [u8]) -> Result<RefDoc<'a>, String> {
        let header = buf.windows(5).take(1024).position(|w| w == b"%PDF-").ok_or("no header in the first 1024 bytes")?;
        let sx = find_last(buf, b"startxref").ok_or("no startxref")?;
        let mut t = Tokenizer::new(buf, sx + 9);
        let first = t.uint().map_err(|e| format!("startxref value: {}", e.0))? as usize;
        let mut doc = RefDoc { buf, header, xref: BTreeMap::new(), trailer: Val::Null, size: 0, sections: vec![] };
        let mut next = Some(first);
        let mut seen = vec![];
        while let Some(off) = next {
            if seen.contains(&off) {
                return Err("/Prev loop".into());
            }
            seen.push(off);
            doc.sections.push(off);
            let pos = header + off;
            if pos >= buf.len() {
                return Err(format!("xref offset {} outside the file", off));
            }
            let mut t = Tokenizer::new(buf, pos);
            t.skip_ws();
            let tr: Val;
            if buf[t.pos..].starts_with(b"xref") {
                if t.pos != pos {
                    return Err(format!("startxref/Prev {} does not point at the xref keyword", off));
                }
                t.pos += 4;
                loop {
                    t.skip_ws();
                    if buf[t.pos..].starts_with(b"trailer") {
                        t.pos += 7;
                        break;
                    }
                    let start = t.uint().map_err(|e| format!("xref subsection: {}", e.0))?;
                    let n = t.uint().map_err(|e| format!("xref subsection: {}", e.0))?;
                    for i in 0..n {
                        let a = t.uint().map_err(|e| format!("xref entry: {}", e.0))?;
                        let g = t.uint().map_err(|e| format!("xref entry: {}", e.0))?;
                        t.skip_ws();
                        let kind = buf.get(t.pos).copied();
                        t.pos += 1;
                        let e = match kind {
                            Some(b'n') => XEntry::InUse { off: a as usize, gen: g as u16 },
                            Some(b'f') => XEntry::Free,
                            _ => return Err("xref entry type".into()),
                        };
                        doc.xref.entry(start + i).or_insert(e);
                    }
                }
                tr = t.object(0).map_err(|e| format!("trailer: {}", e.0))?;
            } else {
                // xref stream
                let (nr, _gen, v, _end) = doc.object_at(pos).map_err(|e| format!("xref stream at {}: {}", off, e))?;
                let (d, data) = match &v {
                    Val::Stream(d, data) => (Val::Dict(d.clone()), data.clone()),
                    _ => return Err(format!("object {} at the xref offset is not a stream", nr)),
                };
                if d.get("Type") != Some(&Val::name("XRef")) {
                    return Err("xref stream without /Type /XRef".into());
                }
                let dec = decode_stream(&d, &data)?;
                let w: Vec<usize> = match d.get("W") {
                    Some(Val::Array(a)) if a.len() == 3 => a.iter().map(|v| if let Val::Int(i) = v { *i as usize } else { 0 }).collect(),
                    _ => return Err("bad /W".into()),
                };
                let size = match d.get("Size") {
                    Some(Val::Int(s)) => *s as u64,
                    _ => return Err("xref stream without /Size".into()),
                };
                let index: Vec<u64> = match d.get("Index") {
                    Some(Val::Array(a)) => a.iter().map(|v| if let Val::Int(i) = v { *i as u64 } else { 0 }).collect(),
                    _ => vec![0, size],
                };
                let rec = w[0] + w[1] + w[2];
                let mut p = 0;
                for pair in index.chunks(2) {
                    if pair.len() < 2 {
                        return Err("odd /Index".into());
                    }
                    for i in 0..pair[1] {
                        if p + rec > dec.len() {
                            return Err(format!("xref stream data too short: /Index wants object {} but only {} bytes", pair[0] + i, dec.len()));
                        }
                        let f = |o: usize, n: usize| -> u64 { dec[p + o..p + o + n].iter().fold(0u64, |a, &b| a << 8 | b as u64) };
                        let ty = if w[0] == 0 { 1 } else { f(0, w[0]) };
                        let a = f(w[0], w[1]);
                        let b = f(w[0] + w[1], w[2]);
                        p += rec;
                        let e = match ty {
                            0 => XEntry::Free,
                            1 => XEntry::InUse { off: a as usize, gen: b as u16 },
                            2 => XEntry::Compressed { stm: a, idx: b as usize },
                            _ => continue,
                        };
                        doc.xref.entry(pair[0] + i).or_insert(e);
                    }
                }
                if p != dec.len() {
                    return Err(format!("xref stream has {} bytes but /Index and /W describe {}", dec.len(), p));
                }
                tr = d;
            }
            if doc.trailer == Val::Null {
                doc.trailer = tr.clone();
                doc.size = match tr.get("Size") {
                    Some(Val::Int(s)) => *s as u64,
                    _ => return Err("trailer without /Size".into()),
                };
            }
            next = match tr.get("Prev") {
                Some(Val::Int(p)) => Some(*p as usize),
                _ => None,
            };
        }
        Ok(doc)
    }

    /// Parse `n g obj ... endobj` at absolute position `pos`. Returns (nr, gen, value, end position).
    pub fn object_at(&self, pos: usize) -> Result<(u64, u16, Val, usize), String> {
        let mut t = Tokenizer::new(self.buf, pos);
        let nr = t.uint().map_err(|e| e.0)?;
        let gen = t.uint().map_err(|e| e.0)?;
        t.keyword(b"obj").map_err(|e| e.0)?;
        let v = t.object(0).map_err(|e| e.0)?;
        t.skip_ws();
        if self.buf[t.pos..].starts_with(b"stream") {
            let d = match v {
                Val::Dict(d) => d,
                _ => return Err("stream keyword after a non-dictionary".into()),
            };
            t.pos += 6;
            match (self.buf.get(t.pos), self.buf.get(t.pos + 1)) {
                (Some(b'\n'), _) => t.pos += 1,
                (Some(b'\r'), Some(b'\n')) => t.pos += 2,
                _ => return Err("`stream` keyword not followed by LF or CRLF".into()),
            }
            let len = match Val::Dict(d.clone()).get("Length") {
                Some(Val::Int(l)) if *l >= 0 => *l as usize,
                Some(Val::Ref(n, _)) => match self.get(*n)? {
                    Val::Int(l) if l >= 0 => l as usize,
                    _ => return Err("indirect /Length is not an integer".into()),
                },
                _ => return Err("stream without usable /Length".into()),
            };
            if t.pos + len > self.buf.len() {
                return Err(format!("/Length {} runs past the end of the file", len));
            }
            let data = self.buf[t.pos..t.pos + len].to_vec();
            t.pos += len;
            t.keyword(b"endstream").map_err(|e| format!("/Length {} is not the byte count of the stream data: {}", len, e.0))?;
            t.keyword(b"endobj").map_err(|e| e.0)?;
            return Ok((nr, gen as u16, Val::Stream(d, data), t.pos));
        }
        t.keyword(b"endobj").map_err(|e| e.0)?;
        Ok((nr, gen as u16, v, t.pos))
    }

    pub fn get(&self, nr: u64) -> Result<Val, String> {
        match self.xref.get(&nr) {
            None | Some(XEntry::Free) => Ok(Val::Null),
            Some(XEntry::InUse { off, gen }) => {
                let (n, g, v, _) = self.object_at(self.header + off)?;
                if n != nr || g != *gen {
                    return Err(format!("xref entry for object {} {} points at object {} {}", nr, gen, n, g));
                }
                Ok(v)
            }
            Some(XEntry::Compressed { stm, idx }) => {
                let s = self.get(*stm)?;
                let (d, data) = match &s {
                    Val::Stream(d, data) => (Val::Dict(d.clone()), data),
                    _ => return Err(format!("object stream {} is not a stream", stm)),
                };
                let dec = decode_stream(&d, data)?;
                let n = match d.get("N") {
                    Some(Val::Int(n)) => *n as usize,
                    _ => return Err("object stream without /N".into()),
                };
                let first = match d.get("First") {
                    Some(Val::Int(n)) => *n as usize,
                    _ => return Err("object stream without /First".into()),
                };
                let mut t = Tokenizer::new(&dec, 0);
                let mut offs = vec![];
                for _ in 0..n {
                    let onr = t.uint().map_err(|e| e.0)?;
                    let off = t.uint().map_err(|e| e.0)?;
                    offs.push((onr, off as usize));
                }
                let (onr, off) = *offs.get(*idx).ok_or("object stream index out of range")?;
                if onr != nr {
                    return Err(format!("object stream {} index {} holds object {} not {}", stm, idx, onr, nr));
                }
                let mut t = Tokenizer::new(&dec, first + off);
                t.object(0).map_err(|e| e.0)
            }
        }
    }

    /// All structural checks of C10. Returns the list of problems (empty = valid).
    pub fn validate(&self, header_must_be_first: bool) -> Vec<String> {
        let mut problems = vec![];
        if header_must_be_first && self.header != 0 {
            problems.push(format!("header at offset {} not 0", self.header));
        }
        let mut refs: Vec<(u64, u64)> = vec![];
        fn collect(v: &Val, from: u64, out: &mut Vec<(u64, u64)>) {
            match v {
                Val::Ref(n, _) => out.push((from, *n)),
                Val::Array(a) => a.iter().for_each(|x| collect(x, from, out)),
                Val::Dict(d) | Val::Stream(d, _) => d.iter().for_each(|(_, x)| collect(x, from, out)),
                _ => {}
            }
        }
        for (&nr, e) in &self.xref {
            if nr >= self.size {
                problems.push(format!("object {} is not below /Size {}", nr, self.size));
            }
            if matches!(e, XEntry::Free) {
                continue;
            }
            match self.get(nr) {
                Ok(v) => collect(&v, nr, &mut refs),
                Err(m) => problems.push(format!("object {}: {}", nr, m)),
            }
        }
        collect(&self.trailer, 0, &mut refs);
        for (from, to) in refs {
            match self.xref.get(&to) {
                Some(XEntry::InUse { .. }) | Some(XEntry::Compressed { .. }) => {}
                _ => problems.push(format!("object {} refers to undefined object {}", from, to)),
            }
        }
        problems.sort();
        problems.dedup();
        problems
    }
}
