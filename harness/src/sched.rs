//! §3.5 controlled scheduler for real threads (C13) and the harness-side caches.
//!
//! `SeqCache`   : map-backed implementation of the public `Cache` trait with the compute-once protocol, for
//!                sequential use (C12).
//! `VerifCache` : line-by-line transliteration of `globalcache::sync::SyncCache::get` whose lock / wait / notify
//!                operations are scheduling points of `Sched` (C13).
//! `Sched`      : baton-passing scheduler: real OS threads, exactly one runnable at a time; a condition wait is
//!                modelled as blocking; "no enabled thread while some are blocked" is a deadlock.
use pdf::file::Cache;
use pdf::object::PlainRef;
use std::cell::Cell;
use std::collections::HashMap;
use std::sync::{Arc, Condvar, Mutex, MutexGuard};

// ------------------------------------------------------------------------------------------------
enum SeqSlot<V> {
    InProcess,
    Computed(V),
}
pub struct SeqCache<V>(Arc<Mutex<HashMap<PlainRef, SeqSlot<V>>>>);
impl<V> SeqCache<V> {
    pub fn new() -> Self {
        SeqCache(Arc::new(Mutex::new(HashMap::new())))
    }
}
impl<V: Clone> Cache<V> for SeqCache<V> {
    fn get_or_compute(&self, key: PlainRef, compute: impl FnOnce() -> V) -> V {
        {
            let mut g = self.0.lock().unwrap();
            match g.get(&key) {
                Some(SeqSlot::Computed(v)) => return v.clone(),
                Some(SeqSlot::InProcess) => panic!("re-entrant compute of cache key {:?} on one thread (the real cache would wait forever)", key),
                None => {
                    g.insert(key, SeqSlot::InProcess);
                }
            }
        }
        let v = compute();
        self.0.lock().unwrap().insert(key, SeqSlot::Computed(v.clone()));
        v
    }
    fn clear(&self) {
        self.0.lock().unwrap().clear();
    }
}

// ------------------------------------------------------------------------------------------------
#[derive(Clone, Copy, PartialEq, Debug)]
pub enum St {
    Runnable,
    Blocked(usize),
    Finished,
}
/// one scheduling decision
#[derive(Clone, Debug)]
pub struct Pt {
    /// number of enabled threads
    pub n: usize,
    pub picked: usize,
    /// the running thread was still enabled (choosing another one is a preemption)
    pub self_enabled: bool,
    /// site label of the point (for replay files)
    pub site: u32,
    pub thread: usize,
    /// which thread each alternative designates
    pub enabled: Vec<usize>,
}
pub struct Inner {
    pub current: usize,
    pub st: Vec<St>,
    pub prefix: Vec<usize>,
    pub trace: Vec<Pt>,
    pub abort: bool,
    pub deadlock: bool,
    pub done: bool,
    pub diverged: bool,
    pub next_cv: usize,
    pub horizon: usize,
    pub horizon_hit: bool,
}
pub struct Sched {
    pub m: Mutex<Inner>,
    pub cvs: Vec<Condvar>,
    pub main: Condvar,
}
thread_local! {
    pub static TID: Cell<usize> = Cell::new(usize::MAX);
}
static SCHED: Mutex<Option<Arc<Sched>>> = Mutex::new(None);
/// payload used to unwind blocked threads after a deadlock was detected
pub struct AbortToken;

pub fn install(s: Option<Arc<Sched>>) {
    *SCHED.lock().unwrap() = s;
}
pub fn cur() -> Option<(Arc<Sched>, usize)> {
    let t = TID.with(|t| t.get());
    if t == usize::MAX {
        return None;
    }
    SCHED.lock().unwrap().clone().map(|s| (s, t))
}

pub const SITE_CACHE_ENTER: u32 = 10;
pub const SITE_CACHE_COMPUTED: u32 = 11;
pub const SITE_BLOCK: u32 = 12;
pub const SITE_FINISH: u32 = 13;
pub const SITE_START: u32 = 0;

pub fn site_name(s: u32) -> &'static str {
    match s {
        0 => "start",
        1 => "get:enter(before guard check+push)",
        2 => "get:pushed",
        3 => "get:computed",
        4 => "get:before-pop",
        5 => "guard-mutex:held",
        6 => "mutex:before-lock",
        10 => "cache:enter(before lock)",
        11 => "cache:computed(before re-lock)",
        12 => "cache:wait",
        13 => "thread-finished",
        _ => "?",
    }
}

impl Sched {
    pub fn new(nthreads: usize, prefix: Vec<usize>, horizon: usize) -> Arc<Sched> {
        Arc::new(Sched {
            m: Mutex::new(Inner { current: usize::MAX, st: vec![St::Runnable; nthreads], prefix, trace: vec![], abort: false, deadlock: false, done: false, diverged: false, next_cv: 0, horizon, horizon_hit: false }),
            cvs: (0..nthreads).map(|_| Condvar::new()).collect(),
            main: Condvar::new(),
        })
    }
    /// choose the next thread to run; `me` keeps waiting for its turn afterwards
    fn switch(self: &Arc<Self>, me: usize, site: u32, g: &mut MutexGuard<Inner>) {
        // enabled threads in canonical order: the running thread first if still enabled, then ascending ids
        let mut en: Vec<usize> = vec![];
        let self_en = me < g.st.len() && g.st[me] == St::Runnable;
        if self_en {
            en.push(me);
        }
        for (i, s) in g.st.iter().enumerate() {
            if i != me && *s == St::Runnable {
                en.push(i);
            }
        }
        if en.is_empty() {
            if g.st.iter().all(|s| *s == St::Finished) {
                g.done = true;
                self.main.notify_all();
                return;
            }
            // no enabled thread while some are blocked: deadlock
            g.deadlock = true;
            g.abort = true;
            g.done = true;
            self.main.notify_all();
            for c in &self.cvs {
                c.notify_all();
            }
            return;
        }
        if g.trace.len() >= g.horizon {
            g.horizon_hit = true;
            g.abort = true;
            g.done = true;
            self.main.notify_all();
            for c in &self.cvs {
                c.notify_all();
            }
            return;
        }
        let step = g.trace.len();
        let pick = if step < g.prefix.len() {
            let p = g.prefix[step];
            if p >= en.len() {
                g.diverged = true;
                0
            } else {
                p
            }
        } else {
            0
        };
        g.trace.push(Pt { n: en.len(), picked: pick, self_enabled: self_en, site, thread: me, enabled: en.clone() });
        let next = en[pick];
        g.current = next;
        if next != me {
            self.cvs[next].notify_all();
        }
    }
    fn wait_turn(self: &Arc<Self>, me: usize, mut g: MutexGuard<Inner>) {
        while g.current != me && !g.abort {
            g = self.cvs[me].wait(g).unwrap();
        }
        if g.abort && g.current != me {
            drop(g);
            std::panic::resume_unwind(Box::new(AbortToken));
        }
    }
    /// a scheduling point
    pub fn point(self: &Arc<Self>, me: usize, site: u32) {
        let mut g = self.m.lock().unwrap();
        if g.abort {
            // hooks are inert after an abort (never raise from inside a Drop that may be unwinding)
            return;
        }
        self.switch(me, site, &mut g);
        self.wait_turn(me, g);
    }
    /// block on condition `cv` until notified
    pub fn block(self: &Arc<Self>, me: usize, cv: usize) {
        let mut g = self.m.lock().unwrap();
        if g.abort {
            drop(g);
            std::panic::resume_unwind(Box::new(AbortToken));
        }
        g.st[me] = St::Blocked(cv);
        self.switch(me, SITE_BLOCK, &mut g);
        while !(g.current == me && g.st[me] == St::Runnable) && !g.abort {
            g = self.cvs[me].wait(g).unwrap();
        }
        if g.abort && !(g.current == me && g.st[me] == St::Runnable) {
            drop(g);
            std::panic::resume_unwind(Box::new(AbortToken));
        }
    }
    pub fn notify_all(self: &Arc<Self>, cv: usize) {
        let mut g = self.m.lock().unwrap();
        for s in g.st.iter_mut() {
            if *s == St::Blocked(cv) {
                *s = St::Runnable;
            }
        }
    }
    pub fn new_cv(self: &Arc<Self>) -> usize {
        let mut g = self.m.lock().unwrap();
        g.next_cv += 1;
        g.next_cv
    }
    pub fn finish(self: &Arc<Self>, me: usize) {
        let mut g = self.m.lock().unwrap();
        if g.abort {
            return;
        }
        g.st[me] = St::Finished;
        self.switch(me, SITE_FINISH, &mut g);
    }
    /// called by a worker thread before its first operation
    pub fn enter(self: &Arc<Self>, me: usize) {
        TID.with(|c| c.set(me));
        let g = self.m.lock().unwrap();
        self.wait_turn(me, g);
    }
    /// called by the main thread: make the first decision and wait until the run is over
    pub fn start_and_wait(self: &Arc<Self>, nthreads: usize) {
        let mut g = self.m.lock().unwrap();
        let en: Vec<usize> = (0..nthreads).collect();
        let step = g.trace.len();
        let pick = if step < g.prefix.len() {
            let p = g.prefix[step];
            if p >= en.len() {
                g.diverged = true;
                0
            } else {
                p
            }
        } else {
            0
        };
        g.trace.push(Pt { n: en.len(), picked: pick, self_enabled: false, site: SITE_START, thread: usize::MAX, enabled: en.clone() });
        g.current = en[pick];
        self.cvs[en[pick]].notify_all();
        while !g.done {
            g = self.main.wait(g).unwrap();
        }
    }
}

/// the handler installed into pdf::verif (scheduling points inside StorageResolver::get)
pub fn hook(site: u32) {
    if let Some((s, me)) = cur() {
        s.point(me, site);
    }
}
/// condition number of a mutex of the code under test (disjoint from the cache's condition numbers)
fn lock_cv(lock: usize) -> usize {
    (1usize << 40) | (lock & ((1usize << 40) - 1))
}
/// the lock handler installed into pdf::verif: a thread that finds the guard mutex taken is parked until it is released
pub fn lock_hook(ev: u32, lock: usize) -> bool {
    match cur() {
        Some((s, me)) => {
            // after an abort (deadlock found, horizon hit) the threads are being unwound: never raise from here, the caller
            // may be a drop guard; let the thread use the real mutex
            if s.m.lock().unwrap().abort {
                return false;
            }
            if ev == pdf::verif::EV_WOULD_BLOCK {
                s.block(me, lock_cv(lock));
            } else {
                s.notify_all(lock_cv(lock));
            }
            true
        }
        None => false,
    }
}

// ------------------------------------------------------------------------------------------------
// Instrumented cache: transliteration of globalcache::sync::SyncCache::get (see UPSTREAM_GET below).
enum Slot<V> {
    InProcess(usize),
    Computed(V),
}
pub struct VerifCache<V>(Arc<Mutex<HashMap<PlainRef, Slot<V>>>>);
impl<V> VerifCache<V> {
    pub fn new() -> Self {
        VerifCache(Arc::new(Mutex::new(HashMap::new())))
    }
}
impl<V: Clone> Cache<V> for VerifCache<V> {
    fn get_or_compute(&self, key: PlainRef, compute: impl FnOnce() -> V) -> V {
        let sc = cur();
        // upstream: `let mut guard = self.inner.lock().unwrap();`  -- acquiring the lock is a scheduling point
        if let Some((s, me)) = &sc {
            s.point(*me, SITE_CACHE_ENTER);
        }
        loop {
            let mut g = self.0.lock().unwrap();
            match g.get(&key) {
                // upstream: Entry::Occupied, Value::Computed => return v.value.clone()
                Some(Slot::Computed(v)) => return v.clone(),
                // upstream: Value::InProcess(condvar) => Self::poll(..): condvar.wait(guard) in a loop until Computed
                Some(Slot::InProcess(cv)) => {
                    let cv = *cv;
                    drop(g);
                    match &sc {
                        Some((s, me)) => s.block(*me, cv),
                        None => panic!("re-entrant compute of cache key {:?} on one thread (the real cache would wait forever)", key),
                    }
                    continue;
                }
                // upstream: Entry::Vacant => insert InProcess(condvar); drop(guard); compute(); lock; replace; notify_all
                None => {
                    let cv = match &sc {
                        Some((s, _)) => s.new_cv(),
                        None => 0,
                    };
                    g.insert(key, Slot::InProcess(cv));
                    drop(g);
                    let v = compute();
                    if let Some((s, me)) = &sc {
                        s.point(*me, SITE_CACHE_COMPUTED);
                    }
                    let mut g = self.0.lock().unwrap();
                    g.insert(key, Slot::Computed(v.clone()));
                    drop(g);
                    if let Some((s, _)) = &sc {
                        s.notify_all(cv);
                    }
                    return v;
                }
            }
        }
    }
    fn clear(&self) {
        self.0.lock().unwrap().clear();
    }
}

/// Binding of VerifCache to the upstream source: the SHA-256 of the `get` function of the crate version in the
/// cargo registry is compared at self-check time; a changed upstream fails loudly.
pub const UPSTREAM_FILE: &str = "globalcache-0.2.4/src/sync.rs";
pub const UPSTREAM_GET_SHA256: &str = "0694114df12fb18527590e500b20c3a8dfb1fb5959f35c680d7588265ba9de5e";

pub fn upstream_get_source() -> Result<String, String> {
    let home = std::env::var("CARGO_HOME").unwrap_or_else(|_| format!("{}/.cargo", std::env::var("HOME").unwrap_or_else(|_| "/root".into())));
    let src = format!("{}/registry/src", home);
    for e in std::fs::read_dir(&src).map_err(|e| format!("{}: {}", src, e))? {
        let p = e.map_err(|e| e.to_string())?.path().join(UPSTREAM_FILE);
        if let Ok(text) = std::fs::read_to_string(&p) {
            let start = text.find("pub fn get(&self, key: K, compute: impl FnOnce() -> V) -> V {").ok_or("get() not found in upstream sync.rs")?;
            let end = text[start..].find("pub fn entries(").ok_or("end of get() not found")?;
            return Ok(text[start..start + end].to_string());
        }
    }
    Err(format!("{} not found under {}", UPSTREAM_FILE, src))
}
pub fn check_upstream() -> Result<(), String> {
    use sha2::{Digest, Sha256};
    let src = upstream_get_source()?;
    let h = Sha256::digest(src.as_bytes());
    let hex: String = h.iter().map(|b| format!("{:02x}", b)).collect();
    if hex != UPSTREAM_GET_SHA256 {
        return Err(format!("globalcache SyncCache::get changed (sha256 {}); VerifCache must be re-transliterated", hex));
    }
    Ok(())
}
