//! The read-everything walker (C01, C14, C17, C12): opens a document and touches everything reachable
//! through the public read interface. Every loop of the walker itself is bounded by the number of
//! objects in the file, so that only a single library call can ever be charged with a hang.
use crate::common::*;
use crate::core::*;
use pdf::any::AnySync;
use pdf::error::PdfError;
use pdf::file::{Cache, File, FileOptions, NoLog, ScanItem};
use pdf::font::Font;
use pdf::object::*;
use pdf::primitive::Primitive;
use std::sync::Arc;

pub type OCResult = std::result::Result<AnySync, Arc<PdfError>>;
pub type SCResult = std::result::Result<Arc<[u8]>, Arc<PdfError>>;

/// Observations: (key, value) lines. Errors are recorded by root-cause variant.
#[derive(Default)]
pub struct Obs {
    pub lines: Vec<(String, String)>,
    pub record: bool,
    pub calls: u64,
}
impl Obs {
    pub fn new(record: bool) -> Self {
        Obs { lines: vec![], record, calls: 0 }
    }
    fn put(&mut self, key: impl FnOnce() -> String, val: impl FnOnce() -> String) {
        self.calls += 1;
        if self.record {
            self.lines.push((key(), val()));
        }
    }
    fn err(&mut self, key: impl FnOnce() -> String, e: &PdfError) {
        self.calls += 1;
        if self.record {
            self.lines.push((key(), format!("ERR:{}", err_variant(e))));
        }
    }
}

fn rect_s(r: &Rectangle) -> String {
    format!("[{} {} {} {}]", r.left, r.bottom, r.right, r.top)
}
fn bytes_s(b: &[u8]) -> String {
    format!("{}B#{:016x}", b.len(), fnv(b))
}

pub struct WalkOpts {
    pub scan: bool,
    pub font_codes: bool,
    pub max_objects: u64,
}
impl Default for WalkOpts {
    fn default() -> Self {
        WalkOpts { scan: true, font_codes: true, max_objects: 400 }
    }
}

fn walk_font(key: &str, font: &Font, r: &impl Resolve, o: &mut Obs, w: &WalkOpts) {
    o.put(|| format!("{}.subtype", key), || format!("{:?} cid={}", font.subtype, font.is_cid()));
    o.put(|| format!("{}.name", key), || format!("{:?}", font.name.as_ref().map(|n| n.as_str().to_string())));
    match font.widths(r) {
        Ok(Some(wd)) => {
            if w.font_codes {
                let mut s = String::new();
                for c in (0..=300usize).chain([65535usize, 65530, 1000]) {
                    s.push_str(&format!("{} ", wd.get(c)));
                }
                o.put(|| format!("{}.widths", key), || format!("#{:016x}", fnv(s.as_bytes())));
            } else {
                o.put(|| format!("{}.widths", key), || format!("{} {} {}", wd.get(0), wd.get(32), wd.get(65535)));
            }
        }
        Ok(None) => o.put(|| format!("{}.widths", key), || "none".into()),
        Err(e) => o.err(|| format!("{}.widths", key), &e),
    }
    match font.to_unicode(r) {
        None => o.put(|| format!("{}.tounicode", key), || "none".into()),
        Some(Ok(map)) => {
            let mut s = String::new();
            for c in (0..=300u16).chain([0xfffe, 0xffff]) {
                if let Some(t) = map.get(c) {
                    s.push_str(&format!("{}={:?};", c, t));
                }
            }
            o.put(|| format!("{}.tounicode", key), || s);
        }
        Some(Err(e)) => o.err(|| format!("{}.tounicode", key), &e),
    }
    match font.embedded_data(r) {
        None => o.put(|| format!("{}.embedded", key), || "none".into()),
        Some(Ok(d)) => o.put(|| format!("{}.embedded", key), || bytes_s(&d)),
        Some(Err(e)) => o.err(|| format!("{}.embedded", key), &e),
    }
    o.put(|| format!("{}.encoding", key), || format!("{:?}", font.encoding().map(|e| format!("{:?}", e.base))));
    let _ = font.cid_to_gid_map().map(|m| match m {
        pdf::font::CidToGidMap::Identity => 0,
        pdf::font::CidToGidMap::Table(t) => t.len(),
    });
    let _ = font.info().map(|i| i.first_char);
}

fn walk_xobject(key: &str, x: &XObject, r: &impl Resolve, o: &mut Obs) {
    walk_xobject_d(key, x, r, o, None, 0)
}

/// `nested`: options and remaining depth for walking the resources of a form
fn walk_xobject_d(key: &str, x: &XObject, r: &impl Resolve, o: &mut Obs, nested: Option<&WalkOpts>, depth: usize) {
    match x {
        XObject::Image(img) => {
            o.put(|| format!("{}.image", key), || format!("{}x{} bpc={:?} mask={}", img.width, img.height, img.bits_per_component, img.image_mask));
            match img.raw_image_data(r) {
                Ok((d, f)) => o.put(|| format!("{}.raw_image_data", key), || format!("{} filter={}", bytes_s(&d), f.map(|f| format!("{:?}", f).split('(').next().unwrap().to_string()).unwrap_or_default())),
                Err(e) => o.err(|| format!("{}.raw_image_data", key), &e),
            }
            match img.image_data(r) {
                Ok(d) => o.put(|| format!("{}.image_data", key), || bytes_s(&d)),
                Err(e) => o.err(|| format!("{}.image_data", key), &e),
            }
            match img.inner.data(r) {
                Ok(d) => o.put(|| format!("{}.stream_data", key), || bytes_s(&d)),
                Err(e) => o.err(|| format!("{}.stream_data", key), &e),
            }
            if let Some(sm) = img.smask {
                match r.get(sm) {
                    Ok(s) => match Stream::data(&*s, r) {
                        Ok(d) => o.put(|| format!("{}.smask", key), || format!("{}x{} {}", s.info.width, s.info.height, bytes_s(&d))),
                        Err(e) => o.err(|| format!("{}.smask.data", key), &e),
                    },
                    Err(e) => o.err(|| format!("{}.smask", key), &e),
                }
            }
        }
        XObject::Form(form) => {
            o.put(|| format!("{}.form", key), || rect_s(&form.dict().bbox));
            match form.operations(r) {
                Ok(ops) => o.put(|| format!("{}.form.ops", key), || format!("{} ops #{:016x}", ops.len(), fnv(format!("{:?}", ops).as_bytes()))),
                Err(e) => o.err(|| format!("{}.form.ops", key), &e),
            }
            if let Some(res) = form.dict().resources.as_ref() {
                o.put(|| format!("{}.form.resources", key), || format!("fonts={}", res.fonts.len()));
                if let (Some(w), true) = (nested, depth > 0) {
                    walk_resources_d(&format!("{}.form.res", key), res, r, o, w, depth - 1);
                }
            }
        }
        XObject::Postscript(_) => o.put(|| format!("{}.ps", key), || "ps".into()),
    }
}

fn walk_appearance(key: &str, e: &pdf::object::AppearanceStreamEntry, r: &impl Resolve, o: &mut Obs, depth: usize) {
    use pdf::object::AppearanceStreamEntry;
    match e {
        AppearanceStreamEntry::Single(form) => match form.operations(r) {
            Ok(ops) => o.put(|| format!("{}.ops", key), || format!("{} ops #{:016x}", ops.len(), fnv(format!("{:?}", ops).as_bytes()))),
            Err(e) => o.err(|| format!("{}.ops", key), &e),
        },
        AppearanceStreamEntry::Dict(d) => {
            let mut names: Vec<&pdf::primitive::Name> = d.keys().collect();
            names.sort();
            o.put(|| format!("{}.states", key), || names.iter().take(20).map(|n| n.as_str().to_string()).collect::<Vec<_>>().join(","));
            if depth > 0 {
                for n in names.into_iter().take(20) {
                    walk_appearance(&format!("{}[{}]", key, n.as_str()), &d[n], r, o, depth - 1);
                }
            }
        }
    }
}

fn walk_field(key: &str, f: &pdf::object::FieldDictionary, r: &impl Resolve, o: &mut Obs, depth: usize, budget: &mut u64) {
    o.put(|| key.to_string(), || format!("{:?} type={:?} kids={}", f.name.as_ref().map(|n| n.to_string_lossy()), f.typ, f.kids.len()));
    if let Some(p) = f.parent {
        match r.get(p) {
            Ok(pf) => o.put(|| format!("{}.parent", key), || format!("{:?}", pf.name.as_ref().map(|n| n.to_string_lossy()))),
            Err(e) => o.err(|| format!("{}.parent", key), &e),
        }
    }
    if depth == 0 {
        return;
    }
    for (i, k) in f.kids.iter().take(20).enumerate() {
        if *budget == 0 {
            return;
        }
        *budget -= 1;
        match r.get(*k) {
            Ok(kf) => walk_field(&format!("{}.kid[{}]", key, i), &kf, r, o, depth - 1, budget),
            Err(e) => o.err(|| format!("{}.kid[{}]", key, i), &e),
        }
    }
}

fn apply_function(key: &str, f: &pdf::object::Function, o: &mut Obs) {
    use pdf::object::Function;
    // the dimension accessors are read calls too (the variants without data cannot be produced by the reader)
    let (nin, nout) = match f {
        Function::Stiching | Function::Calculator => (1, 1),
        _ => (f.input_dim(), f.output_dim()),
    };
    o.put(|| format!("{}.function.dims", key), || format!("{}x{}", nin, nout));
    if nin > 64 || nout > 64 {
        o.put(|| format!("{}.function", key), || format!("dims {}x{} not applied", nin, nout));
        return;
    }
    for x0 in [0.0f32, 0.5, 1.0, -1.0, 1e9] {
        let x = vec![x0; nin];
        let mut out = vec![0.0f32; nout];
        match f.apply(&x, &mut out) {
            Ok(()) => o.put(|| format!("{}.function({})", key, x0), || format!("{:?}", out)),
            Err(e) => o.err(|| format!("{}.function({})", key, x0), &e),
        }
    }
}
fn walk_colorspace(key: &str, cs: &pdf::object::ColorSpace, o: &mut Obs, depth: usize) {
    use pdf::object::ColorSpace;
    if depth == 0 {
        return;
    }
    match cs {
        ColorSpace::Separation(_, alt, f) => {
            apply_function(key, f, o);
            walk_colorspace(key, alt, o, depth - 1);
        }
        ColorSpace::DeviceN { alt, tint, .. } => {
            apply_function(key, tint, o);
            walk_colorspace(key, alt, o, depth - 1);
        }
        ColorSpace::Indexed(base, _, _) => walk_colorspace(key, base, o, depth - 1),
        _ => {}
    }
}

fn walk_resources(key: &str, res: &Resources, r: &impl Resolve, o: &mut Obs, w: &WalkOpts) {
    walk_resources_d(key, res, r, o, w, 2)
}

fn walk_resources_d(key: &str, res: &Resources, r: &impl Resolve, o: &mut Obs, w: &WalkOpts, depth: usize) {
    let mut names: Vec<&pdf::primitive::Name> = res.fonts.keys().collect();
    names.sort();
    for n in names.into_iter().take(40) {
        let k = format!("{}.font[{}]", key, n.as_str());
        match res.fonts[n].load(r) {
            Ok(f) => walk_font(&k, &f, r, o, w),
            Err(e) => o.err(|| k, &e),
        }
    }
    let mut names: Vec<&pdf::primitive::Name> = res.xobjects.keys().collect();
    names.sort();
    for n in names.into_iter().take(40) {
        let k = format!("{}.xobject[{}]", key, n.as_str());
        match r.get(res.xobjects[n]) {
            Ok(x) => walk_xobject_d(&k, &x, r, o, Some(w), depth),
            Err(e) => o.err(|| k, &e),
        }
    }
    let mut names: Vec<&pdf::primitive::Name> = res.color_spaces.keys().collect();
    names.sort();
    for n in names.into_iter().take(40) {
        let cs = &res.color_spaces[n];
        o.put(|| format!("{}.colorspace[{}]", key, n.as_str()), || truncate(&format!("{:?}", cs), 120).split('{').next().unwrap_or("").to_string());
        walk_colorspace(&format!("{}.colorspace[{}]", key, n.as_str()), cs, o, 8);
    }
    let mut names: Vec<&pdf::primitive::Name> = res.pattern.keys().collect();
    names.sort();
    for n in names.into_iter().take(40) {
        let k = format!("{}.pattern[{}]", key, n.as_str());
        match r.get(res.pattern[n]) {
            Ok(p) => o.put(|| k, || match &*p {
                Pattern::Dict(_) => "dict".to_string(),
                Pattern::Stream(_, ops) => format!("stream {} ops", ops.len()),
            }),
            Err(e) => o.err(|| k, &e),
        }
    }
    let mut names: Vec<&pdf::primitive::Name> = res.graphics_states.keys().collect();
    names.sort();
    for n in names.into_iter().take(40) {
        let gs = &res.graphics_states[n];
        o.put(|| format!("{}.gs[{}]", key, n.as_str()), || format!("lw={:?}", gs.line_width));
        if let Some((f, size)) = gs.font {
            match r.get(f) {
                Ok(font) => o.put(|| format!("{}.gs[{}].font", key, n.as_str()), || format!("{:?} {}", font.name.as_ref().map(|n| n.as_str().to_string()), size)),
                Err(e) => o.err(|| format!("{}.gs[{}].font", key, n.as_str()), &e),
            }
        }
    }
    o.put(|| format!("{}.properties", key), || format!("{}", res.properties.len()));
}

/// Walk an opened document.
pub fn walk<OC, SC>(file: &File<Vec<u8>, OC, SC, NoLog>, file_len: usize, w: &WalkOpts, o: &mut Obs)
where
    OC: Cache<OCResult>,
    SC: Cache<SCResult>,
{
    let r = file.resolver();
    let size = (file.trailer.size.max(0) as u64).min(w.max_objects);
    let nobj = size + 2;
    let count = file.num_pages();
    o.put(|| "num_pages".into(), || count.to_string());
    match file.version() {
        Ok(v) => o.put(|| "version".into(), || v.clone()),
        Err(e) => o.err(|| "version".into(), &e),
    }
    o.put(|| "trailer".into(), || format!("size={} id={:?} info={}", file.trailer.size, file.trailer.id.iter().map(|s| bytes_s(s.as_bytes())).collect::<Vec<_>>(), file.trailer.info_dict.as_ref().map(|i| format!("{:?}", i.title.as_ref().map(|t| t.to_string_lossy()))).unwrap_or_default()));
    let mut idx: Vec<u32> = (0..count.min(nobj as u32)).collect();
    // (the last two indices of the 32-bit range: sums of subtree counts are compared against them)
    for extra in [count.wrapping_sub(1), count, count.wrapping_add(1), u32::MAX - 1, u32::MAX] {
        if !idx.contains(&extra) {
            idx.push(extra);
        }
    }
    for i in idx {
        let key = format!("page[{}]", i);
        match file.get_page(i) {
            Err(e) => o.err(|| key, &e),
            Ok(page) => {
                o.put(|| key.clone(), || format!("obj {}", page.get_ref().get_inner().id));
                match page.media_box() {
                    Ok(b) => o.put(|| format!("{}.media_box", key), || rect_s(&b)),
                    Err(e) => o.err(|| format!("{}.media_box", key), &e),
                }
                match page.crop_box() {
                    Ok(b) => o.put(|| format!("{}.crop_box", key), || rect_s(&b)),
                    Err(e) => o.err(|| format!("{}.crop_box", key), &e),
                }
                o.put(|| format!("{}.rotate", key), || format!("{} trim={:?}", page.rotate, page.trim_box.as_ref().map(rect_s)));
                match page.resources() {
                    Ok(res) => walk_resources(&format!("{}.res", key), res, &r, o, w),
                    Err(e) => o.err(|| format!("{}.resources", key), &e),
                }
                if let Some(c) = page.contents.as_ref() {
                    match c.operations(&r) {
                        Ok(ops) => {
                            if std::env::var("VERIF_DEBUG").is_ok() {
                                eprintln!("{} ops: {:?}", key, crate::props::c08::canon_seq(&ops));
                            }
                            o.put(|| format!("{}.ops", key), || format!("{} ops #{:016x}", ops.len(), fnv(format!("{:?}", ops).as_bytes())))
                        }
                        Err(e) => o.err(|| format!("{}.ops", key), &e),
                    }
                }
                match page.annotations.load(&r) {
                    Ok(a) => {
                        o.put(|| format!("{}.annots", key), || format!("{} [{}]", a.len(), a.iter().take(20).map(|x| x.subtype.as_str().to_string()).collect::<Vec<_>>().join(",")));
                        for (ai, an) in a.iter().take(20).enumerate() {
                            if let Some(ap) = an.appearance_streams.as_ref() {
                                let k = format!("{}.annot[{}].ap", key, ai);
                                for (label, e) in [("N", Some(ap.normal)), ("R", ap.rollover), ("D", ap.down)] {
                                    if let Some(e) = e {
                                        match r.get(e) {
                                            Ok(entry) => walk_appearance(&format!("{}.{}", k, label), &entry, &r, o, 6),
                                            Err(e) => o.err(|| format!("{}.{}", k, label), &e),
                                        }
                                    }
                                }
                            }
                        }
                    }
                    Err(e) => o.err(|| format!("{}.annots", key), &e),
                }
                o.put(|| format!("{}.other", key), || format!("{}", page.other.len()));
            }
        }
    }
    // catalog
    let cat = file.get_root();
    if let Some(names) = cat.names.as_ref() {
        if let Some(d) = names.dests.as_ref() {
            let mut n = 0u64;
            let mut s = String::new();
            let res = d.walk(&r, &mut |k, v| {
                n += 1;
                if n < 200 {
                    s.push_str(&format!("{}={:?};", show_bytes(k.as_bytes()), v.as_ref().map(|d| d.page.map(|p| p.get_inner().id))));
                }
            });
            match res {
                Ok(()) => o.put(|| "names.dests".into(), || format!("{} {}", n, s)),
                Err(e) => o.err(|| "names.dests".into(), &e),
            }
        }
        if let Some(d) = names.embedded_files.as_ref() {
            let mut n = 0u64;
            let res = d.walk(&r, &mut |_, _| n += 1);
            match res {
                Ok(()) => o.put(|| "names.embedded".into(), || format!("{}", n)),
                Err(e) => o.err(|| "names.embedded".into(), &e),
            }
        }
        for (label, t) in [("pages", &names.pages), ("ap", &names.ap), ("javascript", &names.javascript), ("templates", &names.templates), ("ids", &names.ids), ("urls", &names.urls)] {
            if let Some(t) = t.as_ref() {
                let mut n = 0u64;
                let res = t.walk(&r, &mut |_, _| n += 1);
                match res {
                    Ok(()) => o.put(|| format!("names.{}", label), || format!("{}", n)),
                    Err(e) => o.err(|| format!("names.{}", label), &e),
                }
            }
        }
    }
    if let Some(pl) = cat.page_labels.as_ref() {
        let mut s = String::new();
        let mut n = 0;
        let res = pl.walk(&r, &mut |i, l| {
            n += 1;
            if n < 200 {
                s.push_str(&format!("{}:{:?}/{:?}/{:?};", i, l.style, l.prefix.as_ref().map(|p| show_bytes(p.as_bytes())), l.start));
            }
        });
        match res {
            Ok(()) => o.put(|| "page_labels".into(), || s),
            Err(e) => o.err(|| "page_labels".into(), &e),
        }
    }
    if let Some(out) = cat.outlines.as_ref() {
        o.put(|| "outlines".into(), || format!("count={}", out.count));
        let mut cur = out.first;
        let mut steps = 0u64;
        while let Some(item_ref) = cur {
            steps += 1;
            if steps > nobj {
                o.put(|| "outlines.chain".into(), || "longer than the number of objects (cycle)".into());
                break;
            }
            match r.get(item_ref) {
                Ok(item) => {
                    o.put(|| format!("outline[{}]", steps), || format!("obj {} title={:?} dest={} action={}", item_ref.get_inner().id, item.title.as_ref().map(|t| t.to_string_lossy()), item.dest.is_some(), item.action.is_some()));
                    // the first level of children, and the back links
                    let mut child = item.first;
                    let mut csteps = 0u64;
                    while let Some(c) = child {
                        csteps += 1;
                        if csteps > nobj.min(50) {
                            break;
                        }
                        match r.get(c) {
                            Ok(ci) => {
                                o.put(|| format!("outline[{}].child[{}]", steps, csteps), || format!("obj {} title={:?}", c.get_inner().id, ci.title.as_ref().map(|t| t.to_string_lossy())));
                                child = ci.next;
                            }
                            Err(e) => {
                                o.err(|| format!("outline[{}].child[{}]", steps, csteps), &e);
                                break;
                            }
                        }
                    }
                    for (label, l) in [("prev", item.prev), ("last", item.last)] {
                        if let Some(l) = l {
                            match r.get(l) {
                                Ok(_) => o.put(|| format!("outline[{}].{}", steps, label), || format!("obj {}", l.get_inner().id)),
                                Err(e) => o.err(|| format!("outline[{}].{}", steps, label), &e),
                            }
                        }
                    }
                    cur = item.next;
                }
                Err(e) => {
                    o.err(|| format!("outline[{}]", steps), &e);
                    break;
                }
            }
        }
    }
    if let Some(forms) = cat.forms.as_ref() {
        o.put(|| "acroform".into(), || format!("{} fields [{}]", forms.fields.len(), forms.fields.iter().take(20).map(|f| format!("{:?}", f.name.as_ref().map(|n| n.to_string_lossy()))).collect::<Vec<_>>().join(",")));
    }
    if let Some(forms) = cat.forms.as_ref() {
        let mut budget = nobj.min(200);
        for (i, f) in forms.fields.iter().take(20).enumerate() {
            walk_field(&format!("acroform.field[{}]", i), f, &r, o, 8, &mut budget);
        }
    }
    if let Some(st) = cat.struct_tree_root.as_ref() {
        o.put(|| "struct_tree".into(), || format!("{} children", st.children.len()));
        for (i, c) in st.children.iter().take(20).enumerate() {
            match r.get(c.parent) {
                Ok(p) => o.put(|| format!("struct_tree.child[{}].parent", i), || format!("{:?}", p.struct_type)),
                Err(e) => o.err(|| format!("struct_tree.child[{}].parent", i), &e),
            }
            if let Some(pg) = c.page {
                match r.get(pg) {
                    Ok(_) => o.put(|| format!("struct_tree.child[{}].page", i), || format!("obj {}", pg.get_inner().id)),
                    Err(e) => o.err(|| format!("struct_tree.child[{}].page", i), &e),
                }
            }
        }
    }
    if let Some(m) = cat.metadata {
        match r.get(m) {
            Ok(s) => match Stream::<()>::data(&s, &r) {
                Ok(d) => o.put(|| "metadata".into(), || bytes_s(&d)),
                Err(e) => o.err(|| "metadata".into(), &e),
            },
            Err(e) => o.err(|| "metadata".into(), &e),
        }
    }
    // every object by number
    for nr in 0..nobj {
        let key = format!("obj[{}]", nr);
        match r.resolve(PlainRef { id: nr, gen: 0 }) {
            Ok(p) => {
                let is_stream = matches!(p, Primitive::Stream(_));
                let is_objstm = match &p {
                    Primitive::Stream(s) => s.info.get("Type").and_then(|t| t.as_name().ok()) == Some("ObjStm"),
                    _ => false,
                };
                o.put(|| key.clone(), || crate::common::show_val(&prim_to_val_hashed(&p, &r)));
                // the text decoders (PDFDocEncoding / UTF-16BE with byte order mark / UTF-8) on every string of the object
                text_of_strings(&key, &p, o, 0);
                if is_stream {
                    match Stream::<()>::from_primitive(p, &r) {
                        Ok(s) => match s.data(&r) {
                            Ok(d) => o.put(|| format!("{}.data", key), || bytes_s(&d)),
                            Err(e) => o.err(|| format!("{}.data", key), &e),
                        },
                        Err(e) => o.err(|| format!("{}.stream", key), &e),
                    }
                    if is_objstm {
                        match r.get::<ObjectStream>(Ref::from_id(nr)) {
                            Ok(os) => {
                                let n = os.n_objects();
                                let mut s = format!("n={}", n);
                                for i in 0..(n as u64).min(nobj) as usize {
                                    match os.get_object_slice(i, &r) {
                                        Ok((data, range)) => s.push_str(&format!(" {:?}={}", range.clone(), data.get(range).map(|b| format!("{:016x}", fnv(b))).unwrap_or_else(|| "OUT".into()))),
                                        Err(e) => s.push_str(&format!(" ERR:{}", err_variant(&e))),
                                    }
                                }
                                o.put(|| format!("{}.objstm", key), || s);
                            }
                            Err(e) => o.err(|| format!("{}.objstm", key), &e),
                        }
                    }
                }
            }
            Err(e) => o.err(|| key, &e),
        }
    }
    if w.scan {
        let mut n = 0usize;
        let mut items: Vec<String> = vec![];
        // the iterator must end: it is bounded by the file length (every item consumes at least one byte)
        for item in file.scan() {
            n += 1;
            if n > file_len + 16 {
                items.push("NOT-TERMINATING".into());
                break;
            }
            match item {
                Ok(ScanItem::Object(rf, p)) => {
                    // (the printed form of a stream shows the size of its data only: add a digest of the bytes the scan hands out)
                    let data = match &p {
                        Primitive::Stream(s) => {
                            let raw = match s.raw_data(&r) {
                                Ok(d) => format!(" data={}", bytes_s(&d)),
                                Err(e) => format!(" data=ERR:{}", err_variant(&e)),
                            };
                            // the typed view of the scanned stream (a superseded revision of an object has the
                            // number of the current one: its decoded data must still be its own)
                            let decoded = match Stream::<()>::from_primitive(p.clone(), &r).and_then(|st| st.data(&r)) {
                                Ok(d) => format!(" decoded={}", bytes_s(&d)),
                                Err(e) => format!(" decoded=ERR:{}", err_variant(&e)),
                            };
                            format!("{}{}", raw, decoded)
                        }
                        _ => String::new(),
                    };
                    items.push(format!("obj {} {} {}{}", rf.id, rf.gen, crate::common::show_val(&prim_to_val_hashed(&p, &r)), data))
                }
                Ok(ScanItem::Trailer(d)) => items.push(format!("trailer {}", show_dict(&d))),
                Err(e) => items.push(format!("ERR:{}", err_variant(&e))),
            }
        }
        items.sort();
        o.put(|| "scan".into(), || format!("{} items #{:016x}", items.len(), fnv(items.join("\n").as_bytes())));
        if o.record {
            o.lines.push(("scan.items".into(), items.join(" | ")));
        }
    }
}

/// like prim_to_val but stream data replaced by its length+hash (keeps observations small)
fn text_of_strings(key: &str, p: &Primitive, o: &mut Obs, depth: usize) {
    if depth > 6 {
        return;
    }
    match p {
        Primitive::String(s) => {
            let lossy = s.to_string_lossy();
            match s.to_string() {
                Ok(t) => o.put(|| format!("{}.text", key), || format!("{:?} / {:?}", t, lossy)),
                Err(e) => o.err(|| format!("{}.text", key), &e),
            }
        }
        Primitive::Array(a) => {
            for x in a.iter().take(64) {
                text_of_strings(key, x, o, depth + 1);
            }
        }
        Primitive::Dictionary(d) => {
            for (_, v) in d.iter().take(64) {
                text_of_strings(key, v, o, depth + 1);
            }
        }
        Primitive::Stream(s) => {
            for (_, v) in s.info.iter().take(64) {
                text_of_strings(key, v, o, depth + 1);
            }
        }
        _ => {}
    }
}

pub fn prim_to_val_hashed(p: &Primitive, r: &impl Resolve) -> crate::pdfgen::val::Val {
    use crate::pdfgen::val::Val;
    match prim_to_val(p, r) {
        Val::Stream(d, data) => Val::Stream(d, bytes_s(&data).into_bytes()),
        v => v,
    }
}

#[derive(Clone, Copy, Debug, PartialEq)]
pub struct Config {
    pub tolerant: bool,
    pub cached: bool,
}
pub const CONFIGS: [Config; 4] = [Config { tolerant: false, cached: false }, Config { tolerant: false, cached: true }, Config { tolerant: true, cached: false }, Config { tolerant: true, cached: true }];
impl Config {
    pub fn name(&self) -> &'static str {
        match (self.tolerant, self.cached) {
            (false, false) => "strict-uncached",
            (false, true) => "strict-cached",
            (true, false) => "tolerant-uncached",
            (true, true) => "tolerant-cached",
        }
    }
}

/// Open `bytes` under `cfg` and walk. Returns Err(load error variant) if the document does not open.
pub fn open_and_walk(bytes: &[u8], password: &[u8], cfg: Config, w: &WalkOpts, o: &mut Obs) -> std::result::Result<(), String> {
    let po = if cfg.tolerant { ParseOptions::tolerant() } else { ParseOptions::strict() };
    if cfg.cached {
        match FileOptions::cached().parse_options(po).password(password).load(bytes.to_vec()) {
            Ok(f) => {
                walk(&f, bytes.len(), w, o);
                Ok(())
            }
            Err(e) => {
                if std::env::var("VERIF_DEBUG").is_ok() {
                    eprintln!("load error: {}", e);
                }
                Err(err_variant(&e))
            }
        }
    } else {
        match FileOptions::uncached().parse_options(po).password(password).load(bytes.to_vec()) {
            Ok(f) => {
                walk(&f, bytes.len(), w, o);
                Ok(())
            }
            Err(e) => Err(err_variant(&e)),
        }
    }
}
