#!/usr/bin/env python3
"""Generates /verif/MANIFEST.json from the table below (kept in one place so it stays valid)."""
import json, subprocess, os

HERE = os.path.dirname(os.path.abspath(__file__))

# id -> (level, technique, text, note)   (only implemented checks are listed; the rest go to not_applicable)
CHECKS = {
    "C18": ("model_checking",
            "exhaustive enumeration of dangling-reference placements: every listed entry site of a two-revision rich document x 6 dangling classes (free entry, beyond /Size, gap, freed by an update with the generation incremented / kept, equal to /Size but listed) x 2 xref formats x 4 configurations (differential against the document with the entry removed), and every field of the 45-model table x 3 classes x 2 modes inside real files",
            "Each optional entry (typed options, defaulted entries, maps and their values, array elements, lazily loaded and eagerly resolved carriers) is pointed at a free entry, a number beyond /Size and a number in a gap; the complete walk must equal the walk with the entry removed; required entries must give an error naming the entry and never a panic. Full product of the listed sites and classes.",
            "Trusted: the site list and the model table (the latter guarded against the sources). Carriers that the typed object does not interpret (plain Ref, raw Primitive, catch-all entries) can only be required not to break the load.",
            "§5 C18"),
    "C15": ("model_checking",
            "deviation-bounded exhaustive exploration of field assignments of 47 typed models (absent/default/other per field incl. reals beyond 32 bits, all enum variants, nested models, unknown keys, int-vs-real spelling) and of typed streams over 14 filter chains through the real reader and writer on a real Storage",
            "For every model that can be read and written the explorer enumerates all dictionaries within 5 (quick) / 8 (thorough) field deviations of the minimal valid one; oracle p0 -> T -> p1 -> T -> p2 with p1 == p2, and for catch-all models every input entry preserved (recursively, up to omitted defaults, int == real, equal dates). Typed values of the hand-written models (destinations of every view with coordinates absent / 0 / -0 / positive / negative, rectangles, matrices, dates, encodings) are also built through their public fields, written, read back and written again. A guard keeps the table in step with the #[pdf(key)] attributes in the sources.",
            "Trusted: the harness-side model table (checked against the sources by the guard). Writers that are unimplemented (NameTree, Function, ColorSpace) are outside the property; fields needing resolvable targets stay absent.",
            "§5 C15"),
    "C01": ("fault_enumeration",
            "exhaustive enumeration of the single-fault edit neighbourhood (every byte substitution over an alphabet at every offset, every truncation / prefix drop, every number token replaced by boundary tokens, every small integer array set to every assignment of {0, 1, 2^31-1}, every hexadecimal string token replaced by boundary values, multi-byte UTF-8 characters inserted at / written over every offset of every literal string; thorough: deletions, insertions, entry deletion/duplication, all numbers of the file, fault pairs in the trailer region) of a seed set, plus the hand-built hostile structures of C14 as they are, each walked completely in worker processes under all configurations",
            "'All byte strings' cannot be enumerated; what is enumerated completely is the stated neighbourhood of generated seeds (one per structural feature) and of the corpus crash files. Every faulted input is opened strict/tolerant x cached/uncached and every read entry point is exercised by the walker inside a worker process so that panics, stack overflows, aborts, allocation failures and hangs are observed and attributed to one input.",
            "Trusted: walker reaches the entry points of the property; fixed thresholds (10 s, 3 GiB). No claim beyond the neighbourhoods.",
            "§5 C01"),
    "C14": ("fault_enumeration",
            "exhaustive enumeration of single structural faults (every reference occurrence re-pointed at every object / undefined / beyond-size number; every integer occurrence set to 11 boundary values; every string emptied / halved / doubled / taken five times / zero-padded to 127 bytes (encrypted documents also opened with a wrong password); every value position replaced by a reference to a self-referencing object, a reference cycle, the containing object or an externalised copy), all pairs of re-wirings inside 9 structural fragments and about 1400 special structures (xref /W product, offsets near 2^64, object-stream offset pairs, /Parent chains ending in errors or 200000 long, page trees that are DAGs, predictor geometries over data cut inside a row, fax images with boundary widths, content streams whose operators each look ahead, giant strings), each walked completely in a worker process under 4 configurations",
            "The fault space over the base documents is enumerated completely (not sampled): cycles through every followed field, self-containing object streams, /Prev loops, nesting to 200000, boundary numbers in every numeric field incl. encryption, predictor, xref and function parameters. Workers make stack overflow, abort, allocation failure (3 GiB limit) and hangs (10 s) observable and attributable to one case.",
            "Trusted: the walker reaches the entry points named by the property; thresholds for 'out of proportion' are fixed (10 s / 3 GiB for ~10 KB files). Faults beyond two simultaneous re-wirings are not enumerated.",
            "§5 C14"),
    "C13": ("model_checking",
            "stateless model checking of real threads under a controlled (baton-passing) scheduler: every interleaving at the resolver's and the cache's synchronisation points up to a preemption bound (iterative context bounding), executed in worker processes, compared with sequential answers",
            "2-3 real threads run 1-3 load calls each (typed loads, page look-up, resolves of compressed objects of two object streams, mutually referring objects, a ring of three entered by three threads) on one open document (shared resolver or one each; no caches or instrumented compute-once caches); every schedule with <=2 (quick) / <=3 (thorough) preemptions for 2 threads and <=1 / <=2 for 3 threads is executed; oracle: every answer equals the call run alone, no panic, no deadlock (no enabled thread while some are blocked), no process abort, resolver usable afterwards; failing schedules are replayed and must reproduce; replay divergence is a machinery error.",
            "Trusted: scheduling points suffice because the only shared mutable state is the guard stack behind its mutex (under the feature every mutex of the module is a schedulable one with a point before each lock and inside each critical section, so lock/try_lock contention and everything that may happen between two critical sections is explored) and the caches; VerifCache is bound to globalcache's SyncCache::get by source hash and by sequential trace comparison (plus a non-deciding free-running run in thorough). once_cell in Lazy::load is not covered.",
            "§5 C13"),
    "C12": ("model_checking",
            "exhaustive enumeration of read-call sequences (all sequences up to length 3 over a 40-call alphabet, all permutations of the calls per object, all ordered pairs over a wide alphabet of every typed view and resolve on every object) x 5 cache configurations, with strict and with tolerant options, on four generated documents (the third a 70-deep /Parent chain with cyclic nodes and two objects that call themselves by the same number, the fourth encrypted with an indirect encryption dictionary), plus complete cached-vs-uncached walks of the repository corpus, each answer compared with the same call alone on a fresh uncached document",
            "The answer to a call must not depend on history or cache configuration: every sequence of <=2 calls under five configurations (SyncCache both / object only / stream only / own map-backed caches / none), every sequence of 3 under two (thorough: all) configurations and every ordering of the distinct calls on one object are executed on the real library; digests are canonical (no HashMap order, no offsets).",
            "Trusted: digest functions. The call alphabets are fixed (typed loads as 8 types incl. mismatches and the generic Primitive / Dictionary / i32 views, stream data, image data before/after the codec, page look-ups); longer sequences are not enumerated.",
            "§5 C12"),
    "C10": ("model_checking",
            "deviation-bounded exhaustive exploration of PdfBuilder inputs (pages, operation sets, boxes, rotation, extras, resources, info) with two oracles per build: a reload through the library and an independent structural reader",
            "All builder inputs within 4 (quick) / 5 (thorough) deviations of the canonical one-page document (incl. names made of number signs and delimiters, strings with parentheses out of order, coordinates below 1e-4 and above 1e16) are built with the real PdfBuilder; the output must reload with equal page count/order/boxes/rotation/extras/operations/resources/info and must pass an independent byte-level validation (header, startxref, every xref entry -> matching object header, /Size, every /Length, no dangling reference).",
            "Trusted: the independent reader (refread.rs) and the C08 canonical comparator. More than 3 pages or more simultaneous deviations are not covered.",
            "§5 C10"),
    "C09": ("model_checking",
            "exhaustive enumeration of all operation histories up to depth 4 (quick) / 5 (thorough) over a 27-symbol alphabet on a real Storage x 4 base files x cached/uncached, and of all histories of <=3 operations + save through the File interface (save_to a path, reload), checked step by step against a map reference model, an independent structural reader and a reload",
            "Every history of create (plain values and a typed value whose conversion creates a second object) / update (direct, compressed, stream, created, fulfilled objects, object 0, a number that is free in one base) / promise / fulfil / typed read / save / unserialisable-update / repair is executed on the real Storage and Updater; after each step all tracked references are read (resolve and cached typed get incl. Stream::data); after each save: prefix preservation, independent structural validation and value comparison, reload and comparison of written and untouched objects; failing saves must fail cleanly and not wedge the document.",
            "Trusted: reference model (BTreeMap), the independent reader. Known finding: repeated dictionary updates merge. Histories longer than the depth bound are not covered.",
            "§5 C09"),
    "C08": ("model_checking",
            "exhaustive enumeration of operator programs (every operator of Table A.1 alone and in every ordered pair) against a reference interpreter, and of all Op sequences up to length 3 (longer over shorthand-sensitive sub-alphabets) through the real serializer and parser",
            "The parser is checked against a harness-side transcription of the operator table including current-point tracking, for all 1- and 2-operator programs; the writer/reader pair is checked on every sequence of <=3 operations of the operation alphabet (every variant, shorthand triggers, names and tags containing the number sign) and every sequence of 4..5 (thorough 6) over three sub-alphabets, plus boundary operand values.",
            "Trusted: the reference interpreter (transcribed from ISO 32000-1 Table A.1 and 8.5.2). Known finding: d0/d1 have no Op.",
            "§5 C08"),
    "C19": ("model_checking",
            "exhaustive enumeration of /W array shapes (groups x forms x lengths x spacings x every insertion order x DW), simple-font tables, all small code->text maps through the CMap writer, and conformant CMap texts with bounded spelling deviations, checked against map-based reference models",
            "The width table grows at both ends depending on insertion order, so every permutation of up to 4 groups is enumerated and every code near a range end is queried; the CMap writer is round-tripped for all maps of <=3 entries over boundary codes/texts; producer-written CMaps (bfchar, both bfrange forms, mixed) must read as the specification defines.",
            "Trusted: reference models (BTreeMap). More than 4 groups / 3 widths per group and larger maps are outside the bound.",
            "§5 C19"),
    "C20": ("model_checking",
            "exhaustive enumeration of page selections (every ordered selection of 1-3 of 3 pages, incl. the same page twice) x 4 source storages (classic, xref stream + object streams, RC4- and AES-encrypted) x 4 resource placements x 3 extra-entry shapes (acyclic, cyclic through the page, shared between pages) x 4 resource shapes (category dictionaries indirect, form sharing the page's resources object) x 3 ways of using the source (uncached, cached, cached with every stream read before the import) plus every page of every corpus file, imported with the real Importer/PdfBuilder in isolated worker processes, saved, reloaded and compared with the source",
            "Every case runs PageBuilder::clone_page + PdfBuilder::build in a worker (stack overflow / abort / hang attributed to the case), then: independent structural reader accepts the new file and finds no reference to an undefined object; boxes, rotation and canonical operation sequences equal; for every resource name the operations use (fonts, XObjects, ext-gstates, colour spaces, patterns, shadings, property lists) a deep comparison of dictionaries and decoded stream data through both resolvers; extra page entries equal; objects shared by the imported pages exist once in the output.",
            "Trusted: the structural reader and the deep comparison; documents are the generated rich document family and the repository corpus; /ProcSet and inherited page-tree attributes the operations do not use are outside the comparison.",
            "§5 C20"),
    "C06": ("model_checking",
            "deviation-bounded exhaustive exploration of encryption configurations (17 handler variants x <=2/<=3 deviations of passwords incl. 127/128-byte and multi-byte-at-the-limit ones, permissions, ID, flags, object ids, lengths, spellings, encryption dictionary with and without /Length under V 4) and a sweep of 6 key-derivation variants x 256 password pairs, documents produced by an independent encryptor and read with the real library under correct and wrong passwords",
            "Each configuration is materialised as a file by an encryptor written from the specification (validated against 10 third-party fixtures), opened with user and owner password (all strings, streams, metadata, compressed strings and the encryption dictionary's own strings compared with plaintext) and with wrong passwords (must be InvalidPassword).",
            "Trusted: harness encryptor + md5/sha2/aes/cbc crates. Public-key handlers, /StrF != /StmF, named crypt filters outside the property. Bound on simultaneous deviations.",
            "§5 C06"),
    "C17": ("model_checking",
            "exhaustive enumeration of prefix lengths 1..1019 x filler kinds (and all byte values at 4 lengths) over generated and corpus files; differential comparison of a full read-everything walk with the unprefixed file",
            "For the generated files (classic, cross-reference stream with object stream, /Prev chains, small, entries at offset 0, linearized layout whose first section stands after the header with /Prev further down at two distances, RC4-encrypted) every prefix length and 8 fillers are enumerated (and all 256 byte values at 4 lengths); corpus files at 14 boundary lengths (quick) / every length (thorough). Each prefixed file is walked completely (objects, stream data, pages, fonts, trees, trailer, recovery scan) and compared observation by observation with the walk of the unprefixed file.",
            "Trusted: the walker's observation digest. Prefixes containing the header marker are excluded by the property.",
            "§5 C17"),
    "C07": ("model_checking",
            "exhaustive enumeration of all ordered page trees up to 7/8 nodes with bounded deviations of inheritable-attribute placement, generated as real files and checked against a DFS/nearest-ancestor reference model, cached and uncached",
            "Every rooted ordered tree up to the node bound (pages and empty Pages nodes anywhere) is generated exactly once with accurate counts and parent links and scrambled object numbers; attribute placement is explored to 2 (quick) / 3 (thorough) simultaneous deviations from 'root only'; and of where values are stored (/Kids, boxes, resources, /Count as indirect objects); chains to depth 12 with side pages; every index 0..count+2 is requested.",
            "Trusted: reference model (DFS leaf order, nearest tagged ancestor). Trees with more nodes or fan-out beyond the bound are not covered; depth beyond 12 is outside the property.",
            "§5 C07"),
    "C11": ("model_checking",
            "exhaustive enumeration of storage twins: every catalogue value x object-stream position x trailing white-space as a full product with bounded deviations of filter, /First padding, neighbour kinds and update placement; real files resolved through the real reader",
            "Every value kind is placed both as a direct object and inside an object stream (only/first/middle/last, each trailing white-space form incl. none at the end of the stream data, 5 object-stream filters, /First beyond the header or with no separator at all, every neighbour kind, plain and encrypted documents) and both references must resolve to the producer's value; in a document that is being modified, a twin that was read, replaced and read again yields the new value whichever way it was stored; stream data must not depend on whether /Length is direct, an indirect direct-object integer (before/after) or an integer inside an object stream.",
            "Trusted: the assembler's object-stream writer. Bound: <=1 (quick) / <=2 (thorough) simultaneous deviations of filter/padding/neighbours.",
            "§5 C11"),
    "C02": ("model_checking",
            "exhaustive enumeration of update histories (all sequences of <=3 xref sections over <=3 object numbers, every entry state and section format, layout options: low object numbers, free-list head not restated, three styles of free entry) and of long chains (4..24 sections rewriting the same three objects x format patterns x xref-stream numbering x cached/uncached) generated as real files, loaded by the real reader and compared with a map-based reference model of 'newest mention wins'",
            "The history space (sections x format x per-object {absent, direct, compressed, free}) is a full product; every history, including every prefix length, is materialised by the independent assembler and every object number below /Size is resolved through the library and compared with the reference model; free/undefined numbers must give a free/missing error; trailer root/size/ID must be the newest section's.",
            "Trusted: the assembler's well-formedness (compressed only in stream sections, a number freed for good is never re-used; a number freed before may return inside an object stream). Hybrid /XRefStm files are not generated. Beyond 3 sections only the long-chain patterns are covered.",
            "§5 C02"),
    "C04": ("model_checking",
            "exhaustive value sweeps (all 1-2 byte strings, every Unicode scalar as a name, all 2^32 integers and all finite f32 in thorough) x writer placements, each serialised by the real writer and read back by the real parser",
            "The value domains the property names are enumerated completely within the stated sizes and pushed through every placement the writer uses (array first/middle/last, dictionary value and key, alone, content-stream operand via serialize_ops/parse_ops, indirect object through the real Updater::create + Storage::save + reload).",
            "Trusted: nothing but the comparison (Integer(n) == Number(n as f32)). Strings longer than 2 bytes and names longer than 3 characters are covered only through the catalogue values; NaN/inf excluded.",
            "§5 C04"),
    "C03": ("model_checking",
            "deviation-bounded exhaustive exploration of the choice tree of a specification-conformant printer (every spelling within <=1/<=2 deviations of the canonical one), each leaf parsed by the real parser and compared with the printer's input value",
            "All values of the catalogue (every kind, all ordered kind pairs, nesting to depth 20) x 5 parse entry contexts are a full product; spelling freedoms (11 separator kinds incl. comments, number forms, string escapes/octal/continuations/raw EOLs, hex forms incl. odd digits with inner white-space, #xx) are explored exhaustively up to 1 (quick; 2 on atoms alone) / 2 (thorough, 3 on atoms) simultaneous deviations; sequences check that each parse consumes exactly its own text.",
            "Trusted: the producer's printer (ISO 32000-1 7.2/7.3). Not covered: more simultaneous deviations than the bound, values outside the catalogue, non-UTF-8 names, >32-bit integers.",
            "§5 C03"),
    "C05": ("model_checking",
            "exhaustive enumeration of filter kernels, short inputs x encoder variants, the full product of predictor geometries and filter chains, and all single-fault corruptions, executed on the real decoders against independent encoders",
            "Kernels are enumerated completely (hex pairs, hex digit / white-space layouts, run-length headers, PNG filter pairs/triples, ASCII85 groups: all 2^32 in thorough), all byte strings up to length 2/3 go through 23 independent encoder variants, the full product of predictor geometry and of chains up to length 3 is explored by the bounded choice-tree search (also through Stream::data on generated files), every geometry also over data that ends inside a row, and every truncation/single-byte substitution of encoded buffers must give Ok or Err.",
            "Trusted: harness encoders (self-tested). Longer data and geometries beyond Colors<=4, Columns<=5, 3 rows are not enumerated. DCT/CCITT/JBIG2/JPX outside the property.",
            "§5 C05"),
    "C16": ("model_checking",
            "exhaustive enumeration of all short byte strings x filters and parameter variants (bounded input-space model checking on the real encoder/decoder) with an independent reference decoder as oracle",
            "All byte strings of length <=2 (quick) / <=3 (thorough) x 4 encodable filters are enumerated completely and run through the real encode/decode pair and an independent reference decoder; structured long buffers extend the bound; every round trip of 6 buffers x 8 filters is repeated on the same thread right after each of about 150 earlier calls (failed and successful decodes of every filter). Exhaustive within the stated bound, no sampling in the deciding part.",
            "Trusted: the harness's own reference decoders (validated by the self-test against spec examples); values beyond the enumerated lengths are covered only by the structured buffers.",
            "§5 C16"),
}

PENDING_REASON = "check not built yet in this round (implementation in progress; see DESIGN.md §5 for the planned bounded exhaustive exploration)"

def main():
    props = [json.loads(l) for l in open(os.path.join(HERE, "properties.jsonl"))]
    hooks_commits = subprocess.run(["git", "-C", "/repo", "log", "--format=%h %s"], capture_output=True, text=True).stdout.splitlines()
    hook_commits = [l.split()[0] for l in hooks_commits if l.split(" ", 1)[1].startswith("verif hooks")]
    checks = []
    na = []
    for p in props:
        pid = p["id"]
        if pid in CHECKS:
            level, tech, text, note, ref = CHECKS[pid]
            checks.append({
                "property_id": pid,
                "quick_cmd": f"./check {pid} quick",
                "thorough_cmd": f"./check {pid} thorough",
                "evidence_file": f"/verif/evidence/{pid}.json",
                "replay_cmd_template": "./check replay {path}",
                "engine": "harness",
                "level_claimed": {"category": level, "text": text, "design_ref": ref},
                "level_note": note,
                "technique": tech,
            })
        else:
            na.append({"property_id": pid, "reason": PENDING_REASON})
    m = {
        "version": 1,
        "setup_cmd": "./setup.sh",
        "hooks": {
            "guard": "cargo feature `verif` of crate pdf (off by default)",
            "enable": "the harness depends on pdf by path with features=[\"verif\"] (harness/Cargo.toml.in); ./check rebuilds from /repo's working tree",
            "baseline_off_cmd": "cd /repo && cargo test --workspace --no-fail-fast --offline",
            "source_commits": hook_commits,
            "add_only": True,
        },
        "engines": [
            {"name": "harness", "path": "/verif/harness", "serves_properties": sorted(CHECKS.keys()),
             "kind_free_text": "Rust binary: stateless bounded-cost choice-tree search (deviation/preemption/depth bounded DFS re-executing the real library per node), exhaustive value sweeps, independent PDF producer as oracle, worker-process isolation"},
        ],
        "checks": checks,
        "not_applicable": na,
        "notes": "See DESIGN.md. exit 0 = held (KNOWN-FINDING lines for listed defects), 1 = VIOLATION, 2 = machinery failure (no verdict). known_findings.jsonl lists recorded defects and fixed: entries.",
    }
    json.dump(m, open(os.path.join(HERE, "MANIFEST.json"), "w"), indent=1)
    print("MANIFEST.json written:", len(checks), "checks,", len(na), "not_applicable")

if __name__ == "__main__":
    main()
