#!/bin/bash
# run every registered check of one tier in sequence; prints the summary line and exit code of each
tier=${1:-quick}
cd "$(dirname "$0")"
rc=0
for id in C01 C02 C03 C04 C05 C06 C07 C08 C09 C10 C11 C12 C13 C14 C15 C16 C17 C18 C19 C20; do
  out=$(./check $id $tier 2>&1); code=$?
  echo "$out" | grep -E "^(VIOLATION|MACHINERY)" | head -5
  echo "$out" | tail -1 | sed "s/^/[exit $code] /"
  [ $code -ne 0 ] && rc=1
done
exit $rc
