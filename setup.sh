#!/bin/bash
# Offline build of the harness + self-test of the independent PDF producer.
set -e
cd "$(dirname "$0")"
./check build
./check selfcheck
